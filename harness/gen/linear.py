"""C26 helpers: flow generators, Coq printers, and the two Python interpreters used as the
direct property oracle on the implementation's output (structured flow vs. the real
linearized subroutines executed like the generated C++ state machine).

Flow encoding (JSON-able lists), see harness/impl/linear.py.
"""
from __future__ import annotations

import functools
import json
from typing import Any, List, Optional, Tuple

from harness.lib import coq_list, coq_nat, coq_option, coq_text

# ---------------------------------------------------------------------------------
# shapes: exhaustive enumeration (names are assigned afterwards in preorder)
# ---------------------------------------------------------------------------------


@functools.lru_cache(maxsize=None)
def seqs(n: int, d: int) -> tuple:
    """All node sequences with exactly n nodes in total and nesting depth <= d."""
    if n == 0:
        return ((),)
    out = []
    for k in range(1, n + 1):
        for first in nodes(k, d):
            for rest in seqs(n - k, d):
                out.append((first,) + rest)
    return tuple(out)


@functools.lru_cache(maxsize=None)
def nodes(k: int, d: int) -> tuple:
    """All nodes with exactly k nodes in total (the node itself included)."""
    out = []
    if k == 1:
        out.append(("C",))
        out.append(("Y",))
    if d > 0:
        for body in seqs(k - 1, d - 1):
            out.append(("W", body))
            out.append(("R", False, body))
            out.append(("R", True, body))
            if len(body) >= 1:
                out.append(("T", body, None))
                out.append(("F", body, None))
        for a in range(1, k):
            for body in seqs(a, d - 1):
                for els in seqs(k - 1 - a, d - 1):
                    out.append(("T", body, els))
                    out.append(("F", body, els))
    return tuple(out)


def name_shape(seq, counter=None) -> list:
    """Give every command/condition a distinct name (preorder index)."""
    if counter is None:
        counter = [0]
    out = []
    for n in seq:
        i = counter[0]
        counter[0] += 1
        k = n[0]
        if k == "C":
            out.append(["C", f"c{i}"])
        elif k == "Y":
            out.append(["Y"])
        elif k in ("T", "F"):
            body = name_shape(n[1], counter)
            els = None if n[2] is None else name_shape(n[2], counter)
            out.append([k, f"a{i}", body, els])
        elif k == "R":
            out.append(["R", f"i{i}" if n[1] else None, f"a{i}", f"j{i}", name_shape(n[2], counter)])
        elif k == "W":
            out.append(["W", f"a{i}", name_shape(n[1], counter)])
        else:
            raise ValueError(k)
    return out


def exhaustive(max_size: int, depth: int):
    for n in range(0, max_size + 1):
        for s in seqs(n, depth):
            yield name_shape(s)


# ---------------------------------------------------------------------------------
# random larger flows
# ---------------------------------------------------------------------------------


def random_shape_seq(rng, budget: List[int], depth: int, min_len: int = 0, allow_empty_if=False):
    out = []
    n = rng.choice([0, 1, 1, 2, 2, 3, 4]) if min_len == 0 else rng.choice([1, 1, 2, 3])
    for _ in range(n):
        if budget[0] <= 0:
            break
        out.append(random_shape_node(rng, budget, depth, allow_empty_if))
    if len(out) < min_len:
        out.append(("C",) if rng.random() < 0.6 else ("Y",))
    return tuple(out)


def random_shape_node(rng, budget, depth, allow_empty_if=False):
    budget[0] -= 1
    if depth <= 0 or budget[0] <= 0:
        return ("C",) if rng.random() < 0.55 else ("Y",)
    k = rng.choice(["C", "C", "Y", "Y", "T", "T", "F", "F", "R", "R", "W", "W"])
    if k in ("C", "Y"):
        return (k,)
    if k in ("T", "F"):
        minb = 0 if (allow_empty_if and rng.random() < 0.3) else 1
        body = random_shape_seq(rng, budget, depth - 1, min_len=minb, allow_empty_if=allow_empty_if)
        r = rng.random()
        if r < 0.4:
            els = None
        elif r < 0.55:
            els = ()
        else:
            els = random_shape_seq(rng, budget, depth - 1, allow_empty_if=allow_empty_if)
        return (k, body, els)
    if k == "R":
        return ("R", rng.random() < 0.5, random_shape_seq(rng, budget, depth - 1, allow_empty_if=allow_empty_if))
    return ("W", random_shape_seq(rng, budget, depth - 1, allow_empty_if=allow_empty_if))


def random_flow(rng, max_nodes: int, depth: int, allow_empty_if=False) -> list:
    budget = [max_nodes]
    top = []
    for _ in range(rng.choice([1, 2, 3, 4, 5, 6])):
        if budget[0] <= 0:
            break
        top.append(random_shape_node(rng, budget, depth, allow_empty_if))
    return name_shape(tuple(top))


def is_wf(flow) -> bool:
    for n in flow:
        k = n[0]
        if k in ("T", "F"):
            if len(n[2]) == 0 or not is_wf(n[2]) or (n[3] is not None and not is_wf(n[3])):
                return False
        elif k == "R":
            if not is_wf(n[4]):
                return False
        elif k == "W":
            if not is_wf(n[2]):
                return False
    return True


def size_of(flow) -> int:
    s = 0
    for n in flow:
        s += 1
        k = n[0]
        if k in ("T", "F"):
            s += size_of(n[2]) + (0 if n[3] is None else size_of(n[3]))
        elif k == "R":
            s += size_of(n[4])
        elif k == "W":
            s += size_of(n[2])
    return s


def depth_of(flow) -> int:
    d = 0
    for n in flow:
        k = n[0]
        if k in ("T", "F"):
            d = max(d, 1 + max(depth_of(n[2]), 0 if n[3] is None else depth_of(n[3])))
        elif k == "R":
            d = max(d, 1 + depth_of(n[4]))
        elif k == "W":
            d = max(d, 1 + depth_of(n[2]))
    return d


def kinds_of(flow, acc=None) -> dict:
    acc = {} if acc is None else acc
    for n in flow:
        k = n[0]
        if k in ("T", "F"):
            key = k + ("" if n[3] is None else ("e0" if len(n[3]) == 0 else "e"))
            acc[key] = acc.get(key, 0) + 1
            kinds_of(n[2], acc)
            if n[3] is not None:
                kinds_of(n[3], acc)
        elif k == "R":
            key = "R" + ("i" if n[1] is not None else "")
            acc[key] = acc.get(key, 0) + 1
            kinds_of(n[4], acc)
        elif k == "W":
            acc["W"] = acc.get("W", 0) + 1
            kinds_of(n[2], acc)
        else:
            acc[k] = acc.get(k, 0) + 1
    return acc


def neighbours(flow) -> list:
    """One-edit variants: drop a node, hoist a body, wrap in a loop / an if."""
    out = []
    for i, n in enumerate(flow):
        out.append(flow[:i] + flow[i + 1:])
        k = n[0]
        subs = []
        if k in ("T", "F"):
            subs = [(2, n[2])] + ([(3, n[3])] if n[3] is not None else [])
            if n[3] is not None:
                out.append(flow[:i] + [[k, n[1], n[2], None]] + flow[i + 1:])
        elif k == "R":
            subs = [(4, n[4])]
            if n[1] is not None:
                out.append(flow[:i] + [["R", None, n[2], n[3], n[4]]] + flow[i + 1:])
        elif k == "W":
            subs = [(2, n[2])]
        for idx, body in subs:
            out.append(flow[:i] + list(body) + flow[i + 1:])
            for nb in neighbours(list(body)):
                if idx in (2,) and k in ("T", "F") and len(nb) == 0:
                    continue
                m = list(n)
                m[idx] = nb
                out.append(flow[:i] + [m] + flow[i + 1:])
    return out


def wrappers(flow) -> list:
    if len(flow) == 0:
        return []
    return [[["W", "w", flow]], [["R", None, "w", "jw", flow]], [["T", "w", flow, None]],
            [["F", "w", flow, []]], flow + [["Y"]], [["Y"]] + flow, flow + [["C", "z"]]]


# ---------------------------------------------------------------------------------
# Coq printers
# ---------------------------------------------------------------------------------


def coq_flow(flow) -> str:
    return coq_list(coq_node(n) for n in flow)


def coq_node(n) -> str:
    k = n[0]
    if k == "C":
        return f"NCommand {coq_text(n[1])}"
    if k == "Y":
        return "NYield"
    if k in ("T", "F"):
        ctor = "NIfTrue" if k == "T" else "NIfFalse"
        return (f"{ctor} {coq_text(n[1])} {coq_flow(n[2])} "
                f"{coq_option(None if n[3] is None else coq_flow(n[3]))}")
    if k == "R":
        return (f"NFor {coq_option(None if n[1] is None else coq_text(n[1]))} {coq_text(n[2])} "
                f"{coq_text(n[3])} {coq_flow(n[4])}")
    if k == "W":
        return f"NWhile {coq_text(n[1])} {coq_flow(n[2])}"
    raise ValueError(k)


class Unrepresentable(Exception):
    pass


def _lab(x) -> str:
    if x is None:
        return "None"
    if not isinstance(x, int) or isinstance(x, bool) or x < 0 or x >= 5000:
        raise Unrepresentable(f"label/target {x!r}")
    return f"(Some {coq_nat(x)})"


def coq_stmt(s) -> str:
    k = s["k"]
    lab = _lab(s["label"])
    if k == "C":
        kind = f"KCommand {coq_text(s['code'])}"
    elif k == "I":
        kind = f"KIf {coq_text(s['cond'])} {_lab(s['t'])} {_lab(s['f'])}"
    elif k == "J":
        t = s["target"]
        if not isinstance(t, int) or t < 0 or t >= 5000:
            raise Unrepresentable(f"target {t!r}")
        kind = f"KJump {coq_nat(t)}"
    elif k == "Y":
        kind = "KYield"
    elif k == "N":
        if s.get("comment") is not None:
            raise Unrepresentable("noop comment")
        kind = "KNoop"
    else:
        raise Unrepresentable(k)
    return f"mk_stmt {lab} ({kind})"


def coq_subs(subs) -> str:
    return coq_list(coq_list(coq_stmt(s) for s in sub) for sub in subs)


# ---------------------------------------------------------------------------------
# interpreters (the property statement, executable)
# ---------------------------------------------------------------------------------


class _Stop(Exception):
    def __init__(self, status):
        self.status = status


class _Env:
    def __init__(self, bits, max_events):
        self.bits = bits
        self.i = 0
        self.events: list = []
        self.max_events = max_events

    def emit(self, e):
        self.events.append(e)
        if len(self.events) >= self.max_events:
            raise _Stop("limit")

    def cond(self, c):
        if self.i >= len(self.bits):
            raise _Stop("need")
        v = self.bits[self.i]
        self.i += 1
        self.emit(("cond", c, v))
        return v


def run_struct(flow, bits, max_events=400) -> Tuple[list, str]:
    env = _Env(bits, max_events)

    def seq(ns):
        for n in ns:
            node(n)

    def node(n):
        k = n[0]
        if k == "C":
            env.emit(("cmd", n[1]))
        elif k == "Y":
            env.emit(("yield",))
        elif k == "T":
            if env.cond(n[1]):
                seq(n[2])
            elif n[3] is not None:
                seq(n[3])
        elif k == "F":
            if not env.cond(n[1]):
                seq(n[2])
            elif n[3] is not None:
                seq(n[3])
        elif k == "R":
            if n[1] is not None:
                env.emit(("cmd", n[1]))
            while env.cond(n[2]):
                seq(n[4])
                env.emit(("cmd", n[3]))
        elif k == "W":
            while env.cond(n[1]):
                seq(n[2])
        else:
            raise ValueError(k)

    try:
        seq(flow)
    except _Stop as s:
        return env.events, s.status
    return env.events, "done"


def run_lin(subs, bits, max_events=400) -> Tuple[list, str]:
    """Execute the subroutines like the C++ emitted by cpp/yielding.py:
    while (true) switch (state_) { case <head>: {...} ... default: throw } with
    fall-through between cases; state_ starts at 0."""
    env = _Env(bits, max_events)
    heads = [sub[0]["label"] if sub else None for sub in subs]
    total = sum(len(s) for s in subs) + len(subs) + 5
    state = 0
    silent = 0
    try:
        if len(subs) == 0:
            return env.events, "done"
        while True:
            # switch (state_)
            if state not in heads:
                return env.events, "stuck"
            si = heads.index(state)
            jumped = False
            while si < len(subs) and not jumped:
                for st in subs[si]:
                    silent += 1
                    if silent > total:
                        return env.events, "diverge"
                    k = st["k"]
                    if k == "C":
                        env.emit(("cmd", st["code"]))
                        silent = 0
                    elif k == "I":
                        v = env.cond(st["cond"])
                        silent = 0
                        tgt = st["t"] if v else st["f"]
                        if st["t"] is None and st["f"] is None:
                            return env.events, "if-without-target"
                        if tgt is not None:
                            state = tgt
                            jumped = True
                            break
                    elif k == "J":
                        state = st["target"]
                        jumped = True
                        break
                    elif k == "Y":
                        env.emit(("yield",))
                        silent = 0
                        if si + 1 < len(subs):
                            state = heads[si + 1]
                            jumped = True
                            break
                        return env.events, "done"   # state invalidated; return
                    elif k == "N":
                        pass
                    else:
                        return env.events, "bad-statement"
                else:
                    si += 1      # fall through into the next case block
            if not jumped:
                return env.events, "done"   # ran off the last case
    except _Stop as s:
        return env.events, s.status


def static_failures(subs) -> List[str]:
    """Labels consecutive; only heads labelled; every jump target is a head label."""
    fails = []
    heads = []
    for sub in subs:
        if len(sub) == 0 or sub[0]["label"] is None or any(s["label"] is not None for s in sub[1:]):
            fails.append("shape")
            break
        heads.append(sub[0]["label"])
    if "shape" not in fails:
        if heads and heads[0] != 0:
            fails.append("first-label")
        if any(b != a + 1 for a, b in zip(heads, heads[1:])):
            fails.append("consecutive")
        hs = set(heads)
        for sub in subs:
            for s in sub:
                ts = []
                if s["k"] == "J":
                    ts = [s["target"]]
                elif s["k"] == "I":
                    ts = [t for t in (s["t"], s["f"]) if t is not None]
                    if not ts:
                        fails.append("if-without-target")
                if any(t not in hs for t in ts):
                    fails.append("target")
        for sub in subs[:-1] if subs else []:
            pass
    return sorted(set(fails))


def trace_failure(flow, subs, max_bits: int, max_events=400) -> Optional[dict]:
    """Compare both interpreters for every sequence of condition outcomes of length
    <= max_bits (explored lazily: only prefixes that are actually consumed)."""
    stack = [[]]
    n = 0
    while stack:
        bits = stack.pop()
        n += 1
        e1, s1 = run_struct(flow, bits, max_events)
        e2, s2 = run_lin(subs, bits, max_events)
        if e1 != e2 or s1 != s2:
            return {"oracle": bits, "structured": [e1[-6:], s1], "linear": [e2[-6:], s2],
                    "first_difference": next((i for i, (a, b) in enumerate(zip(e1, e2)) if a != b),
                                             min(len(e1), len(e2)))}
        if s1 == "need" and len(bits) < max_bits:
            stack.append(bits + [False])
            stack.append(bits + [True])
    return None


def count_paths(flow, max_bits: int, max_events=400) -> int:
    stack = [[]]
    n = 0
    while stack:
        bits = stack.pop()
        _, s1 = run_struct(flow, bits, max_events)
        if s1 == "need" and len(bits) < max_bits:
            stack.append(bits + [False])
            stack.append(bits + [True])
        else:
            n += 1
    return n


# ---------------------------------------------------------------------------------
# flat token encoding (decoded by Model/LinearCodec.v)
# ---------------------------------------------------------------------------------


def _tok_str(s: str) -> list:
    return [len(s)] + [ord(c) for c in s]


def tok_seq(flow) -> list:
    out = [len(flow)]
    for n in flow:
        out += tok_node(n)
    return out


def tok_node(n) -> list:
    k = n[0]
    if k == "C":
        return [0] + _tok_str(n[1])
    if k == "Y":
        return [1]
    if k in ("T", "F"):
        return ([2 if k == "T" else 3] + _tok_str(n[1]) + tok_seq(n[2])
                + ([0] if n[3] is None else [1] + tok_seq(n[3])))
    if k == "R":
        return ([4] + ([0] if n[1] is None else [1] + _tok_str(n[1])) + _tok_str(n[2])
                + _tok_str(n[3]) + tok_seq(n[4]))
    if k == "W":
        return [5] + _tok_str(n[1]) + tok_seq(n[2])
    raise ValueError(k)


def _tok_lab(x) -> list:
    if x is None:
        return [0]
    if not isinstance(x, int) or isinstance(x, bool) or x < 0 or x >= 5000:
        raise Unrepresentable(f"label/target {x!r}")
    return [1, x]


def tok_stmt(s) -> list:
    k = s["k"]
    out = _tok_lab(s["label"])
    if k == "C":
        return out + [0] + _tok_str(s["code"])
    if k == "I":
        return out + [1] + _tok_str(s["cond"]) + _tok_lab(s["t"]) + _tok_lab(s["f"])
    if k == "J":
        t = s["target"]
        if not isinstance(t, int) or isinstance(t, bool) or t < 0 or t >= 5000:
            raise Unrepresentable(f"target {t!r}")
        return out + [2, t]
    if k == "Y":
        return out + [3]
    if k == "N":
        if s.get("comment") is not None:
            raise Unrepresentable("noop comment")
        return out + [4]
    raise Unrepresentable(k)


def tok_subs(subs) -> list:
    out = [len(subs)]
    for sub in subs:
        out.append(len(sub))
        for s in sub:
            out += tok_stmt(s)
    return out


def coq_tokens(ts) -> str:
    return "[" + ";".join(str(t) for t in ts) + "]"


def key_of(flow) -> str:
    return json.dumps(flow, separators=(",", ":"))
