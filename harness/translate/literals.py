"""C19: the escape dictionaries and the per-character ``if/elif`` chains of the literal
escapers of all six targets, as ordered ``(guard, output template)`` tables.

Fail closed: every statement / expression shape that is not explicitly understood raises
``TranslateError`` (the Gen file is then removed and every theorem stated over it stops
compiling). What is *not* translated but modelled by hand (``Model/Lit.v``): the choice
of quoting / enclosing of the Python and TypeScript ``string_literal`` and the chunking
of ``bytes_literal``.
"""
from __future__ import annotations

import ast
from typing import Dict, List, Optional, Tuple

from harness.translate.astutil import TranslateError, find_function, parse

# --------------------------------------------------------------------------------------
# Coq printers
# --------------------------------------------------------------------------------------
CMP = {ast.Eq: "CEq", ast.NotEq: "CNe", ast.Lt: "CLt", ast.LtE: "CLe", ast.Gt: "CGt",
       ast.GtE: "CGe"}
FLIP = {"CEq": "CEq", "CNe": "CNe", "CLt": "CGt", "CLe": "CGe", "CGt": "CLt", "CGe": "CLe"}


def c_text(s: str) -> str:
    return "[" + ";".join(str(ord(c)) for c in s) + "]"


def c_atom(a) -> str:
    if a[0] == "cp":
        return f"ACp {a[1]} {a[2]}"
    if a[0] == "next_some":
        return "ANextSome"
    if a[0] == "next_eq":
        return f"ANextEq {a[1]}"
    raise TranslateError(f"atom {a}")


def c_piece(p) -> str:
    if p[0] == "lit":
        return f"PLit {c_text(p[1])}"
    if p[0] == "char":
        return "PChar"
    if p[0] == "num":
        return f"PNum {p[1]} {p[2]}%nat"
    raise TranslateError(f"piece {p}")


def c_action(a) -> str:
    if a[0] == "emit":
        return "AEmit [" + "; ".join(c_piece(p) for p in a[1]) + "]"
    if a[0] == "raise":
        return f"ARaise {a[1]}"
    if a[0] == "true":
        return "ATrue"
    if a[0] == "none":
        return "ANone"
    raise TranslateError(f"action {a}")


def c_table(name: str, rules) -> str:
    rows = [f"  ([{'; '.join(c_atom(a) for a in g)}], {c_action(act)})" for g, act in rules]
    return f"Definition {name} : table := [\n" + ";\n".join(rows) + "\n]."


# --------------------------------------------------------------------------------------
# Module-level dictionaries
# --------------------------------------------------------------------------------------
def module_dicts(tree: ast.Module) -> Dict[str, Dict[str, str]]:
    """Every module-level ``NAME = {...}`` whose display consists of one-character string
    keys with string values and ``**NAME`` / ``**{...}`` merges of such dictionaries."""
    out: Dict[str, Dict[str, str]] = {}

    def ev(node: ast.AST) -> Dict[str, str]:
        if isinstance(node, ast.Name):
            if node.id not in out:
                raise TranslateError(f"merge of unknown dictionary {node.id}")
            return dict(out[node.id])
        if not isinstance(node, ast.Dict):
            raise TranslateError("not a dict display")
        d: Dict[str, str] = {}
        for k, v in zip(node.keys, node.values):
            if k is None:
                d.update(ev(v))
                continue
            if not (isinstance(k, ast.Constant) and isinstance(k.value, str) and len(k.value) == 1):
                raise TranslateError("escape key is not a one-character string constant")
            if not (isinstance(v, ast.Constant) and isinstance(v.value, str)):
                raise TranslateError("escape value is not a string constant")
            d[k.value] = v.value
        return d

    for st in tree.body:
        if (isinstance(st, ast.Assign) and len(st.targets) == 1
                and isinstance(st.targets[0], ast.Name) and isinstance(st.value, ast.Dict)):
            name = st.targets[0].id
            if "ESCAPING" not in name:
                continue
            out[name] = ev(st.value)
    return out


# --------------------------------------------------------------------------------------
# Loop-body flattener
# --------------------------------------------------------------------------------------
class Flat:
    """Turns the body of ``for character in text`` (or of the TypeScript ``while``) into an
    ordered rule list. ``flags`` fixes the boolean parameters (``in_backticks``);
    ``dicts`` are the dictionaries a lookup may refer to."""

    def __init__(self, char: str, dicts: Dict[str, Dict[str, str]], flags: Dict[str, bool],
                 sink: Optional[str], next_name: Optional[str] = None):
        self.char = char
        self.cp_names = set()
        self.dicts = dicts
        self.flags = flags
        self.sink = sink            # name of the list appended to / variable assigned
        self.next_name = next_name
        self.lookups: Dict[str, str] = {}   # variable -> dictionary name

    # -- expressions ---------------------------------------------------------------
    def is_char(self, n: ast.AST) -> bool:
        return isinstance(n, ast.Name) and n.id == self.char

    def is_cp(self, n: ast.AST) -> bool:
        if isinstance(n, ast.Name) and n.id in self.cp_names:
            return True
        return (isinstance(n, ast.Call) and isinstance(n.func, ast.Name) and n.func.id == "ord"
                and len(n.args) == 1 and not n.keywords and self.is_char(n.args[0]))

    def is_next(self, n: ast.AST) -> bool:
        return self.next_name is not None and isinstance(n, ast.Name) and n.id == self.next_name

    @staticmethod
    def const_char(n: ast.AST) -> Optional[int]:
        if isinstance(n, ast.Constant) and isinstance(n.value, str) and len(n.value) == 1:
            return ord(n.value)
        return None

    @staticmethod
    def const_int(n: ast.AST) -> Optional[int]:
        if isinstance(n, ast.Constant) and type(n.value) is int and n.value >= 0:
            return n.value
        return None

    def cond(self, test: ast.AST):
        """-> ("const", bool) | ("dnf", [conjunction, ...]) | ("hit", dict name)"""
        if isinstance(test, ast.Name) and test.id in self.flags:
            return ("const", self.flags[test.id])
        if isinstance(test, ast.UnaryOp) and isinstance(test.op, ast.Not):
            inner = self.cond(test.operand)
            if inner[0] != "const":
                raise TranslateError("`not` over a non-flag condition")
            return ("const", not inner[1])
        if isinstance(test, ast.BoolOp):
            parts = [self.cond(v) for v in test.values]
            if isinstance(test.op, ast.And):
                conj: List = []
                for p in parts:
                    if p[0] == "const":
                        if not p[1]:
                            return ("const", False)
                        continue
                    if p[0] != "dnf" or len(p[1]) != 1:
                        raise TranslateError("`and` over a disjunction / lookup")
                    conj += p[1][0]
                return ("dnf", [conj])
            disj: List = []
            for p in parts:
                if p[0] != "dnf":
                    raise TranslateError("`or` over a flag / lookup")
                disj += p[1]
            return ("dnf", disj)
        if isinstance(test, ast.Compare):
            # lookup result `x is not None`
            if (len(test.ops) == 1 and isinstance(test.ops[0], ast.IsNot)
                    and isinstance(test.comparators[0], ast.Constant)
                    and test.comparators[0].value is None and isinstance(test.left, ast.Name)):
                if test.left.id in self.lookups:
                    return ("hit", self.lookups[test.left.id])
                if self.is_next(test.left):
                    return ("dnf", [[("next_some",)]])
                raise TranslateError(f"`{test.left.id} is not None` on an unknown variable")
            # membership
            if len(test.ops) == 1 and isinstance(test.ops[0], ast.In) and self.is_char(test.left):
                comp = test.comparators[0]
                if isinstance(comp, ast.Name) and comp.id in self.dicts:
                    return ("hit", comp.id)
                if isinstance(comp, (ast.Tuple, ast.List, ast.Set)):
                    alts = []
                    for e in comp.elts:
                        v = self.const_char(e)
                        if v is None:
                            raise TranslateError("membership in a non-character container")
                        alts.append([("cp", "CEq", v)])
                    return ("dnf", alts)
                raise TranslateError("membership test of unknown shape")
            # comparison chain
            operands = [test.left] + list(test.comparators)
            conj = []
            for a, op, b in zip(operands, test.ops, operands[1:]):
                if type(op) not in CMP:
                    raise TranslateError(f"comparison operator {type(op).__name__}")
                o = CMP[type(op)]
                if self.is_char(a) and self.const_char(b) is not None and o in ("CEq", "CNe"):
                    conj.append(("cp", o, self.const_char(b)))
                elif self.is_char(b) and self.const_char(a) is not None and o in ("CEq", "CNe"):
                    conj.append(("cp", o, self.const_char(a)))
                elif self.is_cp(a) and self.const_int(b) is not None:
                    conj.append(("cp", o, self.const_int(b)))
                elif self.is_cp(b) and self.const_int(a) is not None:
                    conj.append(("cp", FLIP[o], self.const_int(a)))
                elif self.is_next(a) and self.const_char(b) is not None and o == "CEq":
                    conj.append(("next_eq", self.const_char(b)))
                else:
                    raise TranslateError("comparison of unknown operands: " + ast.dump(test)[:200])
            return ("dnf", [conj])
        raise TranslateError("condition of unknown shape: " + ast.dump(test)[:200])

    def template(self, e: ast.AST):
        """Output expression -> list of pieces, or ("lookup", dict)."""
        if isinstance(e, ast.Constant) and isinstance(e.value, str):
            return [("lit", e.value)]
        if self.is_char(e):
            return [("char",)]
        if isinstance(e, ast.Name) and e.id in self.lookups:
            return ("lookup", self.lookups[e.id])
        if isinstance(e, ast.JoinedStr):
            ps = []
            for v in e.values:
                if isinstance(v, ast.Constant) and isinstance(v.value, str):
                    ps.append(("lit", v.value))
                elif isinstance(v, ast.FormattedValue):
                    if v.conversion != -1:
                        raise TranslateError("conversion in an output f-string")
                    if v.format_spec is None:
                        if not self.is_char(v.value):
                            raise TranslateError("unformatted value other than the character")
                        ps.append(("char",))
                        continue
                    fs = v.format_spec
                    if not (isinstance(fs, ast.JoinedStr) and len(fs.values) == 1
                            and isinstance(fs.values[0], ast.Constant)):
                        raise TranslateError("dynamic format spec")
                    spec = fs.values[0].value
                    if not self.is_cp(v.value):
                        raise TranslateError("formatted value other than the code point")
                    if spec and spec[-1] in "xo" and (spec[:-1] == "" or (
                            spec[0] == "0" and spec[1:-1].isdigit())):
                        width = int(spec[1:-1]) if spec[:-1] else 0
                        ps.append(("num", 16 if spec[-1] == "x" else 8, width))
                    else:
                        raise TranslateError(f"format spec {spec!r}")
                else:
                    raise TranslateError("f-string part")
            return ps
        raise TranslateError("output expression of unknown shape: " + ast.dump(e)[:200])

    # -- statements ------------------------------------------------------------------
    def block(self, stmts: List[ast.stmt], path: List) -> List:
        """A block = bookkeeping assignments, then exactly one deciding statement."""
        rules: Optional[List] = None
        for st in stmts:
            if isinstance(st, ast.Expr) and isinstance(st.value, ast.Constant):
                continue  # docstring-like
            if rules is not None:
                # only the TypeScript loop advance may follow the decision
                if (isinstance(st, ast.Assign) and len(st.targets) == 1 and self.is_char(st.targets[0])
                        and self.is_next(st.value)):
                    continue
                raise TranslateError("statement after the deciding statement of a block")
            if isinstance(st, ast.Assign) and len(st.targets) == 1 and isinstance(st.targets[0], ast.Name):
                tgt = st.targets[0].id
                v = st.value
                if self.is_cp(v) and tgt != self.sink:
                    self.cp_names.add(tgt)
                    continue
                if (isinstance(v, ast.Call) and isinstance(v.func, ast.Name) and v.func.id == "next"
                        and tgt == self.next_name):
                    continue
                if (isinstance(v, ast.Call) and isinstance(v.func, ast.Attribute) and v.func.attr == "get"
                        and isinstance(v.func.value, ast.Name) and v.func.value.id in self.dicts
                        and len(v.args) == 2 and self.is_char(v.args[0])
                        and isinstance(v.args[1], ast.Constant) and v.args[1].value is None):
                    self.lookups[tgt] = v.func.value.id
                    continue
                if tgt == self.sink:
                    rules = [(path, self.emit(v, path))]
                    rules = self.expand(rules)
                    continue
                raise TranslateError(f"assignment to {tgt} of unknown shape")
            if isinstance(st, ast.AnnAssign) and st.value is None:
                continue
            if isinstance(st, ast.If):
                rules = self.if_(st, path)
                continue
            act = self.simple(st, path)
            rules = self.expand([(path, act)])
        if rules is None:
            raise TranslateError("block without a deciding statement")
        return rules

    def emit(self, e: ast.AST, path):
        t = self.template(e)
        if isinstance(t, tuple) and t[0] == "lookup":
            return ("lookup", t[1])
        return ("emit", t)

    def expand(self, rules):
        return rules

    def simple(self, st: ast.stmt, path):
        if (isinstance(st, ast.Expr) and isinstance(st.value, ast.Call)
                and isinstance(st.value.func, ast.Attribute) and st.value.func.attr == "append"
                and isinstance(st.value.func.value, ast.Name) and st.value.func.value.id == self.sink
                and len(st.value.args) == 1):
            return self.emit(st.value.args[0], path)
        if isinstance(st, ast.Raise) and isinstance(st.exc, ast.Call) and isinstance(st.exc.func, ast.Name):
            kind = {"ValueError": "RValueError", "AssertionError": "RAssertionError"}.get(st.exc.func.id)
            if kind is None:
                raise TranslateError(f"raise of {st.exc.func.id}")
            return ("raise", kind)
        if isinstance(st, ast.Return) and isinstance(st.value, ast.Constant) and st.value.value is True:
            return ("true",)
        if isinstance(st, (ast.Pass, ast.Continue)):
            return ("none",)
        raise TranslateError("statement of unknown shape: " + ast.dump(st)[:200])

    def if_(self, node: ast.If, path) -> List:
        c = self.cond(node.test)
        if c[0] == "const":
            if c[1]:
                return self.block(node.body, path)
            if not node.orelse:
                return [(path, ("none",))]
            return self.block(node.orelse, path)
        rules: List = []
        if c[0] == "hit":
            d = self.dicts[c[1]]
            body = self.block(node.body, path)
            # the body of a dictionary hit must be a single unconditional action
            if len(body) != 1 or body[0][0] != path:
                raise TranslateError("conditional code under a dictionary hit")
            act = body[0][1]
            for k, v in d.items():
                a = ("emit", [("lit", v)]) if act[0] == "lookup" else act
                rules.append((path + [("cp", "CEq", ord(k))], a))
        else:
            for conj in c[1]:
                sub = self.block(node.body, path + conj)
                rules += sub
        if node.orelse:
            rules += self.block(node.orelse, path)
        else:
            rules.append((path, ("none",)))
        return rules


def check_no_lookup(rules):
    for g, a in rules:
        if a[0] == "lookup":
            raise TranslateError("dictionary value used outside a dictionary hit")
    return rules


def for_loop_over(fn: ast.FunctionDef, iter_name: str) -> ast.For:
    loops = [n for n in fn.body if isinstance(n, ast.For)]
    if len(loops) != 1:
        raise TranslateError(f"{fn.name}: expected exactly one top-level for loop")
    lp = loops[0]
    if not (isinstance(lp.target, ast.Name) and isinstance(lp.iter, ast.Name) and lp.iter.id == iter_name):
        raise TranslateError(f"{fn.name}: loop is not `for <name> in {iter_name}`")
    if lp.orelse:
        raise TranslateError("for-else")
    return lp


def arg_names(fn: ast.FunctionDef) -> List[str]:
    a = fn.args
    if a.vararg or a.kwarg or a.kwonlyargs or a.posonlyargs:
        raise TranslateError(f"{fn.name}: unexpected parameter kinds")
    return [x.arg for x in a.args]


def wrap_of(fn: ast.FunctionDef, sink: str) -> Tuple[str, str]:
    """``return Stripped('L"{}"'.format("".join(<sink>)))`` -> (prefix, suffix)."""
    ret = fn.body[-1]
    if not (isinstance(ret, ast.Return) and isinstance(ret.value, ast.Call)
            and isinstance(ret.value.func, ast.Name) and ret.value.func.id == "Stripped"
            and len(ret.value.args) == 1):
        raise TranslateError(f"{fn.name}: last statement is not `return Stripped(...)`")
    e = ret.value.args[0]
    if isinstance(e, ast.Name) and e.id == sink:
        return ("", "")
    if (isinstance(e, ast.Call) and isinstance(e.func, ast.Attribute) and e.func.attr == "format"
            and isinstance(e.func.value, ast.Constant) and isinstance(e.func.value.value, str)
            and len(e.args) == 1 and not e.keywords):
        fmt = e.func.value.value
        j = e.args[0]
        if not (isinstance(j, ast.Call) and isinstance(j.func, ast.Attribute) and j.func.attr == "join"
                and isinstance(j.func.value, ast.Constant) and j.func.value.value == ""
                and len(j.args) == 1 and isinstance(j.args[0], ast.Name) and j.args[0].id == sink):
            raise TranslateError(f"{fn.name}: formatted value is not ''.join({sink})")
        if fmt.count("{}") != 1 or "{" in fmt.replace("{}", "") or "}" in fmt.replace("{}", ""):
            raise TranslateError(f"{fn.name}: format string {fmt!r}")
        pre, suf = fmt.split("{}")
        return (pre, suf)
    raise TranslateError(f"{fn.name}: return value of unknown shape")


def only_allowed_top(fn: ast.FunctionDef, loop: ast.stmt, sink: str) -> None:
    """Besides the loop the function body may contain: docstring, the initialisation
    of the sink with an empty list, and the final return."""
    for st in fn.body:
        if st is loop or st is fn.body[-1]:
            continue
        if isinstance(st, ast.Expr) and isinstance(st.value, ast.Constant):
            continue
        if (isinstance(st, ast.Assign) and len(st.targets) == 1 and isinstance(st.targets[0], ast.Name)
                and st.targets[0].id == sink and isinstance(st.value, ast.List) and not st.value.elts):
            continue
        raise TranslateError(f"{fn.name}: unexpected top-level statement " + ast.dump(st)[:120])


def sink_of(fn: ast.FunctionDef) -> str:
    """The accumulator is whatever the final ``return Stripped(...)`` joins / returns
    (so that renaming the local does not matter)."""
    ret = fn.body[-1]
    if not (isinstance(ret, ast.Return) and ret.value is not None):
        raise TranslateError(f"{fn.name}: last statement is not a return")
    names = [n.id for n in ast.walk(ret.value) if isinstance(n, ast.Name) and n.id != "Stripped"]
    if len(names) != 1:
        raise TranslateError(f"{fn.name}: cannot determine the accumulator from the return")
    return names[0]


def chain_function(tree, name: str, sink: str, dicts=None):
    """An escaper of the shape  sink=[]; for c in text: <chain>; return Stripped(fmt.format(...))."""
    fn = find_function(tree, name)
    sink = sink_of(fn)
    if arg_names(fn) != ["text"]:
        raise TranslateError(f"{name}: parameters {arg_names(fn)}")
    lp = for_loop_over(fn, "text")
    only_allowed_top(fn, lp, sink)
    fl = Flat(lp.target.id, dicts or {}, {}, sink)
    rules = check_no_lookup(fl.block(lp.body, []))
    return rules, wrap_of(fn, sink), fn


def needs_function(tree, name: str, dicts=None):
    fn = find_function(tree, name)
    lp = for_loop_over(fn, "text")
    fl = Flat(lp.target.id, dicts or {}, {}, None)
    rules = check_no_lookup(fl.block(lp.body, []))
    return rules, fn, lp


def require_all_chars(fn: ast.FunctionDef) -> List:
    """``@require(lambda text: all(ord(character) <= 127 for character in text), ...)``"""
    found = []
    for dec in fn.decorator_list:
        if not (isinstance(dec, ast.Call) and isinstance(dec.func, ast.Name)):
            raise TranslateError("decorator of unknown shape")
        if dec.func.id == "ensure":
            continue
        if dec.func.id != "require":
            raise TranslateError(f"decorator {dec.func.id}")
        lam = dec.args[0]
        if not (isinstance(lam, ast.Lambda) and [a.arg for a in lam.args.args] == ["text"]):
            raise TranslateError("require: not a lambda over text")
        b = lam.body
        if not (isinstance(b, ast.Call) and isinstance(b.func, ast.Name) and b.func.id == "all"
                and len(b.args) == 1 and isinstance(b.args[0], ast.GeneratorExp)):
            raise TranslateError("require: not all(...)")
        g = b.args[0]
        if not (len(g.generators) == 1 and not g.generators[0].ifs
                and isinstance(g.generators[0].target, ast.Name)
                and isinstance(g.generators[0].iter, ast.Name) and g.generators[0].iter.id == "text"):
            raise TranslateError("require: generator shape")
        fl = Flat(g.generators[0].target.id, {}, {}, None)
        c = fl.cond(g.elt)
        if c[0] != "dnf" or len(c[1]) != 1:
            raise TranslateError("require: condition shape")
        found.append(c[1][0])
    if len(found) > 1:
        raise TranslateError("more than one require")
    return found[0] if found else []


def require_len1(fn: ast.FunctionDef) -> bool:
    n = 0
    for dec in fn.decorator_list:
        if isinstance(dec, ast.Call) and isinstance(dec.func, ast.Name) and dec.func.id == "require":
            src = ast.unparse(dec.args[0])
            if src.replace(" ", "") != "lambdacharacter:len(character)==1":
                raise TranslateError("wchar_literal: require of unknown shape " + src)
            n += 1
        elif isinstance(dec, ast.Call) and isinstance(dec.func, ast.Name) and dec.func.id == "ensure":
            continue
        else:
            raise TranslateError("decorator of unknown shape")
    return n == 1


# --------------------------------------------------------------------------------------
# Per target
# --------------------------------------------------------------------------------------
def python_tables(out: List[str]) -> None:
    tree = parse("aas_core_codegen/python/common.py")
    dicts = module_dicts(tree)
    want = {
        "py_single": "_ESCAPING_IN_PYTHON_INCLUDING_SINGLE_QUOTES",
        "py_double": "_ESCAPING_IN_PYTHON_INCLUDING_DOUBLE_QUOTES",
        "py_single_curly": "_ESCAPING_IN_PYTHON_INCLUDING_SINGLE_QUOTES_AND_DUPLICATE_CURLY_BRACKETS",
        "py_double_curly": "_ESCAPING_IN_PYTHON_INCLUDING_DOUBLE_QUOTES_AND_DUPLICATE_CURLY_BRACKETS",
    }
    fn = find_function(tree, "string_literal")
    if arg_names(fn) != ["text", "quoting", "without_enclosing", "duplicate_curly_brackets"]:
        raise TranslateError(f"python string_literal parameters {arg_names(fn)}")
    # the escaping statement: either the generator form or a for loop
    loops = [n for n in fn.body if isinstance(n, ast.For)]
    joins = [n for n in fn.body if isinstance(n, ast.Assign) and isinstance(n.value, ast.Call)
             and isinstance(n.value.func, ast.Attribute) and n.value.func.attr == "join"
             and isinstance(n.value.args[0], ast.GeneratorExp)]
    for cname, dname in want.items():
        if dname not in dicts:
            raise TranslateError(f"dictionary {dname} not found")
        d = {"mapping": dicts[dname]}
        if len(loops) == 1 and not joins:
            lp = loops[0]
            if not (isinstance(lp.iter, ast.Name) and lp.iter.id == "text" and isinstance(lp.target, ast.Name)):
                raise TranslateError("python string_literal: loop shape")
            sinks = [n.targets[0].id for n in fn.body if isinstance(n, ast.Assign)
                     and isinstance(n.value, ast.List) and not n.value.elts]
            if len(sinks) != 1:
                raise TranslateError("python string_literal: sink list")
            fl = Flat(lp.target.id, d, {}, sinks[0])
            rules = check_no_lookup(fl.block(lp.body, []))
        elif len(joins) == 1 and not loops:
            g = joins[0].value.args[0]
            if not (len(g.generators) == 1 and not g.generators[0].ifs
                    and isinstance(g.generators[0].iter, ast.Name) and g.generators[0].iter.id == "text"
                    and isinstance(g.generators[0].target, ast.Name)):
                raise TranslateError("python string_literal: generator shape")
            ch = g.generators[0].target.id
            e = g.elt
            if not (isinstance(e, ast.Call) and isinstance(e.func, ast.Attribute) and e.func.attr == "get"
                    and isinstance(e.func.value, ast.Name) and e.func.value.id == "mapping"
                    and len(e.args) == 2 and all(isinstance(a, ast.Name) and a.id == ch for a in e.args)):
                raise TranslateError("python string_literal: generator element shape")
            rules = [([("cp", "CEq", ord(k))], ("emit", [("lit", v)])) for k, v in d["mapping"].items()]
            rules.append(([], ("emit", [("char",)])))
        else:
            raise TranslateError("python string_literal: escaping statement not found")
        out.append(c_table(cname, rules))
    rules, _fn, _lp = needs_function(tree, "needs_escaping")
    out.append(c_table("py_needs", rules))


def typescript_tables(out: List[str]) -> None:
    tree = parse("aas_core_codegen/typescript/common.py")
    dicts = module_dicts(tree)
    if "_BASE_ESCAPING_IN_TYPESCRIPT" not in dicts:
        raise TranslateError("_BASE_ESCAPING_IN_TYPESCRIPT not found")
    fn = find_function(tree, "string_literal")
    if arg_names(fn) != ["text", "without_enclosing", "in_backticks"]:
        raise TranslateError(f"typescript string_literal parameters {arg_names(fn)}")
    whiles = [n for n in ast.walk(fn) if isinstance(n, ast.While)]
    if len(whiles) != 1:
        raise TranslateError("typescript string_literal: expected one while loop")
    wl = whiles[0]
    if ast.unparse(wl.test).replace(" ", "") != "current_charisnotNone" or wl.orelse:
        raise TranslateError("typescript string_literal: loop condition")
    for flag, cname in ((False, "ts_quoted"), (True, "ts_template")):
        fl = Flat("current_char", dicts, {"in_backticks": flag}, "escaped_chars", next_name="next_char")
        rules = check_no_lookup(fl.block(wl.body, []))
        out.append(c_table(cname, rules))


def generate() -> str:
    out = [
        "From Coq Require Import List NArith.",
        "From Acg Require Import Base.Str Model.LitCore.",
        "Import ListNotations.",
        "Open Scope N_scope.",
    ]
    python_tables(out)
    typescript_tables(out)

    def wrap_def(name, w):
        out.append(f"Definition {name} : text * text := ({c_text(w[0])}, {c_text(w[1])}).")

    # C++
    tree = parse("aas_core_codegen/cpp/common.py")
    rules, w, fn = chain_function(tree, "wstring_literal", "escaped")
    if require_all_chars(fn):
        raise TranslateError("wstring_literal has a precondition")
    out.append(c_table("cpp_wstring", rules))
    wrap_def("cpp_wstring_wrap", w)
    rules, w, fn = chain_function(tree, "string_literal", "escaped")
    out.append(c_table("cpp_string", rules))
    wrap_def("cpp_string_wrap", w)
    pre = require_all_chars(fn)
    out.append(f"Definition cpp_string_pre : list atom := [{'; '.join(c_atom(a) for a in pre)}].")
    # wchar_literal: no loop, the chain is the function body
    fn = find_function(tree, "wchar_literal")
    if arg_names(fn) != ["character"]:
        raise TranslateError("wchar_literal parameters")
    fl = Flat("character", {}, {}, sink_of(fn))
    body = [st for st in fn.body[:-1]]
    rules = check_no_lookup(fl.block(body, []))
    out.append(c_table("cpp_wchar", rules))
    wrap_def("cpp_wchar_wrap", wrap_of(fn, sink_of(fn)))
    out.append(f"Definition cpp_wchar_requires_len1 : bool := {'true' if require_len1(fn) else 'false'}.")
    rules, _fn, _lp = needs_function(tree, "needs_escaping")
    out.append(c_table("cpp_needs", rules))

    for target, prefix in (("csharp", "cs"), ("java", "java"), ("golang", "go")):
        tree = parse(f"aas_core_codegen/{target}/common.py")
        rules, w, fn = chain_function(tree, "string_literal", "escaped")
        if require_all_chars(fn):
            raise TranslateError(f"{target} string_literal has a precondition")
        out.append(c_table(f"{prefix}_string", rules))
        wrap_def(f"{prefix}_string_wrap", w)
        rules, _fn, _lp = needs_function(tree, "needs_escaping")
        out.append(c_table(f"{prefix}_needs", rules))
    return "\n".join(out) + "\n"


GEN_FILES = {"GenLiteralTables": generate}
