"""xsd/main.py: the data-like parts of the pattern translation and of the facet emission.

* the two escaping tables of the XSD renderer ``_Renderer`` (dict literals);
* ``_PRIMITIVE_MAP`` (PrimitiveType member -> XSD type name);
* the regular expression literal of ``_ESCAPE_BACKSLASH_X_RE``;
* the symbol kinds that ``_AnchorRemover.visit_concatenation`` drops;
* the call skeleton of ``_translate_pattern`` (which helpers are called, in source order);
* the defaults of ``minOccurs`` / ``maxOccurs`` for lists and for optional properties.

Fails closed on any other shape."""
from __future__ import annotations

import ast
from typing import List

from harness.translate.astutil import TranslateError, coq_text, find_function, parse


def _class(tree: ast.AST, name: str) -> ast.ClassDef:
    found = [n for n in ast.walk(tree) if isinstance(n, ast.ClassDef) and n.name == name]
    if len(found) != 1:
        raise TranslateError(f"expected exactly one class {name}, found {len(found)}")
    return found[0]


def _dict_of_chars(node: ast.AST, what: str) -> List[tuple]:
    if not isinstance(node, ast.Dict):
        raise TranslateError(f"{what}: not a dict literal")
    out = []
    for k, v in zip(node.keys, node.values):
        if not (isinstance(k, ast.Constant) and isinstance(k.value, str) and len(k.value) == 1):
            raise TranslateError(f"{what}: key is not a one-character string constant")
        if not (isinstance(v, ast.Constant) and isinstance(v.value, str)):
            raise TranslateError(f"{what}: value is not a string constant")
        out.append((ord(k.value), v.value))
    return out


def _class_assign(cls: ast.ClassDef, name: str) -> ast.AST:
    for st in cls.body:
        if isinstance(st, ast.Assign) and len(st.targets) == 1 and isinstance(st.targets[0], ast.Name) \
                and st.targets[0].id == name:
            return st.value
    raise TranslateError(f"{cls.name}.{name} not found")


def _module_assign(tree: ast.Module, name: str) -> ast.AST:
    for st in tree.body:
        if isinstance(st, ast.Assign) and len(st.targets) == 1 and isinstance(st.targets[0], ast.Name) \
                and st.targets[0].id == name:
            return st.value
    raise TranslateError(f"module-level {name} not found")


def _dotted(node: ast.AST) -> str:
    if isinstance(node, ast.Name):
        return node.id
    if isinstance(node, ast.Attribute):
        return _dotted(node.value) + "." + node.attr
    if isinstance(node, ast.Call):
        return _dotted(node.func) + "()"
    raise TranslateError(f"unexpected callee {ast.dump(node)[:80]}")


def _table(entries) -> str:
    return "[" + ";\n   ".join(f"({k}, {coq_text(v)})" for k, v in entries) + "]"


def gen_xsd() -> str:
    tree = parse("aas_core_codegen/xsd/main.py")
    out = ["From Coq Require Import List NArith.", "Import ListNotations.", "Open Scope N_scope."]

    rend = _class(tree, "_Renderer")
    lit = _dict_of_chars(_class_assign(rend, "_ESCAPING_IN_XSD_CHARACTER_LITERALS"), "literals")
    rng = _dict_of_chars(_class_assign(rend, "_ESCAPING_IN_XSD_RANGE"), "range")
    out.append("(* xsd/main.py:_Renderer escaping tables: code point -> rendered text *)")
    out.append(f"Definition xsd_esc_lit : list (N * list N) :=\n  {_table(lit)}.")
    out.append(f"Definition xsd_esc_rng : list (N * list N) :=\n  {_table(rng)}.")
    # the override must select by the identity of the table that the base class passes
    fn = find_function(rend, "char_to_str_and_escape_or_encode_if_necessary")
    names = sorted({n.attr for n in ast.walk(fn) if isinstance(n, ast.Attribute)
                    and n.attr.startswith("_ESCAPING")})
    if names != ["_ESCAPING_IN_RANGE", "_ESCAPING_IN_XSD_CHARACTER_LITERALS", "_ESCAPING_IN_XSD_RANGE"]:
        raise TranslateError(f"_Renderer override refers to {names}")
    if any(isinstance(n, ast.Attribute) and n.attr == "explicitly_encoded" for n in ast.walk(fn)):
        raise TranslateError("_Renderer override looks at explicitly_encoded")

    pm = _module_assign(tree, "_PRIMITIVE_MAP")
    if not isinstance(pm, ast.Dict):
        raise TranslateError("_PRIMITIVE_MAP is not a dict literal")
    entries = []
    for k, v in zip(pm.keys, pm.values):
        if not (isinstance(k, ast.Attribute) and isinstance(v, ast.Constant) and isinstance(v.value, str)):
            raise TranslateError("_PRIMITIVE_MAP entry shape")
        entries.append((k.attr, v.value))
    out.append("(* _PRIMITIVE_MAP: PrimitiveType member name -> XSD built-in type *)")
    out.append("Definition xsd_primitive_map : list (list N * list N) :=\n  ["
               + ";\n   ".join(f"({coq_text(k)}, {coq_text(v)})" for k, v in entries) + "].")

    rx = _module_assign(tree, "_ESCAPE_BACKSLASH_X_RE")
    if not (isinstance(rx, ast.Call) and _dotted(rx.func) == "re.compile" and len(rx.args) == 1
            and isinstance(rx.args[0], ast.Constant) and isinstance(rx.args[0].value, str)):
        raise TranslateError("_ESCAPE_BACKSLASH_X_RE shape")
    out.append("(* the regular expression of _undo_escaping_backslash_x_in_pattern *)")
    out.append(f"Definition xsd_escape_x_re : list N := {coq_text(rx.args[0].value)}.")

    remover = find_function(_class(tree, "_AnchorRemover"), "visit_concatenation")
    kinds = []
    for n in ast.walk(remover):
        if isinstance(n, ast.Compare) and len(n.ops) == 1 and isinstance(n.ops[0], ast.In):
            comp = n.comparators[0]
            if not isinstance(comp, (ast.Tuple, ast.List)):
                raise TranslateError("anchor kinds: not a tuple")
            for e in comp.elts:
                if not (isinstance(e, ast.Attribute) and _dotted(e.value).endswith("SymbolKind")):
                    raise TranslateError("anchor kinds: element shape")
                kinds.append(e.attr)
    if not kinds:
        raise TranslateError("anchor kinds not found")
    out.append("(* symbol kinds dropped by _AnchorRemover.visit_concatenation *)")
    out.append("Definition xsd_removed_symbol_kinds : list (list N) := ["
               + "; ".join(coq_text(k) for k in kinds) + "].")

    tp = find_function(tree, "_translate_pattern")
    calls = []
    for n in (x for st in tp.body for x in ast.walk(st)):
        if isinstance(n, ast.Call):
            try:
                d = _dotted(n.func)
            except TranslateError:
                continue
            if d in ("isinstance", "parts.append") or d.endswith(".join"):
                continue
            kw = sorted(k.arg + "=" + (_dotted(k.value) if isinstance(k.value, (ast.Name, ast.Attribute)) else "?")
                        for k in n.keywords if k.arg)
            calls.append((n.lineno, n.col_offset, d + ("(" + ",".join(kw) + ")" if kw else "")))
    calls = [c for _, _, c in sorted(calls)]
    out.append("(* helpers called by _translate_pattern, in source order *)")
    out.append("Definition xsd_translate_calls : list (list N) := ["
               + ";\n   ".join(coq_text(c) for c in calls) + "].")

    # occurrence defaults of lists
    v2t = find_function(tree, "_value_to_type_element_or_type_identifier")
    defaults = {}
    for n in ast.walk(v2t):
        if isinstance(n, ast.Assign) and len(n.targets) == 1 and isinstance(n.targets[0], ast.Name) \
                and n.targets[0].id in ("min_occurs", "max_occurs") \
                and isinstance(n.value, ast.Constant) and isinstance(n.value.value, str):
            defaults[n.targets[0].id] = n.value.value
    if set(defaults) != {"min_occurs", "max_occurs"}:
        raise TranslateError(f"list occurrence defaults: {defaults}")
    out.append("(* defaults of minOccurs / maxOccurs of the items of a list *)")
    out.append(f"Definition xsd_list_min_default : list N := {coq_text(defaults['min_occurs'])}.")
    out.append(f"Definition xsd_list_max_default : list N := {coq_text(defaults['max_occurs'])}.")
    return "\n".join(out) + "\n"


GEN_FILES = {"GenXsd": gen_xsd}
