"""specific_implementations: the key regex string and the constants of
read_from_directory (glob pattern, hidden prefix, encoding); the whitespace table of
the interpreter that runs the code (str.isspace, str.splitlines boundaries)."""
from __future__ import annotations

import ast
import json
import subprocess

from harness import lib
from harness.translate.astutil import TranslateError, coq_text, find_function, parse

REL = "aas_core_codegen/specific_implementations.py"


def _const_str(node, what):
    if not (isinstance(node, ast.Constant) and isinstance(node.value, str)):
        raise TranslateError(f"{what} is not a string constant")
    return node.value


def gen_snippets() -> str:
    tree = parse(REL)
    pattern = None
    for node in tree.body:
        if (isinstance(node, ast.Assign) and len(node.targets) == 1
                and isinstance(node.targets[0], ast.Name)
                and node.targets[0].id == "IMPLEMENTATION_KEY_RE"):
            call = node.value
            if not (isinstance(call, ast.Call) and isinstance(call.func, ast.Attribute)
                    and isinstance(call.func.value, ast.Name) and call.func.value.id == "re"
                    and call.func.attr == "compile" and len(call.args) == 1 and not call.keywords):
                raise TranslateError("IMPLEMENTATION_KEY_RE is not re.compile(<one constant>) without flags")
            pattern = _const_str(call.args[0], "IMPLEMENTATION_KEY_RE pattern")
    if pattern is None:
        raise TranslateError("IMPLEMENTATION_KEY_RE not found")

    fn = find_function(tree, "read_from_directory")
    globs, startswiths, encodings, matchers = [], [], [], []
    for node in ast.walk(fn):
        if isinstance(node, ast.Call) and isinstance(node.func, ast.Attribute):
            attr = node.func.attr
            if attr in ("glob", "rglob"):
                if attr != "glob" or len(node.args) != 1:
                    raise TranslateError("unexpected glob call")
                globs.append(_const_str(node.args[0], "glob pattern"))
            elif attr == "startswith":
                if len(node.args) != 1:
                    raise TranslateError("unexpected startswith call")
                startswiths.append(_const_str(node.args[0], "startswith prefix"))
            elif attr == "read_text":
                kw = {k.arg: k.value for k in node.keywords}
                if node.args or set(kw) != {"encoding"}:
                    raise TranslateError("read_text is not called with exactly encoding=...")
                encodings.append(_const_str(kw["encoding"], "encoding"))
            elif attr in ("fullmatch", "match", "search"):
                if not (isinstance(node.func.value, ast.Name)
                        and node.func.value.id == "IMPLEMENTATION_KEY_RE"):
                    raise TranslateError("regex test on something else than IMPLEMENTATION_KEY_RE")
                matchers.append(attr)
    if len(globs) != 1 or len(encodings) != 1 or len(matchers) != 1 or not startswiths:
        raise TranslateError(f"shape of read_from_directory changed: globs={globs} "
                             f"encodings={encodings} matchers={matchers} startswith={startswiths}")
    out = [
        "From Coq Require Import List NArith ZArith.",
        "Import ListNotations.",
        f"Definition implementation_key_pattern : list N := {coq_text(pattern)}.",
        f"Definition key_match_method : list N := {coq_text(matchers[0])}.",
        f"Definition glob_pattern : list N := {coq_text(globs[0])}.",
        "Definition hidden_prefixes : list (list N) := ["
        + "; ".join(coq_text(s) for s in startswiths) + "].",
        f"Definition read_encoding : list N := {coq_text(encodings[0])}.",
    ]
    return "\n".join(out) + "\n"


def gen_whitespace() -> str:
    code = ("import json, sys; "
            "ws=[c for c in range(sys.maxunicode+1) if chr(c).isspace()]; "
            "lb=[c for c in range(sys.maxunicode+1) if len(('a'+chr(c)+'b').splitlines())==2]; "
            "print(json.dumps({'ws': ws, 'lb': lb}))")
    p = subprocess.run([lib.PY, "-c", code], stdout=subprocess.PIPE, stderr=subprocess.PIPE,
                       text=True, timeout=300)
    if p.returncode != 0:
        raise TranslateError("cannot query the interpreter: " + p.stderr[-500:])
    data = json.loads(p.stdout)
    out = [
        "From Coq Require Import List NArith.",
        "Import ListNotations.",
        "Open Scope N_scope.",
        "(* code points c with chr(c).isspace() in the interpreter that runs the code *)",
        "Definition py_whitespace : list N := [" + "; ".join(str(c) for c in data["ws"]) + "].",
        "(* code points at which str.splitlines() breaks a line *)",
        "Definition py_line_boundaries : list N := [" + "; ".join(str(c) for c in data["lb"]) + "].",
    ]
    return "\n".join(out) + "\n"


GEN_FILES = {"GenSnippets": gen_snippets, "GenPyWhitespace": gen_whitespace}
