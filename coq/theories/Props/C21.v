(** C21 — Distinct meta-model names never collide in generated code.

    Theorems over the models [Model/Naming.v] (case conversions of naming.py and every
    target's naming.py) and [Model/Collisions.v] (every SDK target's [verify] with its
    inter- and intra-structure collision checks, jsonschema [Definitions.update_for],
    xsd [observed_definitions]). Only statements, [exact]s and [Print Assumptions].

    FULL STATEMENT of the property, per target t:

      forall mm, verify_t mm = Ok -> forall scope, NoDup (generated_names_t mm scope)

    with scope ranging over: the type-level declarations, the literals of one enumeration,
    the members of one class, the constants, the verification functions. The full
    statement is FALSE of the faithful model (and of the code) for the scopes that no
    [verify] looks at: see the [_refuted] theorems below (constants and verification
    functions in all six targets, enumeration literals in C# and Java, Java accessors).
    What is proved ([_partial]) is the statement restricted to [scope_checked t scope],
    i.e. to the scopes the target's [verify] enumerates; there it holds for ALL
    meta-models, and it is stated with the stronger conclusion that the naming functions
    did not raise on that scope. *)
From Coq Require Import List NArith Bool.
From Coq Require Strings.String.
Import Coq.Strings.String.StringSyntax.
From Acg Require Import Base.Outcome Base.Str Model.Naming Model.Collisions
  Proofs.NamingFacts Proofs.CollisionsFacts.
Import ListNotations.

Definition verify_cpp := verify Cpp.
Definition verify_csharp := verify Csharp.
Definition verify_golang := verify Golang.
Definition verify_java := verify Java.
Definition verify_python := verify Python.
Definition verify_typescript := verify Typescript.
Definition generated_names_cpp := generated_names Cpp.
Definition generated_names_csharp := generated_names Csharp.
Definition generated_names_golang := generated_names Golang.
Definition generated_names_java := generated_names Java.
Definition generated_names_python := generated_names Python.
Definition generated_names_typescript := generated_names Typescript.

(** ** Per target: a passing verify makes every checked scope duplicate-free. *)
Theorem C21_verify_ok_injective_cpp_partial : forall mm,
  verify_cpp mm = Ok tt -> forall scope, scope_checked Cpp scope = true ->
  exists names, generated_names_cpp mm scope = Ok names /\ NoDup names.
Proof. exact (verify_ok_injective Cpp). Qed.
Print Assumptions C21_verify_ok_injective_cpp_partial.

Theorem C21_verify_ok_injective_csharp_partial : forall mm,
  verify_csharp mm = Ok tt -> forall scope, scope_checked Csharp scope = true ->
  exists names, generated_names_csharp mm scope = Ok names /\ NoDup names.
Proof. exact (verify_ok_injective Csharp). Qed.
Print Assumptions C21_verify_ok_injective_csharp_partial.

Theorem C21_verify_ok_injective_golang_partial : forall mm,
  verify_golang mm = Ok tt -> forall scope, scope_checked Golang scope = true ->
  exists names, generated_names_golang mm scope = Ok names /\ NoDup names.
Proof. exact (verify_ok_injective Golang). Qed.
Print Assumptions C21_verify_ok_injective_golang_partial.

Theorem C21_verify_ok_injective_java_partial : forall mm,
  verify_java mm = Ok tt -> forall scope, scope_checked Java scope = true ->
  exists names, generated_names_java mm scope = Ok names /\ NoDup names.
Proof. exact (verify_ok_injective Java). Qed.
Print Assumptions C21_verify_ok_injective_java_partial.

Theorem C21_verify_ok_injective_python_partial : forall mm,
  verify_python mm = Ok tt -> forall scope, scope_checked Python scope = true ->
  exists names, generated_names_python mm scope = Ok names /\ NoDup names.
Proof. exact (verify_ok_injective Python). Qed.
Print Assumptions C21_verify_ok_injective_python_partial.

Theorem C21_verify_ok_injective_typescript_partial : forall mm,
  verify_typescript mm = Ok tt -> forall scope, scope_checked Typescript scope = true ->
  exists names, generated_names_typescript mm scope = Ok names /\ NoDup names.
Proof. exact (verify_ok_injective Typescript). Qed.
Print Assumptions C21_verify_ok_injective_typescript_partial.

(** Second sentence of the property ("if name conversion would make them equal, that
    target reports a collision error instead of generating code"), for the checked
    scopes of every target. *)
Theorem C21_collision_is_reported_partial : forall t mm scope names,
  scope_checked t scope = true -> generated_names t mm scope = Ok names -> ~ NoDup names ->
  verify t mm <> Ok tt.
Proof. exact collision_is_reported. Qed.
Print Assumptions C21_collision_is_reported_partial.

(** The checks raise no false alarm: the observed-dictionary loop appends an error only
    for a repeated name. *)
Theorem C21_observe_exact : forall names, observe names = 0%nat <-> NoDup names.
Proof. intros names. split; [apply observe_zero_NoDup|apply NoDup_observe_zero]. Qed.
Print Assumptions C21_observe_exact.

(** ** The naming functions stay inside the identifier regex (hence ASCII). *)
Theorem C21_naming_ascii_closed : forall key f i r,
  In (key, f) naming_table -> f i = Ok r ->
  is_identifier r = true /\ Forall (fun c => (c < 128)%N) r.
Proof.
  intros key f i r Hin H.
  pose proof (naming_ascii_closed_all key f i r Hin H) as Hid.
  exact (conj Hid (identifier_ascii r Hid)).
Qed.
Print Assumptions C21_naming_ascii_closed.

(** ** Non-vacuity. The conversions are not injective ... *)
Example C21_naming_not_injective :
  lower_snake_case (s2l "foo_bar") = lower_snake_case (s2l "foo_Bar")
  /\ capitalized_camel_case (s2l "a_b") = capitalized_camel_case (s2l "A__B")
  /\ lower_camel_case (s2l "a_b") = lower_camel_case (s2l "a__b")
  /\ upper_snake_case (s2l "a_1") <> upper_snake_case (s2l "a1")
  /\ go_capital_camel_case (s2l "set_x") = go_setter_name (s2l "x")
  /\ cpp_setter_name (s2l "x") = cpp_getter_name (s2l "set_x")
  /\ py_class_name (s2l "Foo_bar") = py_class_name (s2l "Foo_Bar")
  /\ go_enum_literal_name (s2l "E") (s2l "A") = go_struct_name (s2l "E_A")
  /\ capitalized_camel_case (s2l "_") = Crash Violation
  /\ py_class_name (s2l "foo") = Crash Violation.
Proof. vm_compute. repeat split; try reflexivity. discriminate. Qed.
Print Assumptions C21_naming_not_injective.

(** ... a meta-model with near-collisions passes every target's verify ... *)
Definition mm_accepted : mm :=
  Build_mm [ OEnum (Build_enum_t (s2l "Kind") [s2l "A_b"; s2l "A_c"]);
             OCons (s2l "Non_empty");
             OClass (Build_class_t (s2l "Foo_bar") true [s2l "foo_bar"] []);
             OClass (Build_class_t (s2l "Foo_baz") false [s2l "foo_bar"; s2l "foo_baz"] [s2l "do_it"]) ]
           [s2l "Some_constant"] [s2l "is_valid"].
Example C21_nonvacuous_accepted :
  map (fun t => verify t mm_accepted) [Cpp; Csharp; Golang; Java; Python; Typescript]
  = [Ok tt; Ok tt; Ok tt; Ok tt; Ok tt; Ok tt]
  /\ generated_names_cpp mm_accepted (SMembers 3)
     = Ok [s2l "foo_bar"; s2l "mutable_foo_bar"; s2l "set_foo_bar"; s2l "foo_bar_";
           s2l "foo_baz"; s2l "mutable_foo_baz"; s2l "set_foo_baz"; s2l "foo_baz_"; s2l "DoIt"]
  /\ generated_names_golang mm_accepted SModule
     = Ok [s2l "Kind"; s2l "IFooBar"; s2l "IFooBaz"; s2l "FooBaz"; s2l "KindAB"; s2l "KindAC"].
Proof. vm_compute. repeat split; reflexivity. Qed.
Print Assumptions C21_nonvacuous_accepted.

(** ... and colliding members / literals / types are reported by the targets concerned
    (members: all six; [x]/[set_x]: cpp and golang only; literal vs struct: golang only;
    a lower-case class name crashes python and typescript). *)
Example C21_nonvacuous_rejected :
  let all t m := map (fun t => verify t m) [Cpp; Csharp; Golang; Java; Python; Typescript] in
  all tt (Build_mm [OClass (Build_class_t (s2l "Foo") false [s2l "foo_bar"; s2l "foo_Bar"] [])] [] [])
  = [Err 1; Err 1; Err 1; Err 1; Err 1; Err 1]%nat
  /\ all tt (Build_mm [OClass (Build_class_t (s2l "Foo") false [s2l "x"; s2l "set_x"] [])] [] [])
  = [Err 1; Ok tt; Err 1; Ok tt; Ok tt; Ok tt]%nat
  /\ all tt (Build_mm [OEnum (Build_enum_t (s2l "E") [s2l "A"]);
                       OClass (Build_class_t (s2l "E_A") false [] [])] [] [])
  = [Ok tt; Ok tt; Err 1; Ok tt; Ok tt; Ok tt]%nat
  /\ all tt (Build_mm [OClass (Build_class_t (s2l "Foo_bar") false [] []);
                       OClass (Build_class_t (s2l "Foo_Bar") false [] [])] [] [])
  = [Err 2; Err 2; Err 2; Err 2; Err 1; Err 1]%nat
  /\ all tt (Build_mm [OClass (Build_class_t (s2l "foo") false [] [])] [] [])
  = [Ok tt; Ok tt; Ok tt; Ok tt; Crash Violation; Crash Violation].
Proof. vm_compute. repeat split; reflexivity. Qed.
Print Assumptions C21_nonvacuous_rejected.

(** ** Refutations of the full statement (scopes no verify looks at). Each witness is
    replayed against the real code by the oracle of harness/props/c21.py. *)
Definition mm_consts_funcs : mm :=
  Build_mm [OClass (Build_class_t (s2l "Foo") false [] [])]
           [s2l "A_b"; s2l "A_B"] [s2l "f_a"; s2l "f_A"].

Theorem C21_verify_ok_injective_constants_refuted : forall t,
  exists names, verify t mm_consts_funcs = Ok tt
                /\ generated_names t mm_consts_funcs SConstants = Ok names /\ ~ NoDup names.
Proof.
  intros t; destruct t; eexists;
    (split; [vm_compute; reflexivity|split; [vm_compute; reflexivity|apply dup_head_not_NoDup]]).
Qed.
Print Assumptions C21_verify_ok_injective_constants_refuted.

Theorem C21_verify_ok_injective_functions_refuted : forall t,
  exists names, verify t mm_consts_funcs = Ok tt
                /\ generated_names t mm_consts_funcs SFunctions = Ok names /\ ~ NoDup names.
Proof.
  intros t; destruct t; eexists;
    (split; [vm_compute; reflexivity|split; [vm_compute; reflexivity|apply dup_head_not_NoDup]]).
Qed.
Print Assumptions C21_verify_ok_injective_functions_refuted.

Definition mm_literals : mm :=
  Build_mm [OEnum (Build_enum_t (s2l "E") [s2l "A_b"; s2l "a_b"]);
            OClass (Build_class_t (s2l "Foo") false [] [])] [] [].

Theorem C21_verify_ok_injective_literals_csharp_java_refuted :
  (exists names, verify_csharp mm_literals = Ok tt
                 /\ generated_names_csharp mm_literals (SLiterals 0) = Ok names /\ ~ NoDup names)
  /\ (exists names, verify_java mm_literals = Ok tt
                 /\ generated_names_java mm_literals (SLiterals 0) = Ok names /\ ~ NoDup names).
Proof.
  split; eexists;
    (split; [vm_compute; reflexivity|split; [vm_compute; reflexivity|apply dup_head_not_NoDup]]).
Qed.
Print Assumptions C21_verify_ok_injective_literals_csharp_java_refuted.

(** Java: the accessors [getX]/[setX] generated for the properties share the method
    namespace of the class with the meta-model methods; verify compares only the field
    names ([lowerCamel]) with the method names. *)
Theorem C21_java_accessors_refuted :
  let c1 := Build_class_t (s2l "Foo") false [s2l "_a"; s2l "a"] [] in
  let c2 := Build_class_t (s2l "Foo") false [s2l "x"] [s2l "get_x"] in
  verify_java (Build_mm [OClass c1] [] []) = Ok tt
  /\ java_accessor_names c1 = Ok [s2l "getA"; s2l "setA"; s2l "getA"; s2l "setA"]
  /\ verify_java (Build_mm [OClass c2] [] []) = Ok tt
  /\ java_accessor_names c2 = Ok [s2l "getX"; s2l "setX"; s2l "getX"].
Proof. vm_compute. repeat split; reflexivity. Qed.
Print Assumptions C21_java_accessors_refuted.

(** ** Schema generators: a successful run has pairwise distinct definitions. *)
Theorem C21_jsonschema_definitions_distinct : forall extensions defs,
  update_all [] extensions = Ok defs ->
  NoDup (concat extensions) /\ length defs = length (concat extensions).
Proof. exact jsonschema_definitions_distinct. Qed.
Print Assumptions C21_jsonschema_definitions_distinct.

Theorem C21_xsd_definitions_distinct : forall elements,
  xsd_observed_definitions elements = Ok tt -> NoDup (named elements).
Proof. exact xsd_definitions_distinct. Qed.
Print Assumptions C21_xsd_definitions_distinct.

Example C21_schema_nonvacuous :
  is_ok (update_all [] [[s2l "Foo"; s2l "Foo_abstract"]; [s2l "Bar"]]) = true
  /\ update_all [] [[s2l "FooBar"]; [s2l "FooBar"]] = Err 1%nat
  /\ xsd_observed_definitions [(s2l "xs:complexType", Some (s2l "fooBar_t"));
                               (s2l "xs:group", Some (s2l "fooBar_t"));
                               (s2l "xs:element", None)] = Ok tt
  /\ xsd_observed_definitions [(s2l "xs:complexType", Some (s2l "fooBar_t"));
                               (s2l "xs:complexType", Some (s2l "fooBar_t"))] = Err 1%nat.
Proof. vm_compute. repeat split; reflexivity. Qed.
Print Assumptions C21_schema_nonvacuous.
