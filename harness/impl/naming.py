"""Adapter for C21: run the naming functions, the target ``verify_for_types`` and the
type generators of the tree under test. JSON stdin -> stdout.

Modes (``payload["mode"]``):

``inventory``  list the public one-argument functions of every naming module;
``names``      ``keys`` x ``idents`` -> for every identifier the list of outcomes
               (``{"ok": str}`` / ``{"exc": type}``) in the order of ``keys``;
``verify``     ``sources``: list of meta-model texts. For each: the front-end verdict,
               the abstract meta-model as the symbol table presents it, for every
               target the verdict of ``verify_for_types`` and the names the real naming
               functions give to the entities of every scope, and (optionally, key
               ``generate``) the declarations found in the generated Python/TypeScript...
               types module;
``schemas``    ``sources`` -> jsonschema / xsd generation verdict and definition keys.
"""
import ast
import importlib
import inspect
import io
import json
import re
import sys
import traceback

from aas_core_codegen import parse, intermediate, specific_implementations
from aas_core_codegen.common import Identifier, Error, LinenoColumner

NAMING_MODULES = {
    "naming": "aas_core_codegen.naming",
    "cpp": "aas_core_codegen.cpp.naming",
    "csharp": "aas_core_codegen.csharp.naming",
    "golang": "aas_core_codegen.golang.naming",
    "java": "aas_core_codegen.java.naming",
    "python": "aas_core_codegen.python.naming",
    "typescript": "aas_core_codegen.typescript.naming",
    "xsd": "aas_core_codegen.xsd.naming",
}
TARGETS = ["cpp", "csharp", "golang", "java", "python", "typescript"]


def inventory():
    out = {}
    for short, modname in NAMING_MODULES.items():
        mod = importlib.import_module(modname)
        for name, fn in sorted(vars(mod).items()):
            if not inspect.isfunction(fn) or fn.__module__ != modname:
                continue
            try:
                params = list(inspect.signature(fn).parameters)
            except (TypeError, ValueError):
                params = ["?"]
            out[f"{short}.{name}"] = params
    return out


def outcome(fn, *args):
    try:
        return {"ok": str(fn(*args))}
    except BaseException as e:  # noqa
        return {"exc": type(e).__name__}


def names(keys, idents):
    fns = []
    for key in keys:
        short, name = key.split(".", 1)
        fns.append(getattr(importlib.import_module(NAMING_MODULES[short]), name))
    return [[outcome(fn, ident) for fn in fns] for ident in idents]


def load(text):
    try:
        atok, exc = parse.source_to_atok(source=text)
        if exc is not None:
            return None, {"stage": "syntax", "msg": str(exc)[:300]}
        lc = LinenoColumner(atok=atok)
        import_errors = parse.check_expected_imports(atok=atok)
        if import_errors:
            return None, {"stage": "imports", "msg": str(import_errors)[:300]}
        pst, err = parse.atok_to_symbol_table(atok=atok)
        if err is not None:
            return None, {"stage": "parse", "msg": lc.error_message(err)[:600]}
        st, err = intermediate.translate(parsed_symbol_table=pst, atok=atok)
        if err is not None:
            return None, {"stage": "intermediate", "msg": lc.error_message(err)[:600]}
        return st, None
    except BaseException as e:  # noqa
        return None, {"stage": "crash", "msg": type(e).__name__ + ": " + str(e)[:300]}


def abstract(st):
    types = []
    for t in st.our_types:
        if isinstance(t, intermediate.Enumeration):
            types.append({"kind": "enum", "name": t.name, "lits": [l.name for l in t.literals]})
        elif isinstance(t, intermediate.ConstrainedPrimitive):
            types.append({"kind": "cons", "name": t.name})
        else:
            types.append({"kind": "class", "name": t.name,
                          "abstract": isinstance(t, intermediate.AbstractClass),
                          "props": [p.name for p in t.properties],
                          "methods": [m.name for m in t.methods]})
    return {"types": types, "consts": [c.name for c in st.constants],
            "funcs": [f.name for f in st.verification_functions]}


def count_underlying(errs):
    n = 0
    for e in errs:
        n += 1
    return n


def real_scope_names(target, st):
    """The names the target's real naming functions give to the entities of every
    scope (what the generator writes as declarations)."""
    nm = importlib.import_module(NAMING_MODULES[target])
    scopes = {}

    def put(scope, entity, fn, *args):
        scopes.setdefault(scope, []).append([entity, outcome(fn, *args)])

    # module scope: in the iteration order of the target's inter-structure loop
    if target in ("cpp", "golang", "python"):
        order = list(st.enumerations) + list(st.classes)
    else:
        order = [t for t in st.our_types
                 if not isinstance(t, intermediate.ConstrainedPrimitive)]
    scopes["module"] = []
    for t in order:
        if isinstance(t, intermediate.Enumeration):
            put("module", f"enum {t.name}", nm.enum_name, t.name)
        elif target in ("cpp", "csharp", "golang", "java"):
            put("module", f"interface of {t.name}", nm.interface_name, t.name)
            if isinstance(t, intermediate.ConcreteClass):
                put("module", f"class {t.name}",
                    nm.struct_name if target == "golang" else nm.class_name, t.name)
        else:
            put("module", f"class {t.name}", nm.class_name, t.name)
    if target == "golang":
        for t in st.enumerations:
            for l in t.literals:
                put("module", f"literal {t.name}.{l.name}", nm.enum_literal_name, t.name, l.name)

    for i, t in enumerate(st.our_types):
        if isinstance(t, intermediate.Enumeration):
            scopes.setdefault(f"literals:{i}", [])
            for l in t.literals:
                if target == "golang":
                    put(f"literals:{i}", f"literal {l.name}", nm.enum_literal_name, t.name, l.name)
                else:
                    put(f"literals:{i}", f"literal {l.name}", nm.enum_literal_name, l.name)
        elif isinstance(t, intermediate.ConstrainedPrimitive):
            pass
        else:
            sc = f"members:{i}"
            scopes.setdefault(sc, [])
            for p in t.properties:
                if target == "cpp":
                    for fn in (nm.getter_name, nm.mutable_getter_name, nm.setter_name,
                               nm.private_property_name):
                        put(sc, f"property {p.name}", fn, p.name)
                elif target == "golang":
                    for fn in (nm.getter_name, nm.setter_name):
                        put(sc, f"property {p.name}", fn, p.name)
                else:
                    put(sc, f"property {p.name}", nm.property_name, p.name)
                if target == "java":
                    put(f"accessors:{i}", f"property {p.name}", nm.getter_name, p.name)
                    put(f"accessors:{i}", f"property {p.name}", nm.setter_name, p.name)
            for m in t.methods:
                put(sc, f"method {m.name}", nm.method_name, m.name)
                if target == "java":
                    put(f"accessors:{i}", f"method {m.name}", nm.method_name, m.name)
    scopes.setdefault("constants", [])
    scopes.setdefault("functions", [])
    cfn = {"cpp": "constant_name", "csharp": "property_name", "golang": "constant_name",
           "java": "property_name", "python": "constant_name", "typescript": "constant_name"}[target]
    ffn = {"cpp": "function_name", "csharp": "method_name", "golang": "function_name",
           "java": "method_name", "python": "function_name", "typescript": "function_name"}[target]
    for c in st.constants:
        put("constants", f"constant {c.name}", getattr(nm, cfn), c.name)
    for f in st.verification_functions:
        put("functions", f"function {f.name}", getattr(nm, ffn), f.name)
    return scopes


def python_declarations(code):
    """Declarations per scope of generated Python code: module-level classes/functions/
    assigned names; per class: enum literal assignments or method/attribute names."""
    tree = ast.parse(code)
    scopes = {"module": []}
    for node in tree.body:
        if isinstance(node, ast.ClassDef):
            scopes["module"].append(node.name)
            members = []
            for sub in node.body:
                if isinstance(sub, (ast.FunctionDef, ast.AsyncFunctionDef)):
                    members.append(sub.name)
                elif isinstance(sub, ast.Assign):
                    for tg in sub.targets:
                        if isinstance(tg, ast.Name):
                            members.append(tg.id)
                elif isinstance(sub, ast.AnnAssign) and isinstance(sub.target, ast.Name):
                    members.append(sub.target.id)
            scopes["class:" + node.name] = members
        elif isinstance(node, (ast.FunctionDef, ast.AsyncFunctionDef)):
            scopes["module"].append(node.name)
        elif isinstance(node, ast.Assign):
            for tg in node.targets:
                if isinstance(tg, ast.Name):
                    scopes["module"].append(tg.id)
        elif isinstance(node, ast.AnnAssign) and isinstance(node.target, ast.Name):
            scopes["module"].append(node.target.id)
    return scopes


def generate_python(st_verified, st):
    """Run the real Python generators on the verified table; return declarations."""
    from aas_core_codegen.python import lib as pylib, common as pycommon
    out = {}
    qual = pycommon.QualifiedModuleName("dummy")
    from aas_core_codegen.python import naming as pynaming
    snippets = {}
    for t in st.our_types:
        if isinstance(t, intermediate.Class):
            for m in t.methods:
                snippets[specific_implementations.ImplementationKey(
                    f"Types/{m.specified_for.name}/{m.name}.py")] = (
                    f"def {pynaming.method_name(m.name)}(self) -> int:\n    return 0")
    try:
        code, errs = pylib.generate_types(symbol_table=st_verified,
                                          qualified_module_name=qual, spec_impls=snippets)
        if errs is not None:
            out["types"] = {"err": len(errs)}
        else:
            out["types"] = {"decls": python_declarations(code)}
    except BaseException as e:  # noqa
        out["types"] = {"exc": type(e).__name__, "msg": str(e)[:200]}
    try:
        code, errs = pylib.generate_constants(symbol_table=st_verified, qualified_module_name=qual)
        if errs is not None:
            out["constants"] = {"err": len(errs)}
        else:
            out["constants"] = {"decls": python_declarations(code)}
    except BaseException as e:  # noqa
        out["constants"] = {"exc": type(e).__name__, "msg": str(e)[:200]}
    try:
        code, errs = pylib.generate_verification(symbol_table=st_verified,
                                                 qualified_module_name=qual, spec_impls=dict())
        if errs is not None:
            out["verification"] = {"err": len(errs)}
        else:
            out["verification"] = {"decls": python_declarations(code)}
    except BaseException as e:  # noqa
        out["verification"] = {"exc": type(e).__name__, "msg": str(e)[:200]}
    return out


def verify_all(sources, generate=False):
    res = []
    for text in sources:
        st, err = load(text)
        if err is not None:
            res.append({"front": err})
            continue
        item = {"front": None, "mm": abstract(st), "targets": {}}
        for t in TARGETS:
            lib = importlib.import_module(f"aas_core_codegen.{t}.lib")
            entry = {}
            verified = None
            try:
                verified, errs = lib.verify_for_types(symbol_table=st)
                if errs is None:
                    entry["verdict"] = {"ok": True}
                else:
                    entry["verdict"] = {"err": len(errs)}
            except BaseException as e:  # noqa
                entry["verdict"] = {"exc": type(e).__name__}
            entry["scopes"] = real_scope_names(t, st)
            if generate and t == "python" and verified is not None:
                entry["generated"] = generate_python(verified, st)
            item["targets"][t] = entry
        res.append(item)
    return res


SCHEMA_BASE = json.dumps({"$schema": "https://json-schema.org/draft/2019-09/schema",
                          "title": "Dummy", "type": "object"})
ROOT_ELEMENT = ('<xs:schema xmlns:xs="http://www.w3.org/2001/XMLSchema" '
                'xmlns="https://dummy.com" elementFormDefault="qualified" '
                'targetNamespace="https://dummy.com"></xs:schema>')


def schemas(sources):
    """Real jsonschema / xsd generation on each meta-model: verdict, the definition keys
    of the produced schema, and the names the real naming functions give to our types."""
    import aas_core_codegen.jsonschema.main as js
    import aas_core_codegen.xsd.main as xsd
    import aas_core_codegen.naming as core_naming
    import aas_core_codegen.xsd.naming as xsd_naming
    import xml.etree.ElementTree as ET
    key = specific_implementations.ImplementationKey
    res = []
    for text in sources:
        st, err = load(text)
        if err is not None:
            res.append({"front": err})
            continue
        item = {"front": None, "mm": abstract(st)}
        item["model_types"] = [[t.name, outcome(core_naming.json_model_type, t.name)]
                               for t in st.our_types]
        item["xsd_types"] = [[t.name, outcome(xsd_naming.type_name, t.name)]
                             for t in st.our_types]
        try:
            code, errs = js.generate(symbol_table=st, spec_impls={key("schema_base.json"): SCHEMA_BASE},
                                     fix_pattern=lambda p: p)
            if errs is not None:
                item["jsonschema"] = {"err": len(errs)}
            else:
                doc = json.loads(code)
                item["jsonschema"] = {"keys": list(doc.get("definitions", {}).keys())}
        except BaseException as e:  # noqa
            item["jsonschema"] = {"exc": type(e).__name__, "msg": str(e)[:300]}
        try:
            code, errs = xsd._generate(symbol_table=st, spec_impls={key("root_element.xml"): ROOT_ELEMENT})
            if errs is not None:
                item["xsd"] = {"err": len(errs)}
            else:
                root = ET.fromstring(code)
                item["xsd"] = {"defs": [[el.tag.split("}")[-1], el.attrib.get("name")] for el in root]}
        except BaseException as e:  # noqa
            item["xsd"] = {"exc": type(e).__name__, "msg": str(e)[:300]}
        res.append(item)
    return res


def update_for_cases(cases):
    """Run the real jsonschema Definitions.update_for on lists of key lists."""
    import types as _types
    import aas_core_codegen.jsonschema.main as js
    out = []
    stub = _types.SimpleNamespace(name="Stub", parsed=_types.SimpleNamespace(node=None))
    for exts in cases:
        try:
            d = js.Definitions()
            verdict = True
            for ext in exts:
                # a mapping cannot repeat a key: a repeated key inside one extension is
                # given as consecutive single-key updates, as _generate does for snippets
                e = d.update_for(stub, {k: {} for k in ext})
                if e is not None:
                    verdict = False
                    break
            out.append({"ok": verdict, "n": len(d.get())})
        except BaseException as e:  # noqa
            out.append({"exc": type(e).__name__})
    return out


def main():
    payload = json.load(sys.stdin)
    mode = payload["mode"]
    if mode == "inventory":
        out = inventory()
    elif mode == "names":
        out = names(payload["keys"], payload["idents"])
    elif mode == "verify":
        out = verify_all(payload["sources"], payload.get("generate", False))
    elif mode == "schemas":
        out = schemas(payload["sources"])
    elif mode == "update_for":
        out = update_for_cases(payload["cases"])
    else:
        raise SystemExit(f"unknown mode {mode}")
    json.dump(out, sys.stdout)


main()
