(** C14 — XSD enforces the constraints a class declares itself: value level.

    Theorems over [Model/XsdGen.v] (facet emission of [xsd/main.py]) and, for the pattern
    facet, over [Model/XsdPattern.v]; instantiated with [_PRIMITIVE_MAP] and the renderer
    tables re-translated from the source on every run.  Only statements, [exact]s /
    [vm_compute]s and [Print Assumptions]. *)
From Coq Require Import List NArith ZArith Bool.
From Coq Require Strings.String.
Import Coq.Strings.String.StringSyntax.
From Acg Require Import Base.Str Base.Outcome Model.Retree Model.RetreeParse
  Model.RetreeRender Model.RegexSem Model.XsdPattern Model.XsdGen
  Proofs.XsdPattern Proofs.XsdGen Proofs.RetreeQuant
  Gen.GenRetreeTables Gen.GenXsd.
Import ListNotations.

Definition T : tables := mkTables gen_lit_simple gen_lit_unsupported gen_lit_assert gen_lit_stop
  gen_rng_simple gen_rng_unsupported gen_esc_lit gen_esc_rng.
Definition simple (prim : text) (c : option len_constraint) (p : option text) :=
  translate_to_simple_type xsd_primitive_map prim c p.

(** ** Ties to the source *)
Theorem C14_gen_primitive_map_total :
  forallb (fun k => match assoc_text k xsd_primitive_map with Some _ => true | None => false end)
    [s2l "BOOL"; s2l "INT"; s2l "FLOAT"; s2l "STR"; s2l "BYTEARRAY"] = true
  /\ assoc_text (s2l "STR") xsd_primitive_map = Some (s2l "xs:string")
  /\ assoc_text (s2l "BYTEARRAY") xsd_primitive_map = Some (s2l "xs:base64Binary").
Proof. vm_compute. repeat split; reflexivity. Qed.
Print Assumptions C14_gen_primitive_map_total.

Theorem C14_gen_list_defaults :
  text_eqb xsd_list_min_default (s2l "0") && text_eqb xsd_list_max_default (s2l "unbounded") = true.
Proof. vm_compute. reflexivity. Qed.
Print Assumptions C14_gen_list_defaults.

(** ** Length facets ([xs:minLength] / [xs:maxLength]) *)

(** [facet_sound]: a length that the inferred constraint admits passes the facets. *)
Theorem C14_facet_sound : forall prim lenc pat st (n : Z),
  simple prim lenc pat = Ok st ->
  len_admits lenc n = true -> restriction_len_ok (st_restriction st) n = true.
Proof. intros prim lenc pat st n. exact (facet_sound xsd_primitive_map prim lenc pat st n). Qed.
Print Assumptions C14_facet_sound.

(** [facet_complete]: a length that breaks the inferred constraint fails a facet. *)
Theorem C14_facet_complete : forall prim lenc pat st (n : Z),
  simple prim lenc pat = Ok st ->
  len_admits lenc n = false -> restriction_len_ok (st_restriction st) n = false.
Proof. intros prim lenc pat st n. exact (facet_complete xsd_primitive_map prim lenc pat st n). Qed.
Print Assumptions C14_facet_complete.

(** The translated pattern is emitted as the [xs:pattern] facet whenever there is one. *)
Theorem C14_facet_pattern_kept : forall prim lenc pat st,
  simple prim lenc pat = Ok st ->
  match st_restriction st with
  | Some r => r_pattern r = pat
  | None => pat = None /\ (forall n, len_admits lenc n = true \/ lenc <> None)
  end.
Proof. intros prim lenc pat st. exact (facet_pattern_kept xsd_primitive_map prim lenc pat st). Qed.
Print Assumptions C14_facet_pattern_kept.

(** No [KeyError] for the five primitive types of the meta-model. *)
Theorem C14_translate_total : forall prim lenc pat,
  In prim [s2l "BOOL"; s2l "INT"; s2l "FLOAT"; s2l "STR"; s2l "BYTEARRAY"] ->
  is_ok (simple prim lenc pat) = true.
Proof.
  intros prim lenc pat H. apply translate_no_crash.
  cbn [In] in H. destruct H as [<-|[<-|[<-|[<-|[<-|[]]]]]]; vm_compute; discriminate.
Qed.
Print Assumptions C14_translate_total.

Example C14_facet_nonvacuous :
  exists st,
    simple (s2l "STR") (Some (mkLen (Some 2%Z) (Some 5%Z))) (Some (s2l "[a-z]+")) = Ok st
    /\ st_type st = s2l "xs:string"
    /\ map (restriction_len_ok (st_restriction st)) [1; 2; 5; 6]%Z = [false; true; true; false]
    /\ simple (s2l "INT") None None = Ok (mkSimple (s2l "xs:long") None).
Proof. eexists. vm_compute. repeat split; reflexivity. Qed.
Print Assumptions C14_facet_nonvacuous.

(** ** Occurrence facets ([minOccurs] / [maxOccurs]) *)

(** List sizes: the item particle admits exactly the sizes the constraint admits. *)
Theorem C14_list_occurs_exact : forall lenc (n : Z),
  (0 <= n)%Z ->
  (match lenc with
   | Some c => match lc_min c with Some m => (0 <= m)%Z | None => True end
   | None => True
   end) ->
  occurs_ok (list_occurs lenc) n = len_admits lenc n.
Proof. exact list_occurs_exact. Qed.
Print Assumptions C14_list_occurs_exact.

(** Required properties occur exactly once, optional ones at most once. *)
Theorem C14_property_occurs_exact : forall optional (n : Z),
  occurs_ok (property_occurs optional) n = true <-> (n = 1 \/ (optional = true /\ n = 0))%Z.
Proof. exact property_occurs_exact. Qed.
Print Assumptions C14_property_occurs_exact.

(** The attribute values are the decimal numerals of the bounds ([str(n)]); reading the
    numeral back gives the bound (shared lemma of C16 on [dec]). *)
Theorem C14_occurs_text_roundtrip : forall n : N,
  digits_value (dec n) = n /\ forallb is_digit (dec n) = true /\ dec n <> [].
Proof. exact dec_spec. Qed.
Print Assumptions C14_occurs_text_roundtrip.

Example C14_occurs_nonvacuous :
  list_occurs (Some (mkLen (Some 2%Z) None)) = (2%Z, None)
  /\ map (occurs_ok (list_occurs (Some (mkLen (Some 1%Z) (Some 3%Z))))) [0; 1; 3; 4]%Z
     = [false; true; true; false]
  /\ occurs_texts xsd_list_min_default xsd_list_max_default (Some (mkLen None (Some 12%Z)))
     = (s2l "0", s2l "12")
  /\ occurs_texts xsd_list_min_default xsd_list_max_default None = (s2l "0", s2l "unbounded").
Proof. vm_compute. repeat split; reflexivity. Qed.
Print Assumptions C14_occurs_nonvacuous.

(** ** Pattern facet: no widening for patterns of the accepted shape without inner anchors

    On strings without line breaks the emitted pattern accepts *exactly* what the
    meta-model pattern accepts, so a value that breaks the pattern is rejected. *)
Theorem C14_pattern_violation_rejected : forall (t : regex) (mid : concatenation) (s : text),
  top_anchored t mid -> no_linebreak s = true ->
  py_match t s = false -> xsd_match (xsd_tree t) s = false.
Proof.
  intros t mid s Ht Hs Hpy. rewrite (anchor_removal_language_full t mid s Ht Hs). exact Hpy.
Qed.
Print Assumptions C14_pattern_violation_rejected.

(** Without the hypothesis on inner anchors the statement is false for patterns that the
    front end accepts: [^(a$|b)c$] rejects "ac" in Python (and in the SDK), the emitted
    pattern [(a|b)c] accepts it. *)
Theorem C14_pattern_violation_rejected_inner_anchor_refuted :
  exists t s,
    parse_string T (s2l "^(a$|b)c$") = Ok t /\ no_linebreak s = true
    /\ py_match t s = false /\ xsd_match (xsd_tree t) s = true
    /\ translate T xsd_esc_lit xsd_esc_rng (s2l "^(a$|b)c$") = Ok (s2l "(a|b)c").
Proof. eexists. exists (s2l "ac"). vm_compute. repeat split; reflexivity. Qed.
Print Assumptions C14_pattern_violation_rejected_inner_anchor_refuted.
