(** C17 — minimal regex AST of [parse/retree/_types.py] and an executable matching
    semantics over lists of code points / UTF-16 code units.

    The AST mirrors the Python classes one-to-one:
      Regex.union / Group.union = [union]   (UnionExpr.uniates   : list of Concatenation)
      Concatenation             = [concat]  (Concatenation.concatenants : list of Term)
      Term(value, quantifier)   = [term]    (value in Char | CharSet | Symbol | Group)
    ([FormattedValue] terms are not modelled: [fix_pattern_for_utf16] only ever sees plain
    strings.) The list-like types are spelled out as mutual inductives so that Coq
    generates usable mutual recursion / induction.

    Matching is *full match* of a word: a state is [(at_start, remaining)], an atom maps a
    state to the list of states it can reach; [^] tests [at_start], [$] tests
    [remaining = []]. Greedy/non-greedy does not change the language. Executable
    definitions only (no proofs in Model/). *)
From Coq Require Import List NArith Bool Arith.
Import ListNotations.
Open Scope N_scope.

Inductive sym : Type := SStart | SEnd | SDot.

(** Char(character, explicitly_encoded) *)
Record chr : Type := mkchr { ccode : N; cenc : bool }.

(** Range(start, end : Optional[Char]) *)
Record rng : Type := mkrng { rstart : chr; rend : option chr }.

(** Quantifier(non_greedy, minimum, maximum : Optional[int]) *)
Record quant : Type := mkq { qlazy : bool; qmin : nat; qmax : option nat }.

Inductive term : Type :=
| TChar (c : chr) (q : option quant)
| TSet (compl : bool) (rs : list rng) (q : option quant)
| TSym (y : sym) (q : option quant)
| TGroup (u : union) (q : option quant)
with concat : Type :=
| CNil
| CCons (t : term) (c : concat)
with union : Type :=
| UNil
| UCons (c : concat) (u : union).

Fixpoint capp (a b : concat) : concat :=
  match a with
  | CNil => b
  | CCons t a' => CCons t (capp a' b)
  end.

Fixpoint uapp (a b : union) : union :=
  match a with
  | UNil => b
  | UCons c a' => UCons c (uapp a' b)
  end.

Fixpoint concat_of_list (l : list term) : concat :=
  match l with [] => CNil | t :: r => CCons t (concat_of_list r) end.

Fixpoint union_of_list (l : list concat) : union :=
  match l with [] => UNil | c :: r => UCons c (union_of_list r) end.

(* ------------------------------------------------------------------ equality *)
Definition chr_eqb (a b : chr) : bool :=
  N.eqb (ccode a) (ccode b) && Bool.eqb (cenc a) (cenc b).

Definition opt_eqb {A} (e : A -> A -> bool) (a b : option A) : bool :=
  match a, b with
  | None, None => true
  | Some x, Some y => e x y
  | _, _ => false
  end.

Definition rng_eqb (a b : rng) : bool :=
  chr_eqb (rstart a) (rstart b) && opt_eqb chr_eqb (rend a) (rend b).

Definition quant_eqb (a b : quant) : bool :=
  Bool.eqb (qlazy a) (qlazy b) && Nat.eqb (qmin a) (qmin b)
  && opt_eqb Nat.eqb (qmax a) (qmax b).

Fixpoint rngs_eqb (a b : list rng) : bool :=
  match a, b with
  | [], [] => true
  | x :: a', y :: b' => rng_eqb x y && rngs_eqb a' b'
  | _, _ => false
  end.

Definition sym_eqb (a b : sym) : bool :=
  match a, b with
  | SStart, SStart | SEnd, SEnd | SDot, SDot => true
  | _, _ => false
  end.

Fixpoint term_eqb (a b : term) : bool :=
  match a, b with
  | TChar c q, TChar c' q' => chr_eqb c c' && opt_eqb quant_eqb q q'
  | TSet k rs q, TSet k' rs' q' =>
      Bool.eqb k k' && rngs_eqb rs rs' && opt_eqb quant_eqb q q'
  | TSym y q, TSym y' q' => sym_eqb y y' && opt_eqb quant_eqb q q'
  | TGroup u q, TGroup u' q' => union_eqb u u' && opt_eqb quant_eqb q q'
  | _, _ => false
  end
with concat_eqb (a b : concat) : bool :=
  match a, b with
  | CNil, CNil => true
  | CCons t c, CCons t' c' => term_eqb t t' && concat_eqb c c'
  | _, _ => false
  end
with union_eqb (a b : union) : bool :=
  match a, b with
  | UNil, UNil => true
  | UCons c u, UCons c' u' => concat_eqb c c' && union_eqb u u'
  | _, _ => false
  end.

(* ----------------------------------------------------------------- semantics *)
(** [(at_start, remaining word)] *)
Definition st : Type := (bool * list N)%type.

Fixpoint lN_eqb (a b : list N) : bool :=
  match a, b with
  | [], [] => true
  | x :: a', y :: b' => N.eqb x y && lN_eqb a' b'
  | _, _ => false
  end.

Definition st_eqb (a b : st) : bool :=
  Bool.eqb (fst a) (fst b) && lN_eqb (snd a) (snd b).

Fixpoint mem_st (x : st) (l : list st) : bool :=
  match l with [] => false | y :: r => st_eqb x y || mem_st x r end.

Fixpoint dedup (l : list st) : list st :=
  match l with
  | [] => []
  | x :: r => if mem_st x r then dedup r else x :: dedup r
  end.

Definition in_rng (x : N) (r : rng) : bool :=
  match rend r with
  | None => x =? ccode (rstart r)
  | Some e => (ccode (rstart r) <=? x) && (x <=? ccode e)
  end.

Definition in_set (compl : bool) (rs : list rng) (x : N) : bool :=
  xorb compl (existsb (in_rng x) rs).

(** consume one unit satisfying [p] *)
Definition eat (p : N -> bool) (s : st) : list st :=
  match snd s with
  | x :: w => if p x then [(false, w)] else []
  | [] => []
  end.

Definition e_char (c : chr) : st -> list st := eat (fun x => x =? ccode c).
Definition e_set (compl : bool) (rs : list rng) : st -> list st := eat (in_set compl rs).

(** [.] matches everything but a line feed (Python [re] without DOTALL). *)
Definition dot_ok (x : N) : bool := negb (x =? 10).

Definition e_sym (y : sym) (s : st) : list st :=
  match y with
  | SStart => if fst s then [s] else []
  | SEnd => match snd s with [] => [s] | _ :: _ => [] end
  | SDot => eat dot_ok s
  end.

(** [f] applied exactly [n] times to a set of states *)
Fixpoint epow (f : st -> list st) (n : nat) (l : list st) : list st :=
  match n with
  | O => l
  | S n' => epow f n' (dedup (flat_map f l))
  end.

(** union of [f^j l] for [j <= k] *)
Fixpoint eupto (f : st -> list st) (k : nat) (l : list st) : list st :=
  match k with
  | O => l
  | S k' => l ++ eupto f k' (dedup (flat_map f l))
  end.

(** quantifier {min,max}: exactly [min] iterations, then up to [max - min] more; for an
    open quantifier up to [length remaining] more (an iteration that consumes nothing
    leaves the state unchanged, so more iterations reach nothing new —
    [Proofs/Utf16Sem.v: et_spec]). *)
Definition eiter (f : st -> list st) (q : quant) (s : st) : list st :=
  match qmax q with
  | Some mx =>
      if (mx <? qmin q)%nat then []
      else dedup (eupto f (mx - qmin q) (epow f (qmin q) [s]))
  | None => dedup (eupto f (length (snd s)) (epow f (qmin q) [s]))
  end.

Definition eq_ (q : option quant) (f : st -> list st) : st -> list st :=
  match q with
  | None => f
  | Some q' => eiter f q'
  end.

Fixpoint et (t : term) : st -> list st :=
  match t with
  | TChar c q => eq_ q (e_char c)
  | TSet k rs q => eq_ q (e_set k rs)
  | TSym y q => eq_ q (e_sym y)
  | TGroup u q => eq_ q (eu u)
  end
with ec (c : concat) : st -> list st :=
  match c with
  | CNil => fun s => [s]
  | CCons t c' => fun s => dedup (flat_map (ec c') (et t s))
  end
with eu (u : union) : st -> list st :=
  match u with
  | UNil => fun _ => []
  | UCons c u' => fun s => ec c s ++ eu u' s
  end.

Definition is_final (s : st) : bool :=
  match snd s with [] => true | _ :: _ => false end.

(** all end states of the regex on word [w] (the design's [ends]) *)
Definition ends (u : union) (w : list N) : list st := eu u (true, w).

(** full match *)
Definition matchesb (u : union) (w : list N) : bool := existsb is_final (ends u w).
