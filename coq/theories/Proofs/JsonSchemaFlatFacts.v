(** Class-level theorems for flat classes (no parents, no descendants, properties of
    primitive / list type): [schema_accepts_valid] and [schema_rejects_single_violation]
    over the generated concrete definition. *)
From Coq Require Import List NArith ZArith Bool Lia.
From Coq Require Strings.String.
Import Coq.Strings.String.StringSyntax.
From Acg Require Import Base.Str Base.Outcome Model.JsonSchemaSem Model.JsonSchemaGen
  Model.JsonSchemaSpec Proofs.JsonSchemaFacts Proofs.JsonSchemaGenFacts
  Proofs.JsonSchemaClassFacts.
Import ListNotations.
Open Scope Z_scope.

Definition flatb (c : cls) : bool :=
  is_nil (c_parents c) && is_nil (c_conc_desc c)
  && forallb (fun p => p_own p && prim_only (p_type p)
                       && negb (text_eqb (p_name p) model_type_kw)) (c_props c).

Definition cdepth (c : cls) : nat :=
  fold_right (fun p n => Nat.max (tdepth (p_type p)) n) O (c_props c).

Lemma cdepth_ge : forall c p, In p (c_props c) -> (tdepth (p_type p) <= cdepth c)%nat.
Proof.
  intros c p. unfold cdepth. induction (c_props c) as [|q ps IH]; intros H; [destruct H|].
  cbn [fold_right]. destruct H as [->|H]; [lia|]. specialize (IH H). lia.
Qed.

Section Flat.
  Variable pm : list (text * text).
  Variable fixp : text -> text.
  Variable search16 matches : text -> text -> bool.
  Variable b64 : list N -> text.
  Variable int_tok : Z -> text.
  Variable defs : list (text * schema).
  Variable cons_of : text -> option cbv.
  Hypothesis pm_ok : forall p, prim_jtype pm p = Some (expected_jtype p).
  Hypothesis fix_ok : forall p s, search16 (fixp p) s = matches p s.
  Hypothesis b64_len : forall b, zlen (b64 b) = b64len (zlen b).

  Notation validates := (validates search16 defs).
  Notation valid_kw := (valid_kw search16 defs).
  Notation to_json := (to_json b64 int_tok).

  Lemma define_type_total : forall m t, prim_only t = true ->
    exists k d, define_type pm fixp m t = Some (k :: d).
  Proof.
    intros m t. induction t as [i p|i n|i n h|i it IH]; intros H; try discriminate.
    - cbn [define_type ta_id]. rewrite pm_ok.
      destruct (cbv_get m i) as [c|]; [|eexists; eexists; reflexivity].
      destruct (translate_constraints fixp (TAPrim i p) c) as [[|base [|r rest]]|];
        eexists; eexists; reflexivity.
    - cbn [define_type ta_id]. destruct (IH H) as (k & d & ->).
      destruct (cbv_get m i) as [c|]; [|eexists; eexists; reflexivity].
      destruct (translate_constraints fixp (TAList i it) c) as [[|base [|r rest]]|];
        eexists; eexists; reflexivity.
  Qed.

  (** The entries generated for the properties of a flat class. *)
  Definition entry_of (c : cls) (p : prop) (e : text * schema) : Prop :=
    fst e = p_name p /\ exists d, define_type pm fixp (c_cons c) (p_type p) = Some d /\ snd e = Schema d.

  Lemma define_properties_flat : forall c ps,
    forallb (fun p => p_own p && prim_only (p_type p)
                      && negb (text_eqb (p_name p) model_type_kw)) ps = true ->
    exists props, define_properties_loop pm fixp cons_of c ps = Ok props
                  /\ Forall2 (entry_of c) ps props.
  Proof.
    intros c ps. induction ps as [|p ps IH]; intros H.
    - exists []. split; [reflexivity|constructor].
    - cbn [forallb] in H. apply andb_true_iff in H. destruct H as [Hp Hps].
      apply andb_true_iff in Hp. destruct Hp as [Hp _].
      apply andb_true_iff in Hp. destruct Hp as [Hown Hprim].
      destruct (IH Hps) as (props & Hl & Hf).
      destruct (define_type_total (c_cons c) (p_type p) Hprim) as (k & d & Hd).
      exists ((p_name p, Schema (k :: d)) :: props). split.
      + cbn [define_properties_loop]. rewrite Hown, Hd. cbn [bind]. rewrite Hl. reflexivity.
      + constructor; [|exact Hf]. split; [reflexivity|]. exists (k :: d). split; [exact Hd|reflexivity].
  Qed.

  Lemma Forall2_in_l : forall {A B} (R : A -> B -> Prop) l1 l2 a,
    Forall2 R l1 l2 -> In a l1 -> exists b, In b l2 /\ R a b.
  Proof.
    intros A B R l1 l2 a H. induction H as [|x y l1 l2 Hxy _ IH]; intros Hin; [destruct Hin|].
    destruct Hin as [->|Hin]; [exists y; split; [left; reflexivity|exact Hxy]|].
    destruct (IH Hin) as (b & Hb & Hr). exists b. split; [right; exact Hb|exact Hr].
  Qed.

  Lemma Forall2_in_r : forall {A B} (R : A -> B -> Prop) l1 l2 b,
    Forall2 R l1 l2 -> In b l2 -> exists a, In a l1 /\ R a b.
  Proof.
    intros A B R l1 l2 b H. induction H as [|x y l1 l2 Hxy _ IH]; intros Hin; [destruct Hin|].
    destruct Hin as [<-|Hin]; [exists x; split; [left; reflexivity|exact Hxy]|].
    destruct (IH Hin) as (a & Ha & Hr). exists a. split; [right; exact Ha|exact Hr].
  Qed.

  Lemma lookup_app : forall {A} k (l1 l2 : list (text * A)),
    lookup k (l1 ++ l2) = match lookup k l1 with Some v => Some v | None => lookup k l2 end.
  Proof.
    intros A k l1 l2. induction l1 as [|[k' v] l1 IH]; [reflexivity|].
    cbn [app lookup]. destruct (text_eqb k k'); [reflexivity|exact IH].
  Qed.

  Lemma lookup_fields_json : forall k fields,
    lookup k (fields_json b64 int_tok fields) = option_map to_json (lookup k fields).
  Proof.
    intros k fields. induction fields as [|[k' v] fs IH]; [reflexivity|].
    cbn [fields_json map lookup fst snd]. destruct (text_eqb k k'); [reflexivity|exact IH].
  Qed.

  (** How a property name is looked up in the document of a flat instance. *)
  Lemma doc_lookup : forall c fields k,
    text_eqb k model_type_kw = false ->
    lookup k (fields_json b64 int_tok fields
              ++ (if c_wmt c then [(model_type_kw, JStr (c_name c))] else []))
    = option_map to_json (lookup k fields).
  Proof.
    intros c fields k Hk. rewrite lookup_app, lookup_fields_json.
    destruct (lookup k fields); [reflexivity|].
    destruct (c_wmt c); cbn [lookup option_map]; [rewrite Hk|]; reflexivity.
  Qed.

  Lemma flat_prop_facts : forall c p, flatb c = true -> In p (c_props c) ->
    p_own p = true /\ prim_only (p_type p) = true /\ text_eqb (p_name p) model_type_kw = false.
  Proof.
    intros c p Hf Hin. unfold flatb in Hf. apply andb_true_iff in Hf. destruct Hf as [_ Hf].
    rewrite forallb_forall in Hf. specialize (Hf p Hin).
    apply andb_true_iff in Hf. destruct Hf as [Hf Hn]. apply andb_true_iff in Hf.
    destruct Hf as [Ho Hp]. repeat split; try assumption.
    apply negb_true_iff. exact Hn.
  Qed.

  (** The shape of the concrete definition of a flat class. *)
  Lemma flat_concrete_definition : forall c n s,
    flatb c = true -> concrete_definition pm fixp cons_of c = Ok (n, s) ->
    exists props,
      Forall2 (entry_of c) (c_props c) props /\
      s = Schema (body_definition c
                    (if c_wmt c then props ++ [const_model_type c] else props)
                    (list_required c))
      /\ is_nil (c_parents c) = true.
  Proof.
    intros c n s Hf Hd. pose proof Hf as Hf'. unfold flatb in Hf.
    apply andb_true_iff in Hf. destruct Hf as [Hf Hps].
    apply andb_true_iff in Hf. destruct Hf as [Hpar Hdesc].
    unfold concrete_definition in Hd. rewrite Hdesc in Hd. cbn [negb] in Hd.
    destruct (define_properties_flat c (c_props c) Hps) as (props & Hl & HF).
    unfold define_properties in Hd. rewrite Hl in Hd. cbn [bind] in Hd.
    injection Hd as _ <-. exists props. split; [exact HF|]. split; [|exact Hpar].
    unfold all_of_for_inheritance. destruct (c_parents c); [|discriminate]. reflexivity.
  Qed.

  Lemma all_opt_all_true : forall l, (forall x, In x l -> x = Some true) -> all_opt l = Some true.
  Proof.
    induction l as [|y l IH]; intros H; [reflexivity|].
    cbn [all_opt]. rewrite (H y (or_introl eq_refl)). rewrite IH; [reflexivity|].
    intros x Hx. apply H. right. exact Hx.
  Qed.

  (** C11, class level (flat classes): the document of every instance that respects the
      class validates against the generated concrete definition. *)
  Theorem schema_accepts_valid_flat : forall c n s fields,
    flatb c = true -> concrete_definition pm fixp cons_of c = Ok (n, s) ->
    instance_okb matches false c fields = true ->
    lookup model_type_kw fields = None ->
    forall f, (cdepth c + 3 <= f)%nat ->
    validates f s (instance_doc b64 int_tok c fields) = Some true.
  Proof.
    intros c n s fields Hflat Hd Hok Hnomt f Hfuel.
    destruct (flat_concrete_definition c n s Hflat Hd) as (props & HF & -> & Hpar).
    destruct f as [|[|f]]; [lia|lia|]. rewrite validates_unfold. cbn [kws_of].
    unfold body_definition. rewrite Hpar.
    unfold instance_okb in Hok. rewrite forallb_forall in Hok.
    unfold instance_doc.
    set (props' := if c_wmt c then props ++ [const_model_type c] else props).
    set (doc := fields_json b64 int_tok fields
                ++ (if c_wmt c then [(model_type_kw, JStr (c_name c))] else [])).
    assert (Hentries : forall e, In e props' ->
              match lookup (fst e) doc with
              | Some x => validates (S f) (snd e) x
              | None => Some true
              end = Some true).
    { intros e He.
      assert (Hcases : In e props \/ (c_wmt c = true /\ e = const_model_type c)).
      { unfold props' in He. destruct (c_wmt c); [|left; exact He].
        apply in_app_or in He. destruct He as [He|[<-|[]]];
          [left; exact He|right; split; reflexivity]. }
      destruct Hcases as [He'|[Hw ->]].
      - destruct (Forall2_in_r _ _ _ e HF He') as (p & Hp & Hfst & d & Hdt & Hsnd).
        destruct (flat_prop_facts c p Hflat Hp) as (_ & Hprim & Hname).
        rewrite Hfst. unfold doc. rewrite (doc_lookup c fields (p_name p) Hname).
        specialize (Hok p Hp). destruct (lookup (p_name p) fields) as [v|]; [|reflexivity].
        cbn [option_map]. apply andb_true_iff in Hok. destruct Hok as [Hty Had].
        rewrite Hsnd.
        apply (kw_sound pm fixp search16 matches b64 int_tok defs pm_ok fix_ok b64_len
                 (c_cons c) (p_type p) d v Hprim Hdt Hty Had).
        pose proof (cdepth_ge c p Hp). lia.
      - cbn [const_model_type fst snd]. unfold doc.
        rewrite lookup_app, lookup_fields_json, Hnomt, Hw. cbn [option_map lookup].
        rewrite text_eqb_refl. cbn. rewrite text_eqb_refl. reflexivity. }
    apply all_opt_all_true. intros x Hx. apply in_map_iff in Hx. destruct Hx as (k & <- & Hk).
    cbn [app] in Hk. destruct Hk as [<-|Hk]; [reflexivity|].
    destruct (is_nil props') eqn:Enil; [destruct Hk|].
    destruct Hk as [<-|Hk].
    - cbn [JsonSchemaSem.valid_kw]. apply all_opt_all_true. intros y Hy.
      apply in_map_iff in Hy. destruct Hy as (e & <- & He). apply Hentries. exact He.
    - destruct (is_nil (list_required c)); [destruct Hk|]. destruct Hk as [<-|[]].
      cbn [JsonSchemaSem.valid_kw]. f_equal. apply forallb_forall. intros r Hr.
      unfold list_required in Hr. apply in_map_iff in Hr. destruct Hr as (p & <- & Hp).
      apply filter_In in Hp. destruct Hp as [Hp Hreq].
      apply andb_true_iff in Hreq. destruct Hreq as [_ Hnopt]. apply negb_true_iff in Hnopt.
      destruct (flat_prop_facts c p Hflat Hp) as (_ & _ & Hname).
      unfold doc. rewrite (doc_lookup c fields (p_name p) Hname).
      specialize (Hok p Hp). destruct (lookup (p_name p) fields) as [v|]; [reflexivity|].
      rewrite Hnopt in Hok. discriminate.
  Qed.

  (** C12, class level (flat classes): if the value of one property breaks a constraint
      that the text view can express, the document is rejected at every fuel. *)
  Theorem schema_rejects_single_violation_flat : forall c n s fields p v,
    flatb c = true -> concrete_definition pm fixp cons_of c = Ok (n, s) ->
    In p (c_props c) -> lookup (p_name p) fields = Some v ->
    typedb (p_type p) v = true -> admitsb matches true (c_cons c) (p_type p) v = false ->
    forall f, validates f s (instance_doc b64 int_tok c fields) <> Some true.
  Proof.
    intros c n s fields p v Hflat Hd Hp Hl Hty Hbad.
    destruct (flat_concrete_definition c n s Hflat Hd) as (props & HF & -> & Hpar).
    destruct (Forall2_in_l _ _ _ p HF Hp) as (e & He & Hfst & d & Hdt & Hsnd).
    destruct (flat_prop_facts c p Hflat Hp) as (_ & Hprim & Hname).
    set (props' := if c_wmt c then props ++ [const_model_type c] else props).
    assert (He' : In e props').
    { unfold props'. destruct (c_wmt c); [apply in_or_app; left|]; exact He. }
    intros [|f]; [discriminate|].
    apply (validates_kw_rejects search16 defs f _ _ (KProperties props')).
    - cbn [kws_of]. unfold body_definition. apply in_or_app. right.
      fold props'. destruct props' as [|e0 r]; [destruct He'|]. left. reflexivity.
    - unfold instance_doc. cbn [JsonSchemaSem.valid_kw]. intros E.
      pose proof (all_opt_true_all _ E) as Hall.
      specialize (Hall (match lookup (fst e)
                                (fields_json b64 int_tok fields
                                 ++ (if c_wmt c then [(model_type_kw, JStr (c_name c))] else []))
                        with Some x => validates f (snd e) x | None => Some true end)).
      rewrite Hfst, (doc_lookup c fields (p_name p) Hname), Hl, Hsnd in Hall.
      cbn [option_map] in Hall.
      apply (kw_complete pm fixp search16 matches b64 int_tok defs pm_ok fix_ok b64_len
               (c_cons c) (p_type p) d v Hprim Hdt Hty Hbad f).
      apply Hall. apply in_map_iff. exists e. split; [|exact He'].
      rewrite Hfst, (doc_lookup c fields (p_name p) Hname), Hl, Hsnd. reflexivity.
  Qed.
End Flat.
