"""Shared machinery of the checks (see DESIGN.md §2.4).

Everything here is driven by ``/verif/check``. The implementation under test is the
working tree at ``REPO`` (default ``/repo``; ``VERIF_REPO`` overrides it so that a
scratch worktree with a seeded change can be checked without touching ``/repo``).
"""
from __future__ import annotations

import fcntl
import hashlib
import json
import os
import pathlib
import random
import re
import shutil
import subprocess
import sys
import tempfile
import time
from typing import Any, Callable, Dict, Iterable, List, Optional, Sequence, Tuple

VERIF = pathlib.Path(__file__).resolve().parent.parent
REPO = pathlib.Path(os.environ.get("VERIF_REPO", "/repo")).resolve()
COQ = VERIF / "coq"
THEORIES = COQ / "theories"
WORK = pathlib.Path(os.environ.get("VERIF_WORK", str(VERIF / "work")))
EVIDENCE = VERIF / "evidence"
REPLAYS = VERIF / "replays"
PY = os.environ.get("VERIF_PYTHON", "/venv/bin/python")
NCPU = max(1, min(16, os.cpu_count() or 1))
GUARD_ENV = "AAS_CORE_CODEGEN_VERIF"

ALLOWED_AXIOMS = {
    # axioms declared by the standard library that a proof may rely on; each one that
    # actually occurs is written into the evidence file of the run.
    "FunctionalExtensionality.functional_extensionality_dep",
    "functional_extensionality_dep",
    "Eqdep.Eq_rect_eq.eq_rect_eq",
    "eq_rect_eq",
    "Classical_Prop.classic",
    "classic",
    "ProofIrrelevance.proof_irrelevance",
    "proof_irrelevance",
    "JMeq.JMeq_eq",
    "JMeq_eq",
}

FORBIDDEN_RE = re.compile(
    r"\b(Admitted|admit|Axiom|Axioms|Parameter|Parameters|Conjecture|Conjectures|"
    r"bypass_check|Admit Obligations)\b|Unset Guard|"
    r"Unset Positivity|Unset Universe|type-in-type|impredicative-set|native_compute"
)


# ---------------------------------------------------------------------------------
# Coq term printers (cases files open N_scope for code points; Z and nat are annotated)
# ---------------------------------------------------------------------------------
def coq_text(s: str) -> str:
    return "[" + ";".join(str(ord(c)) for c in s) + "]"


def coq_bytes(b: bytes) -> str:
    return "[" + ";".join(str(x) for x in b) + "]"


def coq_list(items: Iterable[str]) -> str:
    return "[" + "; ".join(items) + "]"


def coq_z(n: int) -> str:
    return f"({n})%Z"


def coq_nat(n: int) -> str:
    assert 0 <= n < 5000, "never write big nat literals"
    return f"{n}%nat"


def coq_n(n: int) -> str:
    assert n >= 0
    return f"{n}%N"


def coq_bool(b: bool) -> str:
    return "true" if b else "false"


def coq_option(x: Optional[str]) -> str:
    return "None" if x is None else f"(Some {x})"


def coq_pair(*xs: str) -> str:
    return "(" + ", ".join(xs) + ")"


# ---------------------------------------------------------------------------------
# Build
# ---------------------------------------------------------------------------------
class BuildLock:
    def __enter__(self):
        WORK.mkdir(parents=True, exist_ok=True)
        self.f = open(WORK / ".build.lock", "w")
        fcntl.flock(self.f, fcntl.LOCK_EX)
        return self

    def __exit__(self, *a):
        fcntl.flock(self.f, fcntl.LOCK_UN)
        self.f.close()


def sh(cmd: Sequence[str] | str, timeout: int = 600, cwd=None, env=None, input_=None):
    """Run a command; returns (rc, stdout+stderr). rc 124 on timeout."""
    try:
        p = subprocess.run(
            cmd,
            shell=isinstance(cmd, str),
            cwd=cwd,
            env=env,
            input=input_,
            stdout=subprocess.PIPE,
            stderr=subprocess.STDOUT,
            timeout=timeout,
            text=True,
        )
        return p.returncode, p.stdout
    except subprocess.TimeoutExpired as e:
        out = e.stdout or ""
        if isinstance(out, bytes):
            out = out.decode("utf-8", "replace")
        return 124, out + "\n[timeout]"


def write_if_changed(path: pathlib.Path, content: str) -> bool:
    if path.exists() and path.read_text() == content:
        return False
    path.parent.mkdir(parents=True, exist_ok=True)
    path.write_text(content)
    return True


def regen_coqproject() -> None:
    files = sorted(
        str(p.relative_to(COQ)) for p in THEORIES.rglob("*.v") if ".#" not in p.name
    )
    content = "-Q theories Acg\n" + "\n".join(files) + "\n"
    changed = write_if_changed(COQ / "_CoqProject", content)
    if changed or not (COQ / "Makefile").exists():
        rc, out = sh(["coq_makefile", "-f", "_CoqProject", "-o", "Makefile"], cwd=COQ)
        if rc != 0:
            raise RuntimeError("coq_makefile failed:\n" + out)


def coq_make(targets: Sequence[str], timeout: int = 1500) -> Tuple[bool, str]:
    """Full .vo build (never -vos) of the given targets (paths relative to coq/)."""
    with BuildLock():
        regen_coqproject()
        rc, out = sh(
            ["timeout", str(timeout), "make", f"-j{NCPU}", *targets],
            cwd=COQ,
            timeout=timeout + 30,
        )
    return rc == 0, out


def coqc_file(path: pathlib.Path, timeout: int = 600, extra_q: Sequence[str] = ()):
    """Compile one file against the project; returns (rc, output)."""
    cmd = ["timeout", str(timeout), "coqc", "-Q", str(THEORIES), "Acg", *extra_q, str(path)]
    return sh(cmd, cwd=path.parent, timeout=timeout + 30)


# ---------------------------------------------------------------------------------
# Props file inspection
# ---------------------------------------------------------------------------------
THEOREM_RE = re.compile(
    r"^\s*(Theorem|Lemma|Example|Corollary|Fact|Proposition)\s+([A-Za-z_][A-Za-z0-9_']*)", re.M
)


def props_theorems(prop_file: pathlib.Path) -> List[str]:
    return [m.group(2) for m in THEOREM_RE.finditer(strip_coq_comments(prop_file.read_text()))]


def strip_coq_comments(src: str) -> str:
    out = []
    depth = 0
    i = 0
    in_str = False
    while i < len(src):
        if depth == 0 and src[i] == '"':
            in_str = not in_str
            out.append(src[i])
            i += 1
            continue
        if not in_str and src.startswith("(*", i):
            depth += 1
            i += 2
            continue
        if not in_str and depth > 0 and src.startswith("*)", i):
            depth -= 1
            i += 2
            continue
        if depth == 0:
            out.append(src[i])
        i += 1
    return "".join(out)


def grep_gate(files: Iterable[pathlib.Path]) -> List[str]:
    """Reject forbidden vernacular anywhere in the development (comments stripped)."""
    bad = []
    for f in files:
        src = strip_coq_comments(f.read_text())
        # `Variable`/`Hypothesis` are allowed only inside sections: we simply forbid
        # Hypothesis altogether and check Variables are inside a Section.
        for m in FORBIDDEN_RE.finditer(src):
            line = src.count("\n", 0, m.start()) + 1
            bad.append(f"{f.relative_to(VERIF)}:{line}: {m.group(0)}")
        depth = 0
        for ln, line in enumerate(src.splitlines(), 1):
            s = line.strip()
            if re.match(r"^(Section|Module Type)\s", s):
                depth += 1
            elif re.match(r"^End\s", s) and depth > 0:
                depth -= 1
            elif re.match(r"^(Variable|Variables|Context|Hypothesis|Hypotheses)\b", s) and depth == 0:
                bad.append(f"{f.relative_to(VERIF)}:{ln}: Variable/Hypothesis outside section")
    return bad


def parse_print_assumptions(output: str) -> List[Dict[str, Any]]:
    """Split coqc output into the blocks printed by `Print Assumptions`."""
    blocks = []
    cur = None
    for line in output.splitlines():
        if line.startswith("Closed under the global context"):
            blocks.append({"closed": True, "axioms": []})
            cur = None
        elif line.startswith("Axioms:"):
            cur = {"closed": False, "axioms": []}
            blocks.append(cur)
        elif cur is not None:
            m = re.match(r"^([A-Za-z_][\w.']*)\s*(:|$)", line)
            if m and not line.startswith(" "):
                cur["axioms"].append(m.group(1))
            elif not line.startswith(" ") and line.strip():
                cur = None
    return blocks


# ---------------------------------------------------------------------------------
# Implementation runs
# ---------------------------------------------------------------------------------
def impl_env(tmpdir: pathlib.Path, hashseed: str = "0", hooks: bool = True) -> Dict[str, str]:
    env = {
        "PATH": os.environ.get("PATH", "/usr/bin:/bin"),
        "PYTHONPATH": str(REPO),
        "PYTHONHASHSEED": hashseed,
        "TMPDIR": str(tmpdir),
        "HOME": os.environ.get("HOME", "/root"),
        "LANG": "C.UTF-8",
        "LC_ALL": "C.UTF-8",
        "PYTHONDONTWRITEBYTECODE": "1",
        "PYTHONIOENCODING": "utf-8:surrogatepass",
        "VERIF_REPO": str(REPO),
    }
    if hooks:
        env[GUARD_ENV] = "1"
    return env


def impl_call(script: str, payload: Any, timeout: int = 600, hashseed: str = "0",
              args: Sequence[str] = ()) -> Any:
    """Run ``harness/impl/<script>`` with the repo's interpreter in a fresh process and
    a fresh empty TMPDIR; JSON in on stdin, JSON out on stdout."""
    WORK.mkdir(parents=True, exist_ok=True)
    tmp = pathlib.Path(tempfile.mkdtemp(prefix="impl-", dir=WORK))
    try:
        p = subprocess.run(
            [PY, str(VERIF / "harness" / "impl" / script), *args],
            input=json.dumps(payload),
            stdout=subprocess.PIPE,
            stderr=subprocess.PIPE,
            text=True,
            timeout=timeout,
            env=impl_env(tmp, hashseed),
            cwd=str(tmp),
        )
        if p.returncode != 0:
            raise HarnessError(
                f"impl adapter {script} failed rc={p.returncode}\n{p.stderr[-4000:]}"
            )
        return json.loads(p.stdout)
    finally:
        shutil.rmtree(tmp, ignore_errors=True)


class HarnessError(Exception):
    """The machinery itself failed (exit 2, never a pass)."""


# ---------------------------------------------------------------------------------
# cases.v runner
# ---------------------------------------------------------------------------------
def run_cases(
    workdir: pathlib.Path,
    name: str,
    header: str,
    case_type: str,
    bad_fn: str,
    cases: Sequence[str],
    shard: int = 400,
    timeout: int = 900,
) -> Tuple[List[int], str]:
    """Evaluate a correspondence stream inside Coq.

    ``header``   Coq text: imports + definitions (may define helper functions);
    ``case_type`` Coq type of one case;
    ``bad_fn``   Coq function ``list case_type -> list nat`` returning the indices of
                 the cases on which model and implementation disagree;
    ``cases``    Coq terms of type case_type (the implementation's observed output is
                 part of each case).

    Returns (sorted global indices of disagreeing cases, raw log)."""
    workdir.mkdir(parents=True, exist_ok=True)
    for old in workdir.glob(f"{name}_*.v"):
        old.unlink()
    files = []
    for k in range(0, len(cases), shard):
        chunk = cases[k : k + shard]
        path = workdir / f"{name}_{k // shard}.v"
        body = [
            header,
            f"Definition cases : list ({case_type}) := [",
            ";\n".join(chunk),
            "].",
            f"Eval vm_compute in ({bad_fn} cases).",
        ]
        path.write_text("\n".join(body) + "\n")
        files.append((k, path))
    if not files:
        return [], ""
    # compile shards in parallel
    procs = []
    logs = []
    bad: List[int] = []
    pending = list(files)
    running: List[Tuple[int, pathlib.Path, subprocess.Popen]] = []
    while pending or running:
        # coqc needs up to several GB on shards with deeply nested terms: bound the number
        # of concurrent shards (thorough volumes otherwise exhaust the memory)
        while pending and len(running) < min(NCPU, int(os.environ.get("VERIF_CASES_PAR", "8"))):
            k, path = pending.pop(0)
            pr = subprocess.Popen(
                ["timeout", str(timeout), "coqc", "-Q", str(THEORIES), "Acg", path.name],
                cwd=workdir,
                stdout=subprocess.PIPE,
                stderr=subprocess.STDOUT,
                text=True,
            )
            running.append((k, path, pr))
        k, path, pr = running.pop(0)
        out, _ = pr.communicate()
        logs.append(f"## {path.name}\n{out}")
        if pr.returncode != 0:
            raise HarnessError(f"cases file {path} did not compile:\n{out[-3000:]}")
        flat = " ".join(out.split())
        m = re.search(r"=\s*(\[[^\]]*\]|nil)\s*:\s*list nat", flat)
        if not m:
            raise HarnessError(f"cannot parse result of {path}:\n{out[-2000:]}")
        for num in re.findall(r"\d+", m.group(1)):
            bad.append(k + int(num))
    for k, path in files:
        for ext in (".vo", ".vok", ".vos", ".glob"):
            q = path.with_suffix(ext)
            if q.exists():
                q.unlink()
        aux = path.parent / ("." + path.stem + ".aux")
        if aux.exists():
            aux.unlink()
    return sorted(bad), "\n".join(logs)


def coq_eval(workdir: pathlib.Path, name: str, header: str, term: str, timeout: int = 300) -> str:
    """Evaluate one term with vm_compute and return Coq's raw answer (for replays)."""
    workdir.mkdir(parents=True, exist_ok=True)
    path = workdir / f"{name}.v"
    path.write_text(header + f"\nEval vm_compute in ({term}).\n")
    rc, out = coqc_file(path, timeout=timeout)
    for ext in (".vo", ".vok", ".vos", ".glob"):
        q = path.with_suffix(ext)
        if q.exists():
            q.unlink()
    return out.strip()


# ---------------------------------------------------------------------------------
# Known findings
# ---------------------------------------------------------------------------------
def load_known_findings() -> List[Dict[str, str]]:
    path = VERIF / "known_findings.txt"
    out = []
    if not path.exists():
        return out
    for line in path.read_text().splitlines():
        line = line.strip()
        if not line or line.startswith("#"):
            continue
        m = re.match(r"^finding:\s+property=(\S+)\s+key=(\S+)\s+(.*)$", line)
        if m:
            out.append({"kind": "finding", "property": m.group(1), "key": m.group(2),
                        "text": m.group(3)})
            continue
        m = re.match(r"^fixed:\s+property=(\S+)\s+(\S+)\s+(.*)$", line)
        if m:
            out.append({"kind": "fixed", "property": m.group(1), "commit": m.group(2),
                        "text": m.group(3), "key": ""})
    return out


# ---------------------------------------------------------------------------------
# The per-run context handed to a property module
# ---------------------------------------------------------------------------------
class Ctx:
    def __init__(self, prop_id: str, tier: str, seed: int):
        self.prop_id = prop_id
        self.tier = tier
        self.seed = seed
        self.rng = random.Random(f"{prop_id}:{seed}")
        self.work = WORK / prop_id
        self.t0 = time.time()
        # results
        self.impl_failures: List[Dict[str, Any]] = []   # property fails on the implementation
        self.corr_breaks: List[Dict[str, Any]] = []     # model != implementation
        self.proof_breaks: List[Dict[str, Any]] = []    # obligations that no longer check
        self.coverage: Dict[str, Any] = {
            "evaluations": 0,
            "distinct_nontrivial": 0,
            "traces_validated_against_impl": 0,
            "samples": [],
            "streams": {},
        }
        self.assumptions: List[str] = []
        self._distinct: set = set()

    # -- sizes ---------------------------------------------------------------
    def n(self, quick: int, thorough: int) -> int:
        return thorough if self.tier == "thorough" else quick

    @property
    def thorough(self) -> bool:
        return self.tier == "thorough"

    # -- recording -----------------------------------------------------------
    def count(self, stream: str, evaluations: int, nontrivial_keys: Iterable[Any] = (),
              validated: int = 0, **dist: Any) -> None:
        self.coverage["evaluations"] += evaluations
        self.coverage["traces_validated_against_impl"] += validated
        for k in nontrivial_keys:
            self._distinct.add((stream, k if isinstance(k, (str, int, tuple)) else repr(k)))
        st = self.coverage["streams"].setdefault(stream, {"evaluations": 0})
        st["evaluations"] += evaluations
        for k, v in dist.items():
            st[k] = v

    def sample(self, x: Any, limit: int = 12) -> None:
        if len(self.coverage["samples"]) < limit:
            self.coverage["samples"].append(x)

    def impl_failure(self, key: str, what: str, input_: Any, observed: Any = None,
                     stream: str = "", how: str = "") -> None:
        """The property itself fails on the implementation for a concrete input."""
        self.impl_failures.append({"key": key, "what": what, "input": input_,
                                   "observed": observed, "stream": stream, "how_to_run": how})

    def corr_break(self, stream: str, input_: Any, model: Any, impl: Any, note: str = "") -> None:
        self.corr_breaks.append({"stream": stream, "input": input_, "model_output": model,
                                 "impl_output": impl, "note": note})

    def proof_break(self, item: str, detail: str) -> None:
        self.proof_breaks.append({"theorem_or_item": item, "detail": detail[-6000:]})

    def assume(self, *texts: str) -> None:
        for t in texts:
            if t not in self.assumptions:
                self.assumptions.append(t)


def stable_key(*parts: Any) -> str:
    h = hashlib.sha256(json.dumps(parts, sort_keys=True, default=str).encode()).hexdigest()
    return h[:12]
