(** C18 — (i) the documented semantics of the VM instructions as a small-step relation,
    (ii) a model of the generated C++ matcher ([cpp/lib/_generate_revm.py]):
    [CharacterInRanges] (binary search), [ThreadList] (Spawn/Pop/Clear) and the two
    loops of [Match], on fuel.

    [clear_on_pop] selects the behaviour of [ThreadList::Pop]:
      true  = as shipped: [has_[program_counter] = false] on Pop;
      false = with the proposed fix (the flag stays set until [Clear]). *)
From Coq Require Import List NArith Bool Arith.
From Acg Require Import Base.Outcome Model.RevmTree Model.Revm.
Import ListNotations.

(** * (i) instruction semantics *)
Fixpoint in_rs (c : N) (rs : list (N * N)) : bool :=
  match rs with
  | [] => false
  | (a, b) :: r => (N.leb a c && N.leb c b) || in_rs c r
  end.

(** does the instruction consume character [c]? *)
Definition consumes (i : instr) (c : N) : bool :=
  match i with
  | IChar d => N.eqb c d
  | ISet rs => in_rs c rs
  | INotSet rs => negb (in_rs c rs)
  | IAny => true
  | _ => false
  end.

Definition config := (nat * nat)%type.   (* program counter, position in the word *)

Inductive step (p : list instr) (w : list N) : config -> config -> Prop :=
| step_consume pc i ins c :
    nth_error p pc = Some ins -> nth_error w i = Some c -> consumes ins c = true ->
    step p w (pc, i) (S pc, S i)
| step_jump pc i t :
    nth_error p pc = Some (IJump t) -> step p w (pc, i) (t, i)
| step_split1 pc i t1 t2 :
    nth_error p pc = Some (ISplit t1 t2) -> step p w (pc, i) (t1, i)
| step_split2 pc i t1 t2 :
    nth_error p pc = Some (ISplit t1 t2) -> step p w (pc, i) (t2, i)
| step_end pc i :
    nth_error p pc = Some IEnd -> i = length w -> step p w (pc, i) (S pc, i).

(** [steps n]: exactly [n] steps *)
Inductive steps (p : list instr) (w : list N) : nat -> config -> config -> Prop :=
| steps_O c : steps p w 0 c c
| steps_S n c1 c2 c3 : step p w c1 c2 -> steps p w n c2 c3 -> steps p w (S n) c1 c3.

(** a thread reaching [Match] accepts, whatever input is left *)
Definition vm_accepts (p : list instr) (w : list N) : Prop :=
  exists n pc i, steps p w n (0, 0) (pc, i) /\ nth_error p pc = Some IMatch.

(** * (ii) the C++ matcher *)

(** [CharacterInRanges]; [None] = an index outside the vector (undefined behaviour) *)
Fixpoint scan (rs : list (N * N)) (c : N) (b : nat) (k : nat) : option bool :=
  (* for (i = b; i < b + k; ++i) *)
  match k with
  | O => Some false
  | S k' =>
      match nth_error rs b with
      | None => None
      | Some (f, l) => if N.leb f c && N.leb c l then Some true else scan rs c (S b) k'
      end
  end.

Fixpoint bsearch (fuel : nat) (rs : list (N * N)) (c : N) (b e : nat) : option bool :=
  match fuel with
  | O => None
  | S fuel' =>
      if Nat.eqb b e then Some false
      else if Nat.leb (e - b) 3 then scan rs c b (e - b)
      else
        let m := Nat.div (b + e) 2 in
        match nth_error rs m with
        | None => None
        | Some (f, l) =>
            if N.ltb c f then bsearch fuel' rs c b m
            else if N.ltb l c then bsearch fuel' rs c m e
            else Some true
        end
  end.

Definition char_in_ranges (rs : list (N * N)) (c : N) : option bool :=
  match rs with
  | [] => Some false
  | [(f, l)] => Some (N.leb f c && N.leb c l)
  | _ => bsearch (S (length rs)) rs c 0 (length rs)
  end.

(** [ThreadList]: [has_] and [items_] (head of the list = back of the vector) *)
Record tlist : Type := mkTL { tl_has : list bool; tl_items : list nat }.

Fixpoint set_nth {A} (l : list A) (k : nat) (x : A) : list A :=
  match l, k with
  | [], _ => []
  | _ :: r, O => x :: r
  | y :: r, S k' => y :: set_nth r k' x
  end.

Definition tl_new (size : nat) : tlist := mkTL (repeat false size) [].

(** [None] = [has_[program_counter]] outside the vector (undefined behaviour) *)
Definition tl_spawn (t : tlist) (pc : nat) : option tlist :=
  match nth_error (tl_has t) pc with
  | None => None
  | Some true => Some t
  | Some false => Some (mkTL (set_nth (tl_has t) pc true) (pc :: tl_items t))
  end.

Definition tl_pop (clear_on_pop : bool) (t : tlist) : option (nat * tlist) :=
  match tl_items t with
  | [] => None
  | pc :: r =>
      Some (pc, mkTL (if clear_on_pop then set_nth (tl_has t) pc false else tl_has t) r)
  end.

Definition tl_clear (t : tlist) : tlist := mkTL (repeat false (length (tl_has t))) [].

(** result of one of the two [while (!clist->Empty())] loops *)
Inductive phase : Type :=
| Matched                     (* return true *)
| Drained (clist nlist : tlist)
| Undefined                   (* out-of-range access *)
| NoFuel.

Section Loop.
  Variable clear_on_pop : bool.
  Variable p : list instr.

  (** [ch = Some c]: the loop body inside [for (character : text)];
      [ch = None]: the final loop at the end of the input *)
  Fixpoint run_phase (fuel : nat) (ch : option N) (clist nlist : tlist) : phase :=
    match fuel with
    | O => NoFuel
    | S fuel' =>
        match tl_pop clear_on_pop clist with
        | None => Drained clist nlist
        | Some (pc, clist1) =>
            match nth_error p pc with
            | None => Undefined
            | Some ins =>
                match ins with
                | IMatch => Matched
                | IJump t =>
                    match tl_spawn clist1 t with
                    | Some c2 => run_phase fuel' ch c2 nlist
                    | None => Undefined
                    end
                | ISplit t1 t2 =>
                    match tl_spawn clist1 t1 with
                    | Some c2 =>
                        match tl_spawn c2 t2 with
                        | Some c3 => run_phase fuel' ch c3 nlist
                        | None => Undefined
                        end
                    | None => Undefined
                    end
                | IEnd =>
                    match ch with
                    | Some _ => run_phase fuel' ch clist1 nlist
                    | None =>
                        match tl_spawn clist1 (S pc) with
                        | Some c2 => run_phase fuel' ch c2 nlist
                        | None => Undefined
                        end
                    end
                | IChar _ | ISet _ | INotSet _ | IAny =>
                    match ch with
                    | None => run_phase fuel' ch clist1 nlist
                    | Some c =>
                        let hit :=
                          match ins with
                          | IChar d => Some (N.eqb c d)
                          | ISet rs => char_in_ranges rs c
                          | INotSet rs => option_map negb (char_in_ranges rs c)
                          | _ => Some true
                          end in
                        match hit with
                        | None => Undefined
                        | Some false => run_phase fuel' ch clist1 nlist
                        | Some true =>
                            match tl_spawn nlist (S pc) with
                            | Some n2 => run_phase fuel' ch clist1 n2
                            | None => Undefined
                            end
                        end
                    end
                end
            end
        end
    end.

  Fixpoint run_text (fuel : nat) (w : list N) (clist nlist : tlist) : res bool :=
    match w with
    | [] =>
        match run_phase fuel None clist nlist with
        | Matched => Ok true
        | Drained _ _ => Ok false
        | Undefined => Crash IndexError
        | NoFuel => Crash OutOfFuel
        end
    | c :: w' =>
        match run_phase fuel (Some c) clist nlist with
        | Matched => Ok true
        | Drained c1 n1 => run_text fuel w' n1 (tl_clear c1)   (* swap; nlist->Clear() *)
        | Undefined => Crash IndexError
        | NoFuel => Crash OutOfFuel
        end
    end.
End Loop.

(** the validation loop at the top of [Match] (throws [std::invalid_argument]) *)
Definition targets_ok (p : list instr) : bool :=
  forallb (fun i => match i with
                    | IJump t => Nat.ltb t (length p)
                    | ISplit a b => Nat.ltb a (length p) && Nat.ltb b (length p)
                    | _ => true
                    end) p.

(** the constructors of [InstructionSet]/[InstructionNotSet] throw on empty or
    unsorted/overlapping ranges *)
Fixpoint cpp_ranges_ok (rs : list (N * N)) : bool :=
  match rs with
  | [] => true
  | x :: r => match r with
              | [] => true
              | y :: _ => N.ltb (snd x) (fst y) && cpp_ranges_ok r
              end
  end.
Definition constructible (p : list instr) : bool :=
  forallb (fun i => match i with
                    | ISet rs | INotSet rs =>
                        negb (Nat.eqb (length rs) 0) && cpp_ranges_ok rs
                        && forallb (fun r => N.leb (fst r) (snd r)) rs
                    | _ => true
                    end) p.

(** [Match(program, text)]; every phase gets [fuel] iterations.
    [Crash ValueError] = a C++ exception ([std::invalid_argument]),
    [Crash IndexError] = undefined behaviour, [Crash OutOfFuel] = not finished. *)
Definition cpp_match (clear_on_pop : bool) (fuel : nat) (p : list instr) (w : list N)
  : res bool :=
  match p with
  | [] => Ok false
  | _ =>
      if negb (constructible p) then Crash ValueError
      else if negb (targets_ok p) then Crash ValueError
      else
        match tl_spawn (tl_new (length p)) 0 with
        | Some c0 => run_text clear_on_pop p fuel w c0 (tl_new (length p))
        | None => Crash IndexError
        end
  end.

(** enough for every phase of the matcher when [Pop] keeps the flag: every pc is popped
    at most once *)
Definition enough_fuel (p : list instr) : nat := S (S (length p)).

(** fuel per phase used for the matcher as shipped ([Pop] clears the flag): a pc can be
    popped once per epsilon-path, so there is no bound in terms of the program size *)
Definition shipped_fuel : nat := 200 * 100.

(** ** epsilon-cycles: [Jump], [Split] and (at the end of the input) [End] do not consume *)
Definition eps_succ (p : list instr) (pc : nat) : list nat :=
  match nth_error p pc with
  | Some (IJump t) => [t]
  | Some (ISplit a b) => [a; b]
  | Some IEnd => [S pc]
  | _ => []
  end.

Fixpoint eps_reach (p : list instr) (fuel : nat) (frontier seen : list nat) : list nat :=
  match fuel with
  | O => seen
  | S fuel' =>
      let next := flat_map (eps_succ p) frontier in
      let fresh := add_all next [] in
      let fresh := filter (fun x => negb (mem_nat x seen)) fresh in
      match fresh with
      | [] => seen
      | _ => eps_reach p fuel' fresh (seen ++ fresh)
      end
  end.

(** some pc reaches itself by one or more epsilon-steps *)
Definition eps_cyclic (p : list instr) : bool :=
  existsb (fun pc => mem_nat pc (eps_reach p (S (length p)) [pc] []))
          (seq 0 (length p)).
