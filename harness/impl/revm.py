"""Adapter for C18, run with the interpreter and PYTHONPATH of the tree under test.

JSON on stdin: {"mode": "translate", "patterns": [...]}
            or {"mode": "cpp", "patterns": [...]}.

mode translate -> per pattern
    {"parse": "ok" | "err" | "crash:<Exc>",
     "tree": <json tree of the parsed regex> (when parse == ok),
     "fe": true/false/"crash:<Exc>"   (the real front-end check
           intermediate._translate._verify_patterns_anchored_at_start_and_end),
     "prog": [[instr, label], ...] | {"exc": <Exc>},   (revm.translate, linearised)
     "gen": "ok" | <Exc>}   (cpp/lib/_generate_pattern._generate_program_definition_for_regex:
           emission of the C++ text of the program, UTF-32 and UTF-16 variants)
mode cpp -> {"revm_hpp", "revm_cpp", "common_hpp", "common_cpp", "ns",
             "programs": [code | {"exc":..}]}   produced by the real generator functions
"""
import json
import sys
import types

from aas_core_codegen.parse import retree
from aas_core_codegen.intermediate import revm
from aas_core_codegen.intermediate import _translate as intermediate_translate
from aas_core_codegen.intermediate import _types as intermediate_types


def tree_json(node):
    if isinstance(node, retree.Regex):
        return tree_json(node.union)
    if isinstance(node, retree.UnionExpr):
        return {"k": "union", "us": [tree_json(u) for u in node.uniates]}
    if isinstance(node, retree.Concatenation):
        return {"k": "concat", "ts": [tree_json(t) for t in node.concatenants]}
    if isinstance(node, retree.Term):
        q = node.quantifier
        if not isinstance(node.value, retree.Node):
            raise TypeError("formatted value in a plain-string pattern")
        return {
            "k": "term",
            "v": tree_json(node.value),
            "q": None
            if q is None
            else {"ng": bool(q.non_greedy), "min": q.minimum, "max": q.maximum},
        }
    if isinstance(node, retree.Symbol):
        return {"k": "sym", "s": node.kind.name}
    if isinstance(node, retree.Char):
        return {"k": "char", "c": ord(node.character)}
    if isinstance(node, retree.CharSet):
        return {
            "k": "set",
            "compl": bool(node.complementing),
            "rs": [
                [ord(r.start.character), None if r.end is None else ord(r.end.character)]
                for r in node.ranges
            ],
        }
    if isinstance(node, retree.Group):
        return {"k": "group", "u": tree_json(node.union)}
    raise TypeError(f"unknown retree node {type(node).__name__}")


def instr_json(i):
    if isinstance(i, revm.InstructionChar):
        return {"k": "char", "c": ord(i.character)}
    if isinstance(i, (revm.InstructionSet, revm.InstructionNotSet)):
        return {
            "k": "set" if isinstance(i, revm.InstructionSet) else "notset",
            "rs": [[ord(r.first), ord(r.last)] for r in i.ranges],
        }
    if isinstance(i, revm.InstructionAny):
        return {"k": "any"}
    if isinstance(i, revm.InstructionMatch):
        return {"k": "match"}
    if isinstance(i, revm.InstructionJump):
        return {"k": "jump", "t": i.target}
    if isinstance(i, revm.InstructionSplit):
        return {"k": "split", "a": i.first_target, "b": i.second_target}
    if isinstance(i, revm.InstructionEnd):
        return {"k": "end"}
    raise TypeError(f"unknown instruction {type(i).__name__}")


def linearize(node_or_leaf, out):
    if isinstance(node_or_leaf, revm.Leaf):
        out.append([instr_json(node_or_leaf.instruction), node_or_leaf.label])
    else:
        for child in node_or_leaf.children:
            linearize(child, out)


def front_end_accepts(pattern):
    """Call the real front-end check on a one-function symbol table."""
    verification = object.__new__(intermediate_types.PatternVerification)
    verification.__dict__["pattern"] = pattern
    verification.__dict__["name"] = "match_something"
    verification.__dict__["parsed"] = types.SimpleNamespace(node=None)
    table = types.SimpleNamespace(verification_functions=[verification])
    errors = intermediate_translate._verify_patterns_anchored_at_start_and_end(
        symbol_table=table
    )
    return len(errors) == 0


def one(pattern):
    res = {}
    try:
        regex, error = retree.parse([pattern])
    except BaseException as e:  # noqa
        return {"parse": f"crash:{type(e).__name__}"}
    if error is not None:
        res["parse"] = "err"
    else:
        res["parse"] = "ok"
        res["tree"] = tree_json(regex)
    try:
        res["fe"] = front_end_accepts(pattern)
    except BaseException as e:  # noqa
        res["fe"] = f"crash:{type(e).__name__}"
    if error is None:
        try:
            program = revm.translate(regex)
            out = []
            linearize(program, out)
            res["prog"] = out
        except BaseException as e:  # noqa
            res["prog"] = {"exc": type(e).__name__}
        try:
            from aas_core_codegen.cpp.lib import _generate_pattern

            # NOTE: the generator mutates the regex (UTF-16 fix), so parse afresh.
            regex2, _ = retree.parse([pattern])
            _generate_pattern._generate_program_definition_for_regex(regex=regex2)
            res["gen"] = "ok"
        except BaseException as e:  # noqa
            res["gen"] = type(e).__name__
    return res


def cpp(patterns):
    from aas_core_codegen.common import Stripped
    from aas_core_codegen.cpp.lib import _generate_revm, _generate_common, _generate_pattern

    ns = Stripped("verif::lib")
    out = {
        "ns": ns,
        "revm_hpp": _generate_revm.generate_header(library_namespace=ns),
        "revm_cpp": _generate_revm.generate_implementation(library_namespace=ns),
        "common_hpp": _generate_common.generate_header(library_namespace=ns),
        "common_cpp": _generate_common.generate_implementation(library_namespace=ns),
        "programs": [],
    }
    for pattern in patterns:
        try:
            regex, error = retree.parse([pattern])
            if error is not None:
                out["programs"].append({"exc": "parse-error"})
                continue
            code = _generate_pattern._generate_program_definition_for_regex(regex=regex)
            out["programs"].append(str(code))
        except BaseException as e:  # noqa
            out["programs"].append({"exc": type(e).__name__})
    return out


def main():
    req = json.load(sys.stdin)
    if req["mode"] == "translate":
        json.dump([one(p) for p in req["patterns"]], sys.stdout)
    elif req["mode"] == "cpp":
        json.dump(cpp(req["patterns"]), sys.stdout)
    else:
        raise SystemExit("unknown mode")


main()
