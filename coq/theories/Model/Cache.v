(** Model of the model cache of [run.load_model] (sequential view) — C23, C24.

    The cache directory [<tmp>/aas-core-codegen-<version>/] is a finite map from
    abstract paths to contents (association list). Third-party behaviour is a Section
    variable: [parse] (the whole front end: source_to_atok ... intermediate.translate),
    [sha] (hex digest of sha256), [pickle]/[unpickle], [uuid] (the i-th value drawn
    from uuid4). Their hypotheses are listed in [Proofs/CacheFacts.v].

    Executable definitions only; no proofs here. The model is of the PATCHED code
    (work/fixes/C23-*.patch): the flag is passed through, and nothing of the temporary
    directory is looked at without the flag. *)
From Coq Require Import List NArith Bool Arith.
From Coq Require Strings.String.
Import Coq.Strings.String.StringSyntax.
From Acg Require Import Base.Str.
Import ListNotations.

(** * Paths in the cache directory and their file names *)

Inductive path : Type :=
| PCache (h : text)            (* model-<h>.pickle *)
| PTmp (h : text) (u : text).  (* model-<h>.<u>.tmp  = cache_path.with_suffix(f".{uuid}.tmp") *)

Definition path_eqb (a b : path) : bool :=
  match a, b with
  | PCache h, PCache h' => text_eqb h h'
  | PTmp h u, PTmp h' u' => text_eqb h h' && text_eqb u u'
  | _, _ => false
  end.

Definition render (p : path) : text :=
  match p with
  | PCache h => s2l "model-" ++ h ++ s2l ".pickle"
  | PTmp h u => s2l "model-" ++ h ++ s2l "." ++ u ++ s2l ".tmp"
  end.

Definition is_tmp (p : path) : bool :=
  match p with PTmp _ _ => true | PCache _ => false end.

(** * File-system map *)

Definition bytes := list N.
Definition fmap := list (path * bytes).

Fixpoint lookup (p : path) (f : fmap) : option bytes :=
  match f with
  | [] => None
  | (q, c) :: r => if path_eqb p q then Some c else lookup p r
  end.

Fixpoint fremove (p : path) (f : fmap) : fmap :=
  match f with
  | [] => []
  | (q, c) :: r => if path_eqb p q then fremove p r else (q, c) :: fremove p r
  end.

Definition fset (p : path) (c : bytes) (f : fmap) : fmap := (p, c) :: fremove p f.

(** The world outside the processes: does the cache directory exist, what files does
    it hold, and how many uuids have been drawn so far. *)
Record world : Type := World { cdir : bool; files : fmap; next : nat }.

Definition empty_world : world := World false [] 0.

Definition strip_tmps (f : fmap) : fmap := filter (fun pc => negb (is_tmp (fst pc))) f.

(** * Results and file-system events *)

Inductive ckind : Type :=
| UnpicklingError      (* pickle.load raised / the assert isinstance failed *)
| FileNotFound         (* an open/rename found no file or no directory *)
| ParseCrash           (* an exception escaping the front end (C01's concern) *)
| Injected.            (* fault injected by a schedule ([Fail]) *)

Inductive result (M E : Type) : Type :=
| ROk (m : M)
| RErr (e : E)
| RCrash (k : ckind).
Arguments ROk {M E} m.
Arguments RErr {M E} e.
Arguments RCrash {M E} k.

Inductive fsev : Type :=
| EvExists (p : path)
| EvOpenR (p : path)
| EvReadAll (p : path)
| EvMkdir
| EvOpenW (p : path)
| EvWrite (p : path)
| EvClose (p : path)
| EvRename (a b : path)
| EvUnlink (p : path).

Section Cache.
  Variables M E : Type.
  Variable parse : text -> result M E.
  Variable sha : text -> text.
  Variable pickle : M -> bytes.
  Variable unpickle : bytes -> option M.
  Variable uuid : nat -> text.

  Definition load_result (c : bytes) : result M E :=
    match unpickle c with
    | Some m => ROk m
    | None => RCrash UnpicklingError
    end.

  (** [run.load_model(model_path, cache_model)] where [t] is the text of the model
      file. Returns the result, the new world and the file-system events on the cache
      directory in program order. *)
  Definition load_model (flag : bool) (t : text) (w : world)
    : result M E * world * list fsev :=
    if negb flag then (parse t, w, [])
    else
      let cp := PCache (sha t) in
      match lookup cp (files w) with
      | Some c =>
          (load_result c, w, [EvExists cp; EvOpenR cp; EvReadAll cp])
      | None =>
          match parse t with
          | ROk m =>
              let tmp := PTmp (sha t) (uuid (next w)) in
              let f1 := fset tmp (pickle m) (files w) in           (* open wb; dump; close *)
              let f2 := fset cp (pickle m) (fremove tmp f1) in     (* rename: atomic replace *)
              let f3 := fremove tmp f2 in                          (* finally: unlink(missing_ok) *)
              (ROk m, World true f3 (S (next w)),
               [EvExists cp; EvMkdir; EvOpenW tmp; EvWrite tmp; EvClose tmp;
                EvRename tmp cp; EvUnlink tmp])
          | r => (r, w, [EvExists cp])
          end
      end.

  (** A history of runs [(flag, text)]; an edit of the model file between two runs is
      simply a different text in the next run. *)
  Fixpoint run_history (hist : list (bool * text)) (w : world)
    : list (result M E * list fsev) * world :=
    match hist with
    | [] => ([], w)
    | (flag, t) :: rest =>
        let '(r, w1, tr) := load_model flag t w in
        let '(rs, w2) := run_history rest w1 in
        ((r, tr) :: rs, w2)
    end.

  Definition is_hit (tr : list fsev) : bool :=
    existsb (fun e => match e with EvOpenR _ => true | _ => false end) tr.
End Cache.
