(** Text as lists of Unicode code points (Python [str] admits every code point
    0..0x10FFFF including surrogates, so does [text]). Executable definitions only. *)
From Coq Require Import List NArith ZArith Bool Ascii String.
Import ListNotations.
Open Scope N_scope.

Definition text := list N.

(** ASCII/byte-wise injection of Coq string literals, for constants in models. *)
Fixpoint s2l (s : string) : text :=
  match s with
  | EmptyString => []
  | String a r => N_of_ascii a :: s2l r
  end.

Arguments s2l s%string_scope.

Fixpoint text_eqb (a b : text) : bool :=
  match a, b with
  | [], [] => true
  | x :: a', y :: b' => N.eqb x y && text_eqb a' b'
  | _, _ => false
  end.

Fixpoint list_eqb {A} (eqb : A -> A -> bool) (a b : list A) : bool :=
  match a, b with
  | [], [] => true
  | x :: a', y :: b' => eqb x y && list_eqb eqb a' b'
  | _, _ => false
  end.

Definition option_eqb {A} (eqb : A -> A -> bool) (a b : option A) : bool :=
  match a, b with
  | None, None => true
  | Some x, Some y => eqb x y
  | _, _ => false
  end.

(** Python [s.split(sep)] for a one-character separator: never empty. *)
Fixpoint split_on (c : N) (t : text) : list text :=
  match t with
  | [] => [[]]
  | x :: r =>
      if N.eqb x c then [] :: split_on c r
      else match split_on c r with
           | h :: tl => (x :: h) :: tl
           | [] => [[x]]     (* unreachable: split_on is never empty *)
           end
  end.

(** Python [sep.join(parts)]. *)
Fixpoint join (sep : text) (parts : list text) : text :=
  match parts with
  | [] => []
  | [p] => p
  | p :: ps => p ++ sep ++ join sep ps
  end.

Fixpoint starts_with (p t : text) : bool :=
  match p, t with
  | [], _ => true
  | x :: p', y :: t' => N.eqb x y && starts_with p' t'
  | _ :: _, [] => false
  end.

Definition ends_with (p t : text) : bool := starts_with (rev p) (rev t).

Fixpoint mem_text (x : text) (l : list text) : bool :=
  match l with
  | [] => false
  | y :: r => text_eqb x y || mem_text x r
  end.

Fixpoint memN (x : N) (l : list N) : bool :=
  match l with
  | [] => false
  | y :: r => N.eqb x y || memN x r
  end.

Definition NL : N := 10.
Definition CR : N := 13.
Definition SP : N := 32.

Definition zlen {A} (l : list A) : Z := Z.of_nat (List.length l).

(** Indices (as a list of nat) where two lists of results differ; used by the
    correspondence runner so that [coqc] prints only a list of numbers. *)
Fixpoint mismatches_from {A} (eqb : A -> A -> bool) (i : nat) (a b : list A) : list nat :=
  match a, b with
  | [], [] => []
  | x :: a', y :: b' =>
      if eqb x y then mismatches_from eqb (S i) a' b'
      else i :: mismatches_from eqb (S i) a' b'
  | _, _ => [i]
  end.
Definition mismatches {A} (eqb : A -> A -> bool) (a b : list A) : list nat :=
  mismatches_from eqb 0 a b.
