"""Shared helpers of the cache adapters (run with the repository's interpreter).

* fingerprint(obj): canonical hash of an object graph (symbol table + atok): structure,
  atoms, sharing; the derived `*_id_set` attributes are translated from id() values to
  the canonical indices of the objects they denote (an id that denotes no object of the
  graph is reported as DANGLING) — so two graphs have equal fingerprints iff they answer
  every attribute / membership query alike.
* run_child(fn): run fn in a forked child (fresh tempfile state, own audit hook) and
  return what it reports.
"""
import enum
import gc
import hashlib
import json
import os
import pathlib
import re
import sys
import tempfile
import traceback
import types

ATOMS = (str, bytes, bytearray, int, float, bool, type(None), complex)


class _IdSet:
    def __init__(self, ids):
        self.ids = ids


def _children(o):
    """Deterministic list of (label, child) of a container/object; None for atoms."""
    if isinstance(o, ATOMS):
        return None
    if isinstance(o, enum.Enum):
        return None
    if isinstance(o, (type, types.FunctionType, types.BuiltinFunctionType, types.ModuleType,
                      types.MethodType, re.Pattern, pathlib.PurePath, _IdSet)):
        return None
    if isinstance(o, (list, tuple)):
        return [(str(i), v) for i, v in enumerate(o)]
    if isinstance(o, dict):
        out = []
        for i, (k, v) in enumerate(o.items()):
            out.append((f"k{i}", k))
            out.append((f"v{i}", v))
        return out
    if isinstance(o, (set, frozenset)):
        if all(isinstance(x, (str, int)) for x in o):
            return [(str(i), v) for i, v in enumerate(sorted(o, key=lambda x: (str(type(x)), x)))]
        return [(str(i), v) for i, v in enumerate(sorted(o, key=lambda x: repr(type(x))))]
    items = []
    d = getattr(o, "__dict__", None)
    if isinstance(d, dict):
        for k in sorted(d):
            v = d[k]
            if "id_set" in k and isinstance(v, (set, frozenset)) and all(isinstance(x, int) for x in v):
                v = _IdSet(v)
            items.append((k, v))
    for cls in type(o).__mro__:
        for s in getattr(cls, "__slots__", ()) or ():
            if isinstance(s, str) and hasattr(o, s) and s not in ("__dict__", "__weakref__"):
                items.append((s, getattr(o, s)))
    return items


def _atom(o, index):
    if isinstance(o, _IdSet):
        idx = []
        for i in o.ids:
            idx.append(index.get(i, "DANGLING"))
        return "idset:" + ",".join(sorted(str(x) for x in idx))
    if isinstance(o, enum.Enum):
        return f"enum:{type(o).__module__}.{type(o).__qualname__}.{o.name}"
    if isinstance(o, (type, types.FunctionType, types.BuiltinFunctionType)):
        return f"named:{getattr(o, '__module__', '')}.{getattr(o, '__qualname__', repr(o))}"
    if isinstance(o, types.ModuleType):
        return f"module:{o.__name__}"
    if isinstance(o, re.Pattern):
        return f"re:{o.pattern!r}:{o.flags}"
    if isinstance(o, float):
        return f"float:{o!r}"
    return f"{type(o).__name__}:{o!r}"


def fingerprint(root):
    sys.setrecursionlimit(max(sys.getrecursionlimit(), 10000))
    index = {}
    order = []
    wrappers = {}          # (id(parent), label) -> _IdSet  (keep identity stable between passes)
    stack = [root]
    # pass 1: canonical indices in DFS preorder (explicit stack, children in reverse)
    while stack:
        o = stack.pop()
        ch = _children(o)
        if ch is None:
            continue
        if id(o) in index:
            continue
        index[id(o)] = len(order)
        order.append((o, ch))
        for _, c in reversed(ch):
            if _children(c) is not None and id(c) not in index:
                stack.append(c)
    # pass 2: one flat record per object
    h = hashlib.sha256()
    dangling = 0
    for o, ch in order:
        h.update(f"\n@{index[id(o)]}:{type(o).__module__}.{type(o).__qualname__}:".encode())
        for label, c in ch:
            if isinstance(c, _IdSet) or _children(c) is None:
                a = _atom(c, index)
                if "DANGLING" in a:
                    dangling += 1
                h.update(f"{label}={a};".encode("utf-8", "surrogatepass"))
            else:
                h.update(f"{label}=#{index[id(c)]};".encode())
    return h.hexdigest()[:24] + (f"!dangling{dangling}" if dangling else ""), len(order)


AUDIT = {"open", "os.mkdir", "os.rename", "os.remove", "os.rmdir", "os.truncate", "os.link",
         "os.symlink", "os.chmod", "os.chown", "os.utime", "shutil.rmtree", "shutil.move",
         "shutil.copyfile", "shutil.copytree", "tempfile.mkstemp", "tempfile.mkdtemp",
         "os.listdir", "os.scandir"}


def install_audit(events):
    def hook(name, args):
        if name in AUDIT:
            try:
                if name == "open":
                    p, mode, flags = args
                    w = bool(isinstance(flags, int) and flags & (os.O_WRONLY | os.O_RDWR | os.O_CREAT
                                                                 | os.O_TRUNC | os.O_APPEND))
                    if isinstance(p, int):
                        return
                    events.append(["open_w" if w else "open_r", os.path.abspath(os.fsdecode(p))])
                else:
                    ps = []
                    for a in args[:2]:
                        if isinstance(a, (str, bytes, os.PathLike)):
                            ps.append(os.path.abspath(os.fsdecode(a)))
                    events.append([name] + ps)
            except Exception as e:  # never let the observer change the run
                events.append(["hook-error", repr(e)])
    sys.addaudithook(hook)


def run_child(fn, tmpdir=None, timeout=300):
    """fork; in the child reset tempfile's cached directory, point TMPDIR at `tmpdir`,
    run fn() -> JSON-able; returns {"exit": status, "data": ...}."""
    r, w = os.pipe()
    sys.stdout.flush()
    sys.stderr.flush()
    gc.freeze()
    pid = os.fork()
    if pid == 0:
        code = 0
        try:
            gc.disable()
            os.close(r)
            if tmpdir is not None:
                os.environ["TMPDIR"] = str(tmpdir)
            tempfile.tempdir = None
            data = fn()
            with os.fdopen(w, "w") as f:
                json.dump(data, f)
        except BaseException:  # noqa
            traceback.print_exc()
            code = 70
        finally:
            os._exit(code)
    os.close(w)
    with os.fdopen(r) as f:
        raw = f.read()
    _, status = os.waitpid(pid, 0)
    code = os.waitstatus_to_exitcode(status)
    data = None
    if raw:
        try:
            data = json.loads(raw)
        except ValueError:
            data = None
    return {"exit": code, "data": data}


def result_of(call):
    """Run load_model-like `call()` and classify its outcome."""
    try:
        res, err = call()
    except BaseException as e:  # noqa
        return {"class": "exc", "type": type(e).__name__, "msg": str(e)[:300]}
    if err is not None:
        return {"class": "err", "msg": err}
    fp, n = fingerprint(res)
    return {"class": "ok", "fp": fp, "objects": n}


def list_tmp(tmpdir):
    """Listing of TMPDIR: {relative path: size} (directories end with /)."""
    out = {}
    base = pathlib.Path(tmpdir)
    for p in sorted(base.rglob("*")):
        rel = str(p.relative_to(base))
        if p.is_dir():
            out[rel + "/"] = 0
        else:
            out[rel] = p.stat().st_size
    return out
