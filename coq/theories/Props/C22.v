(** C22 — Generation is deterministic (order-normalisation half; see docs/C22.md).

    The Gallina models are functions, so determinism of a model is reflexivity; what
    carries content is that the order-normalising steps of the generators erase the
    order in which a hash table, a set or the file system happened to list their
    input. These theorems hold for ALL lists. *)
From Coq Require Import List NArith Bool Permutation Sorted.
From Coq Require Strings.String.
Import Coq.Strings.String.StringSyntax.
From Acg Require Import Base.Str Model.Sorting Proofs.SortingFacts.
Import ListNotations.

(** [sorted(xs)] on strings does not depend on the order of [xs] (duplicates allowed):
    [sorted(literal.value ...)], [sorted(definitions_mapping.keys())], sorted parents. *)
Theorem C22_sorted_strings_perm :
  forall l l' : list text, Permutation l l' -> sort_text l = sort_text l'.
Proof. exact sort_text_perm. Qed.
Print Assumptions C22_sorted_strings_perm.

(** Stable sorting by a string key erases the input order when keys are unique
    ([element_list.sort(key=name)] in the XSD generator, definitions by name). *)
Theorem C22_sort_by_key_perm :
  forall (A : Type) (key : A -> text) (l l' : list A),
    NoDup (map key l) -> Permutation l l' -> sort_by_key key l = sort_by_key key l'.
Proof. exact @sort_by_key_perm. Qed.
Print Assumptions C22_sort_by_key_perm.

(** ... and it does NOT when two elements share a key: the stable sort then keeps the
    input order (so such call sites rely on a deterministic input order). *)
Theorem C22_sort_by_key_dup_refuted :
  exists (l l' : list (text * nat)),
    Permutation l l' /\ sort_by_key fst l <> sort_by_key fst l'.
Proof.
  exists [(s2l "a", 1%nat); (s2l "a", 2%nat)], [(s2l "a", 2%nat); (s2l "a", 1%nat)].
  split; [apply perm_swap|vm_compute; discriminate].
Qed.
Print Assumptions C22_sort_by_key_dup_refuted.

(** The result is sorted and a permutation of the input: nothing is lost. *)
Theorem C22_sorted_is_sorted_perm :
  forall l : list text,
    StronglySorted (fun a b => text_leb a b = true) (sort_text l) /\ Permutation l (sort_text l).
Proof. intros l. split; [apply sort_text_sorted|apply sort_text_is_perm]. Qed.
Print Assumptions C22_sorted_is_sorted_perm.

Example C22_nonvacuous :
  sort_text [s2l "b"; s2l "ab"; s2l "a"; s2l "B"; s2l ""; s2l "ab"]
  = [s2l ""; s2l "B"; s2l "a"; s2l "ab"; s2l "ab"; s2l "b"].
Proof. vm_compute. reflexivity. Qed.
Print Assumptions C22_nonvacuous.
