"""Adapter for C01/C02: run the real CLI entry points in-process on many jobs and
classify the outcome of each job (wraps ``cli.py`` of the shared infrastructure).

JSON stdin -> JSON stdout; run through ``lib.impl_call("crashhunt.py", payload)`` (fresh
subprocess, PYTHONPATH = repository under test, fresh empty TMPDIR). Every job gets its
own empty ``tempfile.gettempdir()`` (the CLI caches parsed models there).

Input ``{"jobs": [job, ...]}`` with ``job`` as in ``cli.py`` plus

* ``"model_hex"``: raw bytes of the meta-model file (instead of ``model_text``), so that
  files which are not valid UTF-8 (or contain lone surrogates) can be materialised;
* ``"recursion_limit"``: optional ``sys.setrecursionlimit`` for this job only.

Output per job::

    {"rc": int|null, "stderr_len": int, "stderr": first 600 chars, "stdout_len": int,
     "n_files": int,
     "exc": null | {"class":..., "message": first 400 chars, "site": "file.py:function",
                    "contract": "file.py:function"|null, "frames": [last repo frames],
                    "in_front_end": bool, "traceback": tail}}

``site`` is the innermost frame that lies in the repository (``aas_core_codegen/``); for a
``RecursionError`` it is the most frequent repository frame of the traceback tail.
"""
import collections
import json
import os
import pathlib
import re
import shutil
import signal
import sys
import tempfile

sys.path.insert(0, str(pathlib.Path(__file__).resolve().parent))
import cli  # noqa: E402  (shared runner)

_FRAME_RE = re.compile(r'File "([^"]+)", line (\d+), in (\S+)')
_CONTRACT_RE = re.compile(r"^File (\S+), line \d+ in ([^:\s]+):", re.M)


def _rel(path: str) -> str:
    i = path.rfind("aas_core_codegen/")
    return path[i + len("aas_core_codegen/"):] if i >= 0 else path


def classify(exception):
    tb = exception.get("traceback") or ""
    frames = [(m.group(1), m.group(3)) for m in _FRAME_RE.finditer(tb)]
    repo_frames = [(_rel(f), fn) for f, fn in frames if "aas_core_codegen/" in f]
    cls = exception["class"]
    site = "?"
    if repo_frames:
        if cls == "RecursionError":
            cnt = collections.Counter(repo_frames)
            f, fn = cnt.most_common(1)[0][0]
        else:
            f, fn = repo_frames[-1]
        site = f"{f}:{fn}"
    contract = None
    if cls == "ViolationError":
        m = _CONTRACT_RE.search(exception.get("message") or "")
        if m:
            contract = f"{_rel(m.group(1))}:{m.group(2)}"
    in_front = any(f == "run.py" and fn == "load_model" for f, fn in repo_frames)
    return {
        "class": cls,
        "message": (exception.get("message") or "")[:400],
        "site": site,
        "contract": contract,
        "frames": [f"{f}:{fn}" for f, fn in repo_frames[-6:]],
        "in_front_end": in_front,
        "traceback": tb[-2500:],
    }


def key_of(out):
    """Stable key of a failing outcome (None when the outcome obeys the contract)."""
    if out.get("timeout"):
        return None
    if out["exc"] is not None:
        site = "recursion" if out["exc"]["class"] == "RecursionError" else out["exc"]["site"]
        return f'{out["exc"]["class"]}@{site}'
    if out["rc"] == 0:
        return None
    if isinstance(out["rc"], int) and out["rc"] != 0 and out["stderr_len"] > 0:
        return None
    return f'contract:rc={out["rc"]},stderr_empty={out["stderr_len"] == 0}'


def shrink_jobs(items, base):
    """In-process delta debugging: each item is a job plus the ``key`` to preserve."""
    sys.path.insert(0, str(pathlib.Path(__file__).resolve().parent.parent.parent))
    from harness.gen import crashhunt as ch

    results = []
    counter = [0]
    for item in items:
        job = dict(item["job"])
        want = item["key"]

        def failing(text, job=job, want=want):
            counter[0] += 1
            j = dict(job)
            j["model_text"] = text
            j.pop("model_hex", None)
            try:
                text.encode("utf-8")
            except UnicodeEncodeError:
                j["model_text"] = None
                j["model_hex"] = text.encode("utf-8", "surrogatepass").hex()
            return key_of(run_one(j, base, f"s{counter[0]}")) == want

        text = job.get("model_text")
        if text is None:
            results.append({"text": None, "tests": 0})
            continue
        before = counter[0]
        small = ch.shrink(text, failing, max_tests=int(item.get("max_tests", 200)))
        results.append({"text": small, "tests": counter[0] - before})
    return results


class _JobTimeout(BaseException):
    """Raised by the alarm: the job ran longer than the per-job limit."""


def _on_alarm(signum, frame):
    raise _JobTimeout()


def run_one(job, base, tag):
    original_tmp = tempfile.gettempdir()
    default_limit = sys.getrecursionlimit()
    workdir = base / f"job{tag}"
    workdir.mkdir(parents=True, exist_ok=True)
    job = dict(job)
    if job.get("model_hex") is not None:
        (workdir / "meta_model.py").write_bytes(bytes.fromhex(job["model_hex"]))
        job["model_text"] = None
    job.setdefault("files", "hash")
    job_tmp = base / f"tmp{tag}"
    job_tmp.mkdir(parents=True, exist_ok=True)
    tempfile.tempdir = str(job_tmp)
    if job.get("recursion_limit"):
        sys.setrecursionlimit(int(job["recursion_limit"]))
    limit = int(job.get("time_limit", 240))
    signal.signal(signal.SIGALRM, _on_alarm)
    signal.alarm(limit)
    try:
        res = cli.run_job(job, workdir, job["files"])
    except _JobTimeout:
        res = {"rc": None, "stdout": "", "stderr": "", "files": {},
               "exception": {"class": "_JobTimeout", "message": f"job exceeded {limit} s", "traceback": ""}}
    finally:
        signal.alarm(0)
        sys.setrecursionlimit(default_limit)
        tempfile.tempdir = original_tmp
    shutil.rmtree(job_tmp, ignore_errors=True)
    shutil.rmtree(workdir, ignore_errors=True)
    exc = res["exception"]
    if exc is not None and exc["class"] == "SystemExit":
        exc = None
    if exc is not None and exc["class"] == "_JobTimeout":
        # running time is not part of the property: reported as its own outcome, not a crash
        return {"rc": None, "stderr_len": 0, "stderr": "", "stdout_len": 0, "n_files": 0, "exc": None,
                "timeout": True}
    return {
        "rc": res["rc"],
        "stderr_len": len(res["stderr"]),
        "stderr": res["stderr"][:600],
        "stdout_len": len(res["stdout"]),
        "n_files": len(res["files"]),
        "exc": None if exc is None else classify(exc),
    }


def main():
    payload = json.load(sys.stdin)
    if isinstance(payload, list):
        payload = {"jobs": payload}
    if "shrink" in payload:
        base = pathlib.Path(tempfile.mkdtemp(prefix="crashhunt-", dir=os.getcwd()))
        try:
            json.dump(shrink_jobs(payload["shrink"], base), sys.stdout)
        finally:
            shutil.rmtree(base, ignore_errors=True)
        return
    base = pathlib.Path(tempfile.mkdtemp(prefix="crashhunt-", dir=os.getcwd()))
    out = []
    try:
        for i, job in enumerate(payload["jobs"]):
            res = run_one(job, base, str(i))
            res["key"] = key_of(res)
            out.append(res)
    finally:
        shutil.rmtree(base, ignore_errors=True)
    json.dump(out, sys.stdout)


if __name__ == "__main__":
    main()
