(** C03 — Exit status and error-report contract.

    Theorems over [Model/Report.v] ([run.write_error_report], [textwrap.indent]) and
    over the control-flow skeletons of [main.execute] and of every
    [<target>/main.py:execute], regenerated from the sources on every run
    ([Gen/GenSkeletons.v]). Only statements, [exact]s and [Print Assumptions]. *)
From Coq Require Import List NArith ZArith Bool.
From Acg Require Import Base.Str Base.Outcome Model.Report Model.Skeleton
  Proofs.ReportFacts Proofs.SkeletonFacts Gen.GenSkeletons Gen.GenPyWhitespace.
Import ListNotations.

(** Layout of a report: headline, colon, line break, then one bullet per error, each
    starting with "* " and ending with a line break; the preconditions held. PARTIAL:
    that every continuation line of a bullet is indented by two blanks (or is blank) is
    validated by the correspondence stream and the CLI oracle, not proved. *)
Theorem C03_report_layout_partial :
  forall (lb ws : list N) (m : text) (errs : list text) (out : text),
  write_error_report lb ws m errs = Ok out ->
  out = (m ++ [COLON; NL] ++ concat (map (bullet lb ws) errs))%list
  /\ message_ok m = true
  /\ forall e, In e errs ->
       error_ok e = true /\ exists body, bullet lb ws e = ([STAR; SP] ++ body ++ [NL])%list.
Proof. exact report_layout. Qed.
Print Assumptions C03_report_layout_partial.

(** A headline without a line break gives a one-line headline ending in ':'. *)
Theorem C03_report_headline_one_line :
  forall (lb ws : list N) (m : text) (errs : list text) (out : text),
  write_error_report lb ws m errs = Ok out -> ~ In NL m ->
  exists rest, out = (m ++ COLON :: NL :: rest)%list /\ ~ In NL (m ++ [COLON]).
Proof. exact report_headline_one_line. Qed.
Print Assumptions C03_report_headline_one_line.

(** ... and every headline constant of every [execute] and of [run.load_model] is
    free of line breaks (generated obligation). *)
Theorem C03_gen_headlines_one_line :
  forallb headline_one_line all_headlines = true.
Proof. vm_compute. reflexivity. Qed.
Print Assumptions C03_gen_headlines_one_line.

(** Soundness of the contract check: every trace of a checked skeleton that returns
    [z] has [z = 0] iff nothing was written to stderr; with [z = 0] the last (only)
    write to stdout is the "Code generated to: ..." line; with [z <> 0] stderr is not
    empty. Traces that delegate to a target's [execute] have written nothing before. *)
Theorem C03_check_contract_sound : forall s : skel, check_contract s = true ->
  forall tr t, exec s tr t ->
  match t with
  | Returned z =>
      (z = 0%Z <-> stderr_of tr = [])
      /\ (z = 0%Z -> exists o, last_out tr = Some o /\ is_generated_line o = true)
      /\ (z <> 0%Z -> stderr_of tr <> [])
  | Delegated _ | Fell => tr = []
  end.
Proof.
  intros s H tr t He. pose proof (check_contract_sound s H tr t He) as G.
  destruct t; [exact G|exact (contract_of_good tr z G)|exact G].
Qed.
Print Assumptions C03_check_contract_sound.

(** Generated obligations: every skeleton passes the check, no skeleton can fall off
    its end... *)
Theorem C03_gen_contract_all :
  forallb (fun p => check_contract (snd p)) all_skeletons = true.
Proof. vm_compute. reflexivity. Qed.
Print Assumptions C03_gen_contract_all.

(** ... and the dispatch of [main.execute] delegates to exactly the translated targets. *)
Theorem C03_gen_dispatch_closed :
  Nat.eqb (length all_skeletons) (S (length dispatch_targets)) = true.
Proof. vm_compute. reflexivity. Qed.
Print Assumptions C03_gen_dispatch_closed.

(** Errors are not dropped by the plumbing: every branch guarded by an error variable
    starts by writing a report that uses that variable. (What the opaque rule code
    puts into the error lists is outside the skeleton.) *)
Theorem C03_errors_not_dropped : forall s : skel, errors_reported s = true ->
  forall v a, guarded_branch s v a ->
  forall tr t, exec a tr t -> exists e tr', tr = EvErr e :: tr' /\ In v (err_uses e).
Proof. exact errors_not_dropped. Qed.
Print Assumptions C03_errors_not_dropped.

Theorem C03_gen_errors_reported_all :
  forallb (fun p => errors_reported (snd p)) all_skeletons = true.
Proof. vm_compute. reflexivity. Qed.
Print Assumptions C03_gen_errors_reported_all.

(** Non-vacuity: a report with a two-line error; a violated precondition; a skeleton
    that writes an error and returns 0 is rejected. *)
Example C03_nonvacuous :
  write_error_report py_line_boundaries py_whitespace [104%N] [[97; 10; 98]%N]
    = Ok [104; 58; 10; 42; 32; 97; 10; 32; 32; 98; 10]%N
  /\ write_error_report py_line_boundaries py_whitespace [104; 58]%N [] = Crash Violation
  /\ check_contract (WriteErr (ErrDynamic []) (Ret 0)) = false
  /\ check_contract sk_main_execute = true.
Proof. vm_compute. repeat split; reflexivity. Qed.
Print Assumptions C03_nonvacuous.
