"""C20: constants and shapes of the docstring / comment wrappers -> Gen/GenComments.v.

Fail closed: every function must have exactly one of the recognised shapes; anything
else raises TranslateError (the Gen file is then removed and the theorems of C20 stop
compiling).

Emitted:
* ``py_linebreaks`` / ``py_whitespace``: from the *running interpreter* (the code points
  at which ``str.splitlines`` breaks, the code points with ``str.isspace()``);
* ``docstring_*``: the replace chain, the three addends/limit of the length test, the
  ``endswith`` exclusions of the one-line form, the two (prefix, suffix) pairs;
* one ``cfg_<name>`` tuple per line wrapper:
  (open, prefix, suffix, empty, sep, close, blank_by_strip, replacements, result_is_Stripped).
"""
from __future__ import annotations

import ast
from typing import List, Optional, Tuple

from harness.translate.astutil import TranslateError, coq_text, find_function, parse


def _const_str(node) -> str:
    if isinstance(node, ast.Constant) and isinstance(node.value, str):
        return node.value
    raise TranslateError(f"expected a string constant, got {ast.dump(node)[:120]}")


def _strip_stripped(node):
    """Stripped(x) -> x ; x -> x"""
    if (isinstance(node, ast.Call) and isinstance(node.func, ast.Name) and node.func.id == "Stripped"
            and len(node.args) == 1 and not node.keywords):
        return node.args[0]
    return node


def _replace_chain(node, base: str) -> List[Tuple[str, str]]:
    """base.replace(a,b).replace(c,d)... -> [(a,b),(c,d)] ; Name(base) -> []"""
    chain = []
    while True:
        if isinstance(node, ast.Name) and node.id == base:
            return list(reversed(chain))
        if (isinstance(node, ast.Call) and isinstance(node.func, ast.Attribute)
                and node.func.attr == "replace" and len(node.args) == 2 and not node.keywords):
            chain.append((_const_str(node.args[0]), _const_str(node.args[1])))
            node = node.func.value
            continue
        raise TranslateError(f"not a replace chain on {base}: {ast.dump(node)[:160]}")


def _fstring(node, var: str) -> Tuple[str, List[Tuple[str, str]], str]:
    """f'{prefix}{var<.replace chain>}{suffix}' -> (prefix, chain, suffix)"""
    if not isinstance(node, ast.JoinedStr):
        raise TranslateError(f"expected an f-string: {ast.dump(node)[:120]}")
    vals = list(node.values)
    prefix = suffix = ""
    if vals and isinstance(vals[0], ast.Constant):
        prefix = _const_str(vals.pop(0))
    if vals and isinstance(vals[-1], ast.Constant):
        suffix = _const_str(vals.pop())
    if len(vals) != 1 or not isinstance(vals[0], ast.FormattedValue):
        raise TranslateError("f-string must interpolate exactly one value")
    fv = vals[0]
    if fv.conversion != -1 or fv.format_spec is not None:
        raise TranslateError("conversion/format spec in f-string")
    return prefix, _replace_chain(fv.value, var), suffix


def _body_wo_doc(fn: ast.FunctionDef):
    body = list(fn.body)
    if body and isinstance(body[0], ast.Expr) and isinstance(body[0].value, ast.Constant) \
            and isinstance(body[0].value.value, str):
        body = body[1:]
    return body


def _pairs(ps) -> str:
    return "[" + "; ".join(f"({coq_text(a)}, {coq_text(b)})" for a, b in ps) + "]"


# ------------------------------------------------------------------ docstring
def _docstring_items() -> List[str]:
    fn = find_function(parse("aas_core_codegen/python/description.py"), "docstring")
    if [a.arg for a in fn.args.args] != ["text"]:
        raise TranslateError("docstring: unexpected signature")
    body = _body_wo_doc(fn)
    if len(body) != 3:
        raise TranslateError(f"docstring: expected 3 statements, got {len(body)}")
    asg, cond, ret = body
    if not (isinstance(asg, ast.Assign) and len(asg.targets) == 1 and isinstance(asg.targets[0], ast.Name)):
        raise TranslateError("docstring: first statement is not a simple assignment")
    var = asg.targets[0].id
    chain = _replace_chain(asg.value, "text")
    if not (isinstance(cond, ast.If) and not cond.orelse and len(cond.body) == 1
            and isinstance(cond.body[0], ast.Return) and isinstance(ret, ast.Return)):
        raise TranslateError("docstring: expected `if ...: return ...` followed by `return ...`")

    def length_test(node):
        # a + len(var) + b < limit
        if not (isinstance(node, ast.Compare) and len(node.ops) == 1 and isinstance(node.ops[0], ast.Lt)):
            raise TranslateError("docstring: length test is not `<`")
        limit = node.comparators[0]
        left = node.left
        if not (isinstance(limit, ast.Constant) and isinstance(limit.value, int)):
            raise TranslateError("docstring: limit is not an int")
        if not (isinstance(left, ast.BinOp) and isinstance(left.op, ast.Add)
                and isinstance(left.left, ast.BinOp) and isinstance(left.left.op, ast.Add)):
            raise TranslateError("docstring: length test is not a + len(x) + b")
        a, mid, b = left.left.left, left.left.right, left.right
        if not (isinstance(a, ast.Constant) and isinstance(a.value, int)
                and isinstance(b, ast.Constant) and isinstance(b.value, int)):
            raise TranslateError("docstring: addends are not ints")
        if not (isinstance(mid, ast.Call) and isinstance(mid.func, ast.Name) and mid.func.id == "len"
                and len(mid.args) == 1 and isinstance(mid.args[0], ast.Name) and mid.args[0].id == var):
            raise TranslateError("docstring: middle addend is not len(escaped)")
        return a.value, b.value, limit.value

    def not_endswith(node) -> str:
        if not (isinstance(node, ast.UnaryOp) and isinstance(node.op, ast.Not)):
            raise TranslateError("docstring: conjunct is not `not x.endswith(..)`")
        c = node.operand
        if not (isinstance(c, ast.Call) and isinstance(c.func, ast.Attribute) and c.func.attr == "endswith"
                and isinstance(c.func.value, ast.Name) and c.func.value.id == var and len(c.args) == 1):
            raise TranslateError("docstring: conjunct is not `not escaped.endswith(..)`")
        return _const_str(c.args[0])

    test = cond.test
    excl: List[str] = []
    if isinstance(test, ast.BoolOp) and isinstance(test.op, ast.And):
        a, b, limit = length_test(test.values[0])
        excl = [not_endswith(v) for v in test.values[1:]]
    else:
        a, b, limit = length_test(test)
    sp, schain, ss = _fstring(_strip_stripped(cond.body[0].value), var)
    lp, lchain, ls = _fstring(_strip_stripped(ret.value), var)
    both_stripped = (_strip_stripped(cond.body[0].value) is not cond.body[0].value
                     and _strip_stripped(ret.value) is not ret.value)
    if not both_stripped and (_strip_stripped(cond.body[0].value) is not cond.body[0].value
                              or _strip_stripped(ret.value) is not ret.value):
        raise TranslateError("docstring: only one of the two results is Stripped(..)")
    if schain or lchain:
        raise TranslateError("docstring: replacement inside the f-string")
    return [
        f"Definition docstring_replacements : list (list N * list N) := {_pairs(chain)}.",
        f"Definition docstring_addends : Z * Z * Z := (({a})%Z, ({b})%Z, ({limit})%Z).",
        "Definition docstring_short_excluded_suffixes : list (list N) := ["
        + "; ".join(coq_text(x) for x in excl) + "].",
        f"Definition docstring_short : list N * list N := ({coq_text(sp)}, {coq_text(ss)}).",
        f"Definition docstring_long : list N * list N := ({coq_text(lp)}, {coq_text(ls)}).",
        f"Definition docstring_returns_stripped : bool := {'true' if both_stripped else 'false'}.",
    ]


# ------------------------------------------------------------------ line wrappers
def _is_call_method(node, obj: str, meth: str, nargs: int) -> bool:
    return (isinstance(node, ast.Call) and isinstance(node.func, ast.Attribute)
            and node.func.attr == meth and isinstance(node.func.value, ast.Name)
            and node.func.value.id == obj and len(node.args) == nargs and not node.keywords)


def _line_wrapper(rel: str, name: str, arg: str) -> Tuple:
    fn = find_function(parse(rel), name)
    if [a.arg for a in fn.args.args] != [arg]:
        raise TranslateError(f"{name}: unexpected signature")
    body = _body_wo_doc(fn)
    acc: Optional[str] = None          # list accumulator
    writer: Optional[str] = None
    lines_var: Optional[str] = None
    open_ = ""
    close = ""
    loop = None
    ret = None
    for st in body:
        if isinstance(st, ast.Assign) and len(st.targets) == 1 and isinstance(st.targets[0], ast.Name):
            tgt = st.targets[0].id
            v = st.value
            if isinstance(v, ast.List) and not v.elts and loop is None:
                acc = tgt
            elif _is_call_method(v, arg, "splitlines", 0) and loop is None:
                lines_var = tgt
            elif (isinstance(v, ast.Call) and isinstance(v.func, ast.Attribute) and v.func.attr == "StringIO"
                  and not v.args and loop is None):
                writer = tgt
            else:
                raise TranslateError(f"{name}: unexpected assignment to {tgt}")
        elif isinstance(st, ast.Expr) and writer and _is_call_method(st.value, writer, "write", 1):
            s = _const_str(st.value.args[0])
            if loop is None:
                open_ += s
            else:
                close += s
        elif isinstance(st, ast.For) and loop is None:
            loop = st
        elif isinstance(st, ast.Return) and loop is not None and ret is None:
            ret = st
        else:
            raise TranslateError(f"{name}: unexpected statement {ast.dump(st)[:120]}")
    if loop is None or ret is None or loop.orelse:
        raise TranslateError(f"{name}: no loop/return")
    if not isinstance(loop.target, ast.Name):
        raise TranslateError(f"{name}: loop target")
    line = loop.target.id
    it = loop.iter
    if not (_is_call_method(it, arg, "splitlines", 0)
            or (isinstance(it, ast.Name) and it.id == lines_var)):
        raise TranslateError(f"{name}: loop does not iterate over {arg}.splitlines()")
    lbody = list(loop.body)
    stripped_var = None
    if len(lbody) == 2 and isinstance(lbody[0], ast.Assign) and len(lbody[0].targets) == 1 \
            and isinstance(lbody[0].targets[0], ast.Name) and _is_call_method(lbody[0].value, line, "strip", 0):
        stripped_var = lbody[0].targets[0].id
        lbody = lbody[1:]
    if len(lbody) != 1 or not isinstance(lbody[0], ast.If):
        raise TranslateError(f"{name}: loop body is not a single if/else")
    iff = lbody[0]
    t = iff.test
    if not (isinstance(t, ast.Compare) and len(t.ops) == 1 and isinstance(t.comparators[0], ast.Constant)
            and t.comparators[0].value == 0 and isinstance(t.left, ast.Call)
            and isinstance(t.left.func, ast.Name) and t.left.func.id == "len" and len(t.left.args) == 1):
        raise TranslateError(f"{name}: test is not len(..) <op> 0")
    measured = t.left.args[0]
    if not (_is_call_method(measured, line, "strip", 0)
            or (isinstance(measured, ast.Name) and measured.id == stripped_var)):
        raise TranslateError(f"{name}: the test does not measure {line}.strip()")
    if isinstance(t.ops[0], ast.Eq):
        empty_branch, full_branch = iff.body, iff.orelse
    elif isinstance(t.ops[0], ast.Gt):
        full_branch, empty_branch = iff.body, iff.orelse
    else:
        raise TranslateError(f"{name}: unexpected comparison operator")

    def emitted(branch):
        if len(branch) != 1 or not isinstance(branch[0], ast.Expr):
            raise TranslateError(f"{name}: branch is not a single call")
        c = branch[0].value
        if acc and _is_call_method(c, acc, "append", 1):
            return c.args[0]
        if writer and _is_call_method(c, writer, "write", 1):
            return c.args[0]
        raise TranslateError(f"{name}: branch does not append/write")

    empty = _const_str(emitted(empty_branch))
    pre_chain: List[Tuple[str, str]] = []
    fvar = line
    if len(full_branch) == 2 and isinstance(full_branch[0], ast.Assign) \
            and len(full_branch[0].targets) == 1 and isinstance(full_branch[0].targets[0], ast.Name):
        # escaped = line.replace(..)...; then the f-string interpolates `escaped`
        fvar = full_branch[0].targets[0].id
        pre_chain = _replace_chain(full_branch[0].value, line)
        full_branch = full_branch[1:]
    prefix, chain, suffix = _fstring(emitted(full_branch), fvar)
    chain = pre_chain + chain
    rv = _strip_stripped(ret.value)
    is_stripped = rv is not ret.value
    if writer and _is_call_method(rv, writer, "getvalue", 0) and acc is None:
        sep = ""
    elif (acc and isinstance(rv, ast.Call) and isinstance(rv.func, ast.Attribute) and rv.func.attr == "join"
          and len(rv.args) == 1 and isinstance(rv.args[0], ast.Name) and rv.args[0].id == acc
          and writer is None):
        sep = _const_str(rv.func.value)
    else:
        raise TranslateError(f"{name}: unexpected return value")
    return (open_, prefix, suffix, empty, sep, close, True, chain, is_stripped)


def _sss_line() -> Tuple:
    """csharp/description.py:_slash_slash_slash_line + its use on text.splitlines()."""
    tree = parse("aas_core_codegen/csharp/description.py")
    fn = find_function(tree, "_slash_slash_slash_line")
    if [a.arg for a in fn.args.args] != ["line"]:
        raise TranslateError("_slash_slash_slash_line: signature")
    body = _body_wo_doc(fn)
    if len(body) != 2 or not isinstance(body[0], ast.If) or not isinstance(body[1], ast.Return):
        raise TranslateError("_slash_slash_slash_line: shape")
    t = body[0].test
    if not (isinstance(t, ast.Compare) and isinstance(t.ops[0], ast.Eq) and isinstance(t.left, ast.Call)
            and isinstance(t.left.func, ast.Name) and t.left.func.id == "len"
            and isinstance(t.left.args[0], ast.Name) and t.left.args[0].id == "line"
            and isinstance(t.comparators[0], ast.Constant) and t.comparators[0].value == 0):
        raise TranslateError("_slash_slash_slash_line: test")
    if len(body[0].body) != 1 or not isinstance(body[0].body[0], ast.Return) or body[0].orelse:
        raise TranslateError("_slash_slash_slash_line: if body")
    empty = _const_str(body[0].body[0].value)
    prefix, chain, suffix = _fstring(body[1].value, "line")
    # every use: "\n".join([_slash_slash_slash_line(line) for line in text.splitlines()])
    uses = 0
    for node in ast.walk(tree):
        if isinstance(node, ast.ListComp) and isinstance(node.elt, ast.Call) \
                and isinstance(node.elt.func, ast.Name) and node.elt.func.id == "_slash_slash_slash_line":
            g = node.generators
            if not (len(g) == 1 and not g[0].ifs and isinstance(g[0].iter, ast.Call)
                    and isinstance(g[0].iter.func, ast.Attribute) and g[0].iter.func.attr == "splitlines"):
                raise TranslateError("_slash_slash_slash_line: used on something else than splitlines()")
            uses += 1
    calls = sum(1 for n in ast.walk(tree) if isinstance(n, ast.Call) and isinstance(n.func, ast.Name)
                and n.func.id == "_slash_slash_slash_line")
    if uses == 0 or uses != calls:
        raise TranslateError("_slash_slash_slash_line: a call outside the recognised list comprehension")
    # the joined lines are passed through Stripped(...) (icontract precondition)
    joins = 0
    for node in ast.walk(tree):
        if isinstance(node, ast.Call) and isinstance(node.func, ast.Name) and node.func.id == "Stripped" \
                and len(node.args) == 1 and isinstance(node.args[0], ast.Call) \
                and isinstance(node.args[0].func, ast.Attribute) and node.args[0].func.attr == "join" \
                and isinstance(node.args[0].func.value, ast.Constant) and node.args[0].func.value.value == "\n" \
                and isinstance(node.args[0].args[0], ast.Name) and node.args[0].args[0].id == "commented_lines":
            joins += 1
    if joins != uses:
        raise TranslateError("_slash_slash_slash_line: the commented lines are not all Stripped('\\n'.join(..))")
    return ("", prefix, suffix, empty, "\n", "", False, chain, True)


WRAPPERS = [
    ("py_doc", "aas_core_codegen/python/description.py", "documentation_comment", "text"),
    ("ts_doc", "aas_core_codegen/typescript/description.py", "documentation_comment", "text"),
    ("java_doc", "aas_core_codegen/java/description.py", "documentation_comment", "text"),
    ("cpp_doc", "aas_core_codegen/cpp/description.py", "documentation_comment", "text"),
    ("go_doc", "aas_core_codegen/golang/description.py", "documentation_comment", "text"),
    ("cpp_nondoc", "aas_core_codegen/cpp/common.py", "non_documentation_comment", "text"),
]


def _cfg(name: str, c: Tuple) -> str:
    open_, prefix, suffix, empty, sep, close, by_strip, chain, stripped = c
    return (f"Definition cfg_{name} : list N * list N * list N * list N * list N * list N * bool * "
            f"list (list N * list N) * bool :=\n  ({coq_text(open_)}, {coq_text(prefix)}, {coq_text(suffix)}, "
            f"{coq_text(empty)}, {coq_text(sep)}, {coq_text(close)}, {'true' if by_strip else 'false'}, "
            f"{_pairs(chain)}, {'true' if stripped else 'false'}).")


def gen_comments() -> str:
    breaks = [c for c in range(0x110000)
              if not (0xD800 <= c <= 0xDFFF) and len(("a" + chr(c) + "b").splitlines()) == 2]
    breaks += [c for c in range(0xD800, 0xE000) if len(("a" + chr(c) + "b").splitlines()) == 2]
    if len("a\r\nb".splitlines()) != 2 or "a\n".splitlines() != ["a"] or "\n".splitlines() != [""]:
        raise TranslateError("str.splitlines does not behave as modelled")
    spaces = [c for c in range(0x110000) if chr(c).isspace()]
    for c in range(0x110000):
        if (chr(c).strip() == "") != (c in set(spaces)):
            raise TranslateError(f"strip/isspace disagree on {c}")
    out = [
        "From Coq Require Import List NArith ZArith Bool.",
        "Import ListNotations.",
        "(* from the running interpreter *)",
        "Definition py_linebreaks : list N := [" + ";".join(map(str, sorted(breaks))) + "]%N.",
        "Definition py_whitespace : list N := [" + ";".join(map(str, spaces)) + "]%N.",
    ]
    out += _docstring_items()
    for name, rel, fn, arg in WRAPPERS:
        out.append(_cfg(name, _line_wrapper(rel, fn, arg)))
    out.append(_cfg("cs_doc", _sss_line()))
    return "\n".join(out) + "\n"


GEN_FILES = {"GenComments": gen_comments}
