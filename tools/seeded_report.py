#!/usr/bin/env python3
"""Write docs/SEEDED.md from seeded/*/meta.json and the logs of tools/run_seeded.py (work/seed_*.log,
later logs override earlier ones)."""
import glob, json, os, pathlib, re
ROOT = pathlib.Path(__file__).resolve().parent.parent
res = {}
for f in sorted(glob.glob(str(ROOT / "work" / "seed_*.log")), key=os.path.getmtime):
    for line in open(f, errors="replace"):
        m = re.match(r"^(C\d+-\d+): (detected|MISSED|patch-failed)\s*(.*)$", line.strip())
        if m:
            how = ""
            mm = re.search(r"\('(C\d+)', 'VIOLATION property=\S+ replay=\S*/replays/C\d+/\d+-\w+-\d+-([^']*)\.json( no-failing-input-found)?", m.group(3))
            if mm:
                how = f"{mm.group(1)}: {mm.group(2)[:60]}" + (" (no failing input)" if mm.group(3) else "")
            res[m.group(1)] = (m.group(2), how)
rows = []
for d in sorted((ROOT / "seeded").iterdir(), key=lambda p: (p.name.split("-")[0], int(p.name.split("-")[1]))):
    meta = json.loads((d / "meta.json").read_text())
    r, how = res.get(d.name, ("not run yet", ""))
    rows.append(f"| {d.name} | {str(meta.get('title',''))[:150].replace('|','/')} | {str(meta.get('needs',''))[:170].replace('|','/')} | {r} | {how.replace('|','/')} |")
det = sum(1 for k, v in res.items() if v[0] == "detected")
out = ["# Seeded changes and what catches them", "",
       "Each directory `seeded/<name>/` holds `patch.diff`, the demonstration `demo.py` and `meta.json`, written by a",
       "fresh sub-agent that saw only the property text and worked in its own scratch worktree; every change was confirmed",
       "by the coordinator (`tools/intake_seeded.sh`: demo passes on the clean tree, fails with the patch, the relevant pinned",
       "tests pass with the patch). `tools/run_seeded.py <name>` applies a change to a scratch copy of /repo and runs the",
       "quick check(s) of the property (`meta.checks` lists further checks that own the changed code).", "",
       f"Last recorded results: {det} detected of {len(res)} run ({len(rows)} seeded changes).",
       "Where a change was first MISSED, the owning check was strengthened (see the property's doc) and re-run;",
       "the table shows the latest result.", "",
       "| change | what was changed | needs | result | detecting check: replay key |", "|---|---|---|---|---|"] + rows
(ROOT / "docs" / "SEEDED.md").write_text("\n".join(out) + "\n")
print(det, len(res), len(rows))
