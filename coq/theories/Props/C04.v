(** C04 — Reported error locations point at the offending construct.

    Theorems over the model [Model/Lineno.v] of [common.LinenoColumner] (the
    offset -> (line, column) table and its look-up in [error_message]). The model is
    tied to the code by the correspondence streams of [harness/props/c04.py]; that
    asttokens' [get_text_range(node)[0]] is the offset of the node's first character
    is validated end-to-end there against Python's own [lineno]/[col_offset].
    This file contains only statements, [exact]s and [Print Assumptions]. *)
From Coq Require Import List NArith ZArith Bool.
From Coq Require Strings.String.
Import Coq.Strings.String.StringSyntax.
From Acg Require Import Base.Str Base.Outcome Model.Lineno Proofs.LinenoFacts.
Import ListNotations.
Open Scope Z_scope.

(** Cut the text as [a ++ b ++ c :: rest]: [a] = all complete lines before the line
    of the character [c] (empty, or ending with a line break), [b] = the part of the
    line before [c]. Then the table maps the offset of [c] to
    line = 1 + number of line breaks before it, column = 1 + number of characters
    before it on its line — 1-based on every line, no shift after the first line. *)
Theorem C04_positions_spec : forall (a b : text) (c : N) (rest : text),
  (a = [] \/ exists a', a = a' ++ [NL]) -> ~ In NL b -> c <> NL ->
  nth_error (positions (a ++ b ++ c :: rest)) (length a + length b)
  = Some (1 + count_nl a, zlen b + 1).
Proof. exact positions_spec. Qed.
Print Assumptions C04_positions_spec.

(** One entry per character of the text. *)
Theorem C04_positions_length : forall t : text, length (positions t) = length t.
Proof. exact positions_length. Qed.
Print Assumptions C04_positions_length.

(** The look-up done by [error_message] for a construct whose first character is [c]. *)
Theorem C04_locate_spec : forall (a b : text) (c : N) (rest : text),
  (a = [] \/ exists a', a = a' ++ [NL]) -> ~ In NL b -> c <> NL ->
  locate (a ++ b ++ c :: rest) (zlen a + zlen b) = Ok (1 + count_nl a, zlen b + 1).
Proof. exact locate_spec. Qed.
Print Assumptions C04_locate_spec.

(** The look-up cannot raise for an offset inside the text; it raises exactly
    [IndexError] at or beyond the end (module node of an empty text). *)
Theorem C04_locate_total : forall (t : text) (start : Z),
  0 <= start < zlen t -> exists p, locate t start = Ok p.
Proof. exact locate_total. Qed.
Print Assumptions C04_locate_total.

Theorem C04_locate_beyond : forall (t : text) (start : Z),
  zlen t <= start -> locate t start = Crash IndexError.
Proof. exact locate_beyond. Qed.
Print Assumptions C04_locate_beyond.

(** Nodes that asttokens does not mark (nested in an f-string) are located through
    Python's own [lineno] / [col_offset] (UTF-8 bytes): same answer as the table. *)
Theorem C04_locate_unmarked_spec : forall (a b : text) (c : N) (rest : text),
  (a = [] \/ exists a', a = a' ++ [NL]) -> ~ In NL b -> c <> NL ->
  locate_unmarked (a ++ b ++ c :: rest) (1 + count_nl a) (utf8_size b)
  = Ok (1 + count_nl a, zlen b + 1).
Proof. exact locate_unmarked_spec. Qed.
Print Assumptions C04_locate_unmarked_spec.

(** What the table holds at a line break itself (no construct starts there). *)
Theorem C04_positions_at_newline : forall (a rest : text),
  nth_error (positions (a ++ NL :: rest)) (length a) = Some (2 + count_nl a, 0).
Proof. exact positions_at_newline. Qed.
Print Assumptions C04_positions_at_newline.

(** Non-vacuity: three lines (the second one empty, the third one indented); the
    hypotheses of [C04_positions_spec] hold for the [x] on line 3. *)
Example C04_nonvacuous :
  positions (s2l "ab" ++ [NL; NL] ++ s2l " x=1")
  = [(1,1); (1,2); (2,0); (3,0); (3,1); (3,2); (3,3); (3,4)]
  /\ (exists a', s2l "ab" ++ [NL; NL] = a' ++ [NL])
  /\ ~ In NL (s2l " ")
  /\ locate (s2l "ab" ++ [NL; NL] ++ s2l " x=1") 5 = Ok (3, 2)
  /\ locate [] 0 = Crash IndexError
  /\ locate_unmarked ([NL] ++ [233%N; 128512%N] ++ s2l "x") 2 6 = Ok (2, 3).
Proof.
  split; [vm_compute; reflexivity|].
  split; [exists (s2l "ab" ++ [NL]); reflexivity|].
  split; [cbn; intros [H|[]]; discriminate H|].
  repeat split; vm_compute; reflexivity.
Qed.
Print Assumptions C04_nonvacuous.
