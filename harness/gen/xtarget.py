"""C09: cross-target inputs — a probe meta-model that exercises every comparator and
connective on every value kind, a neutral instance description with a seeded instance
generator for arbitrary mmgen meta-models, and renderers of the instances as Python,
Java and C++ construction code (driver programs).

Standard library + harness/gen/metamodel.py only; deterministic in the ``rng``.
"""
from __future__ import annotations

import json
import random
from typing import Any, Dict, Iterable, List, Optional, Sequence, Tuple

from harness.gen import metamodel as mmg
from harness.gen.metamodel import (TPrim, TOur, TList, TOpt, Name, Member, Const, Index, Cmp, IsIn,
                                   IsNone, IsNotNone, Not, And, Or, Implies, Call, ForEach,
                                   ForRange, All, AnyOf, Add, Sub)


# ----------------------------------------------------------------------------------------
# The probe meta-model
# ----------------------------------------------------------------------------------------
def _doc(text: str) -> mmg.Doc:
    return mmg.Doc(summary=text)


def probe_metamodel() -> mmg.MetaModel:
    """One class whose invariants use each comparator on ints (literal and property
    operands), floats, strings, booleans and enumeration literals, each connective,
    both quantifiers over both generators, ``len``, ``in`` and a pattern function."""
    S = Name("self")
    P = lambda n: Member(S, n)  # noqa: E731
    invs: List[mmg.Invariant] = []

    def inv(text: str, body) -> None:
        invs.append(mmg.Invariant(f"Constraint {len(invs) + 1}: {text}", body, "custom", {}))

    # comparators, int property against a literal (Java: boxed against primitive)
    for op, n in (("<", 10), ("<=", 10), (">", -1), (">=", 0), ("==", 1000), ("!=", 7)):
        inv(f"a shall be {op} {n}", Cmp(op, P("a"), Const(n)))
    # literal on the left
    inv("3 shall be <= b", Cmp("<=", Const(3), P("b")))
    # comparators, property against property (Java: boxed against boxed)
    for op in ("<", "<=", ">", ">=", "==", "!="):
        inv(f"a shall be {op} b", Cmp(op, P("a"), P("b")))
    # strings
    inv("s shall be abc", Cmp("==", P("s"), Const("abc")))
    inv("s shall not be N/A", Cmp("!=", P("s"), Const("N/A")))
    inv("s shall be t", Cmp("==", P("s"), P("t")))
    inv("s shall differ from t", Cmp("!=", P("s"), P("t")))
    # booleans
    inv("p shall be q", Cmp("==", P("p"), P("q")))
    inv("p shall differ from q", Cmp("!=", P("p"), P("q")))
    # floats
    inv("x shall be < 1.5", Cmp("<", P("x"), Const(1.5)))
    inv("x shall be >= -0.25", Cmp(">=", P("x"), Const(-0.25)))
    inv("x shall be <= y", Cmp("<=", P("x"), P("y")))
    inv("x shall be > y", Cmp(">", P("x"), P("y")))
    # enumeration literals
    inv("c shall be Red", Cmp("==", P("c"), Member(Name("Probe_color"), "Red")))
    inv("c shall not be Dark_blue", Cmp("!=", P("c"), Member(Name("Probe_color"), "Dark_blue")))
    inv("c shall be d", Cmp("==", P("c"), P("d")))
    inv("c shall differ from d", Cmp("!=", P("c"), P("d")))
    # connectives
    inv("p shall not hold", Not(P("p")))
    inv("p and q shall hold", And((P("p"), P("q"))))
    inv("p or q shall hold", Or((P("p"), P("q"))))
    inv("p and q shall not both hold", Not(And((P("p"), P("q")))))
    inv("p implies q", Implies(P("p"), P("q")))
    inv("a below 5 implies b below 5 or q", Implies(Cmp("<", P("a"), Const(5)),
                                                     Or((Cmp("<", P("b"), Const(5)), P("q")))))
    inv("three way conjunction", And((P("p"), Cmp(">=", P("a"), Const(1)), Not(P("q")))))
    inv("nested disjunction", Or((And((P("p"), P("q"))), Not(Cmp("==", P("a"), Const(2))))))
    # optionals
    inv("oa unset or above 3", Or((IsNone(P("oa")), Cmp(">", P("oa"), Const(3)))))
    inv("oa set implies oa <= b", Implies(IsNotNone(P("oa")), Cmp("<=", P("oa"), P("b"))))
    inv("os set implies os in Probe_words", Implies(IsNotNone(P("os")), IsIn(P("os"), Name("Probe_words"))))
    inv("oc unset or oc in Probe_warm", Or((IsNone(P("oc")), IsIn(P("oc"), Name("Probe_warm")))))
    inv("oa and os not both set", Not(And((IsNotNone(P("oa")), IsNotNone(P("os"))))))
    inv("oa set and equal to a, or unset", Or((IsNone(P("oa")), Cmp("==", P("oa"), P("a")))))
    inv("os set implies os equals s", Implies(IsNotNone(P("os")), Cmp("==", P("os"), P("s"))))
    # len, in, pattern
    inv("s shall have at most 8 characters", Cmp("<=", Call("len", (P("s"),)), Const(8)))
    inv("items shall have at least 1 element", Cmp(">=", Call("len", (P("items"),)), Const(1)))
    inv("number of items shall differ from a", Cmp("!=", Call("len", (P("items"),)), P("a")))
    inv("t shall match matches_probe_word", Call("matches_probe_word", (P("t"),)))
    inv("a shall be in Probe_numbers", IsIn(P("a"), Name("Probe_numbers")))
    # quantifiers
    inv("all items light", All(ForEach("item", P("items")), Cmp("<", Member(Name("item"), "weight"), Const(5))))
    inv("some item flagged", AnyOf(ForEach("item", P("items")), Member(Name("item"), "flag")))
    inv("all items by index non-negative",
        All(ForRange("i", Const(0), Call("len", (P("items"),))),
            Cmp(">=", Member(Index(P("items"), Name("i")), "weight"), Const(0))))
    inv("oitems unset or all labelled abc",
        Or((IsNone(P("oitems")),
            All(ForEach("item", P("oitems")), Cmp("==", Member(Name("item"), "label"), Const("abc"))))))
    # arithmetic
    inv("a + 1 shall be > b - 1", Cmp(">", Add(P("a"), Const(1)), Sub(P("b"), Const(1))))

    color = mmg.Enumeration("Probe_color", [
        mmg.EnumLiteral("Red", "RED"), mmg.EnumLiteral("Green", "green"),
        mmg.EnumLiteral("Dark_blue", "Dark Blue")], _doc("Enumerate the probe colors."))
    short = mmg.ConstrainedPrimitive(
        "Probe_short_text", "str", [],
        [mmg.Invariant("Constraint 900: The value shall have at most 5 character(s)",
                       Cmp("<=", Call("len", (S,)), Const(5)), "self_compare", {}),
         mmg.Invariant("Constraint 901: The value shall not be the text no",
                       Cmp("!=", S, Const("no")), "self_compare", {})],
        _doc("Constrain the probe text."))
    item = mmg.Class("Probe_item", False, [], [
        mmg.Property("weight", TPrim("int"), _doc("Hold the weight.")),
        mmg.Property("label", TPrim("str"), _doc("Hold the label.")),
        mmg.Property("flag", TPrim("bool"), _doc("Hold the flag.")),
    ], [mmg.Invariant("Constraint 800: weight shall be <= 100", Cmp("<=", Member(S, "weight"), Const(100)), "custom", {})],
        doc=_doc("Represent a probe item."))
    props = [("a", TPrim("int")), ("b", TPrim("int")), ("s", TPrim("str")), ("t", TPrim("str")),
             ("p", TPrim("bool")), ("q", TPrim("bool")), ("x", TPrim("float")), ("y", TPrim("float")),
             ("c", TOur("Probe_color")), ("d", TOur("Probe_color")),
             ("items", TList(TOur("Probe_item"))), ("short_text", TOur("Probe_short_text")),
             ("oa", TOpt(TPrim("int"))), ("os", TOpt(TPrim("str"))), ("oc", TOpt(TOur("Probe_color"))),
             ("oitems", TOpt(TList(TOur("Probe_item"))))]
    probe = mmg.Class("Probe", False, [], [mmg.Property(n, t, _doc(f"Hold the {n}.")) for n, t in props],
                      invs, doc=_doc("Represent the probe."))
    fn = mmg.VerificationFunction("matches_probe_word", "pattern", [("text", TPrim("str"))],
                                  pattern="^[a-z]+(-[a-z0-9]+)*$", pattern_style=0,
                                  doc=_doc("Check that the text is a probe word."))
    consts: List[mmg.Constant] = [
        mmg.ConstantPrimitive("Probe_text", "str", "Text with \"quotes\" and \\ backslash", _doc("Hold a text.")),
        mmg.ConstantPrimitive("Probe_flag", "bool", True, _doc("Hold a flag.")),
        mmg.ConstantPrimitive("Probe_number", "int", 4242, _doc("Hold a number.")),
        mmg.ConstantPrimitive("Probe_ratio", "float", 0.25, _doc("Hold a ratio.")),
        mmg.ConstantSet("Probe_words", "str", ["alpha", "beta", "x y"], [], _doc("List the words.")),
        mmg.ConstantSet("Probe_numbers", "int", [1, 2, 3, 1000], [], _doc("List the numbers.")),
        mmg.ConstantSet("Probe_warm", "Probe_color", ["Red"], [], _doc("List the warm colors.")),
    ]
    mm = mmg.MetaModel(doc=_doc("Provide a probe meta-model."), version="V0.1",
                       xml_namespace="https://example.com/probe",
                       enumerations=[color], constrained_primitives=[short], classes=[item, probe],
                       constants=consts, verification_functions=[fn],
                       decl_order=["Probe_color", "Probe_short_text", "Probe_item", "Probe"],
                       quote_our_types=True, profile="probe")
    return mm


def all_invariants(mm: mmg.MetaModel) -> List[Tuple[str, mmg.Invariant]]:
    """(owner name, invariant) of every invariant declared in the meta-model."""
    out = []
    for cp in mm.constrained_primitives:
        out += [(cp.name, i) for i in cp.invariants]
    for c in mm.classes:
        out += [(c.name, i) for i in c.invariants]
    return out
