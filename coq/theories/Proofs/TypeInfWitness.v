(** Concrete witnesses for C07: a small symbol table, a type-conforming instance, and
    invariants that show (a) the hypotheses of the None-safety theorem are satisfiable,
    (b) accepted invariants can raise TypeError / yield a non-boolean. *)
From Coq Require Import List NArith ZArith Bool.
From Coq Require Strings.String.
Import Coq.Strings.String.StringSyntax.
From Acg Require Import Base.Str Model.Tree Model.PyEval Model.TypeInf Proofs.TypeInfFacts.
Import ListNotations.
Open Scope Z_scope.

Definition wC : cls_def :=
  mkCls [(s2l "i", TPrim PInt); (s2l "s", TPrim PStr); (s2l "o", TOpt (TPrim PInt))] [] [].
Definition wS : symtab := mkSym [(s2l "C", wC)] [] [].
Definition wG : tenv := [(s2l "self", TClass (s2l "C")); (s2l "len", TLen)].
Definition wSelf : value :=
  VObj 1 (s2l "C") [(s2l "i", VInt 1); (s2l "s", VStr (s2l "a")); (s2l "o", VNone)].
Definition wR : env :=
  mkEnv [(s2l "self", wSelf); (s2l "len", VFun (s2l "len"))]
        (fun _ _ => Raise TypeErr) (fun _ _ _ _ => Raise AttrErr) (fun _ => []).

Definition self_ (p : Coq.Strings.String.string) : expr := Member (Name (s2l "self")) (s2l p).
Arguments self_ p%string_scope.

(** [self.i < self.s]: accepted, raises TypeError. *)
Definition w_cmp : expr := Comparison Lt (self_ "i") (self_ "s").
(** [self.i and self.s]: accepted, yields a str. *)
Definition w_and : expr := And [self_ "i"; self_ "s"].
(** [len(self.i) > 0]: accepted, raises TypeError. *)
Definition w_len : expr := Comparison Gt (FunctionCall (s2l "len") [self_ "i"]) (Constant (CInt 0)).
(** [self.o is None or self.o > 0]: accepted, None-safe thanks to the narrowing. *)
Definition w_guard : expr :=
  Or [IsNone (self_ "o"); Comparison Gt (self_ "o") (Constant (CInt 0))].

Lemma wS_ok : symtab_ok wS.
Proof.
  repeat split.
  - intros p t Hp. unfold find_class in *. cbn in H, H1.
    destruct (text_eqb c _); [|discriminate]. inversion H; subst. cbn in H0. contradiction.
  - intros m sg Hm. unfold find_class in *. cbn in H.
    destruct (text_eqb c _); [|discriminate]. inversion H; subst. cbn in H0. contradiction.
  - intros c cd m sg Hc Hm. unfold find_class in Hc. cbn in Hc.
    destruct (text_eqb c _); [|discriminate]. inversion Hc; subst. cbn in Hm. discriminate.
Qed.

Lemma wSelf_conf : conf wS (TClass (s2l "C")) wSelf.
Proof.
  eapply (cf_class wS (s2l "C") wC 1%nat (s2l "C") wC).
  - reflexivity.
  - left; reflexivity.
  - reflexivity.
  - intros p t Hp. cbn in Hp |- *.
    destruct (text_eqb p _); [inversion Hp; subst; eexists; split; [reflexivity|constructor]|].
    destruct (text_eqb p _); [inversion Hp; subst; eexists; split; [reflexivity|constructor]|].
    destruct (text_eqb p _); [inversion Hp; subst; eexists; split; [reflexivity|constructor]|].
    discriminate.
  - intros p Hp. cbn in Hp |- *.
    destruct (text_eqb p _); [discriminate|].
    destruct (text_eqb p _); [discriminate|].
    destruct (text_eqb p _); [discriminate|]. reflexivity.
Qed.

Lemma wR_env_ok : env_ok wS wG wR.
Proof.
  intros x t Hx. cbn in Hx |- *.
  destruct (text_eqb x _).
  - inversion Hx; subst. eexists; split; [reflexivity|apply wSelf_conf].
  - destruct (text_eqb x _); [|discriminate].
    inversion Hx; subst. eexists; split; [reflexivity|constructor].
Qed.

Lemma wR_fn_ok : fn_ok wS wR.
Proof. intros g sg vs H. cbn in H. discriminate. Qed.

Lemma wR_meth_ok : meth_ok wS wR.
Proof.
  intros c cd m sg oid cls fs vs Hc Hm. unfold find_class in Hc. cbn in Hc.
  destruct (text_eqb c _); [|discriminate]. inversion Hc; subst. cbn in Hm. discriminate.
Qed.

Ltac keys_tac :=
  let a := fresh "a" in let b := fresh "b" in
  let Ha := fresh "Ha" in let Hb := fresh "Hb" in let Hc := fresh "Hc" in
  intros a b Ha Hb Hc; unfold tested in Ha; cbn in Ha, Hb;
  destruct Ha as [Ha|Ha];
  repeat (destruct Ha as [Ha|Ha]; [try discriminate Ha; try (inversion Ha; subst)|]);
  try contradiction;
  repeat (destruct Hb as [Hb|Hb]; [subst b|]); try contradiction;
  first [reflexivity | (vm_compute in Hc; discriminate)].

Lemma w_cmp_keys : keys_inj w_cmp.
Proof. keys_tac. Qed.
Lemma w_and_keys : keys_inj w_and.
Proof. keys_tac. Qed.
Lemma w_len_keys : keys_inj w_len.
Proof. keys_tac. Qed.
Lemma w_guard_keys : keys_inj w_guard.
Proof. keys_tac. Qed.

(** The full statement of C07 ("... always yields a boolean; only IndexError may be
    raised") is false of the inference as implemented. *)
Definition yields_bool_or_index_error (r : pyresult) : Prop :=
  (exists b, r = Val (VBool b)) \/ r = Raise IndexErr.

Lemma bool_refuted_witness : forall e,
  (e = w_cmp \/ e = w_and \/ e = w_len) ->
  symtab_ok wS /\ keys_inj e /\ env_ok wS wG wR /\ fn_ok wS wR /\ meth_ok wS wR
  /\ infer false wS wG [] e = Some (TPrim PBool)
  /\ ~ yields_bool_or_index_error (eval wR e 8).
Proof.
  intros e He.
  split; [apply wS_ok|]. split.
  { destruct He as [->|[->| ->]]; [apply w_cmp_keys|apply w_and_keys|apply w_len_keys]. }
  split; [apply wR_env_ok|]. split; [apply wR_fn_ok|]. split; [apply wR_meth_ok|].
  split.
  { destruct He as [->|[->| ->]]; vm_compute; reflexivity. }
  destruct He as [->|[->| ->]]; vm_compute; intros [[b H]|H]; discriminate.
Qed.

Lemma infer_bool_refuted :
  exists S G r e fuel,
    symtab_ok S /\ keys_inj e /\ env_ok S G r /\ fn_ok S r /\ meth_ok S r
    /\ infer false S G [] e = Some (TPrim PBool)
    /\ ~ yields_bool_or_index_error (eval r e fuel).
Proof.
  exists wS, wG, wR, w_cmp, 8%nat. apply bool_refuted_witness. auto.
Qed.

(** Non-vacuity of the None-safety theorem: a guarded use of an Optional property is
    accepted and evaluates to a bool on the instance where the property is None; without the
    guard (or with the guard on the wrong side) it is rejected. *)
Lemma none_safe_nonvacuous :
  symtab_ok wS /\ keys_inj w_guard /\ env_ok wS wG wR /\ fn_ok wS wR /\ meth_ok wS wR
  /\ infer false wS wG [] w_guard = Some (TPrim PBool)
  /\ eval wR w_guard 8 = Val (VBool true)
  /\ infer false wS wG [] (Comparison Gt (self_ "o") (Constant (CInt 0))) = None
  /\ eval wR (Comparison Gt (self_ "o") (Constant (CInt 0))) 8 = Raise NoneDeref
  /\ infer false wS wG []
       (Or [IsNotNone (self_ "o"); Comparison Gt (self_ "o") (Constant (CInt 0))]) = None
  /\ infer false wS wG []
       (Comparison Gt (FunctionCall (s2l "len") [self_ "o"]) (Constant (CInt 0))) = None
  /\ infer false wS wG []
       (Implication (Comparison Gt (self_ "i") (Constant (CInt 0))) (self_ "o")) = None.
Proof.
  split; [apply wS_ok|]. split; [apply w_guard_keys|].
  split; [apply wR_env_ok|]. split; [apply wR_fn_ok|]. split; [apply wR_meth_ok|].
  vm_compute. repeat split; reflexivity.
Qed.

(** The strict typing ([st = true], the exclusion predicate) rejects all three witnesses and
    accepts the guarded invariant. *)
Lemma strict_excludes_witnesses :
  infer true wS wG [] w_cmp = None /\ infer true wS wG [] w_and = None
  /\ infer true wS wG [] w_len = None
  /\ infer true wS wG [] w_guard = Some (TPrim PBool).
Proof. vm_compute. repeat split; reflexivity. Qed.
