(** Facts about the validation semantics (Model/JsonSchemaSem.v): strict conjunction,
    fuel monotonicity. *)
From Coq Require Import List NArith ZArith Bool Lia.
From Acg Require Import Base.Str Model.JsonSchemaSem.
Import ListNotations.
Open Scope Z_scope.

Lemma all_opt_app : forall l1 l2,
  all_opt (l1 ++ l2) =
  match all_opt l1, all_opt l2 with
  | Some a, Some b => Some (a && b)
  | _, _ => None
  end.
Proof.
  induction l1 as [|x l1 IH]; intros l2; simpl.
  - destruct (all_opt l2); reflexivity.
  - destruct x as [b|]; [|reflexivity]. rewrite IH.
    destruct (all_opt l1) as [a|]; [|reflexivity].
    destruct (all_opt l2) as [c|]; [|reflexivity].
    rewrite andb_assoc. reflexivity.
Qed.

Lemma all_opt_some : forall {A} (g : A -> bool) (l : list A),
  all_opt (map (fun x => Some (g x)) l) = Some (forallb g l).
Proof.
  intros A g l. induction l as [|x l IH]; simpl; [reflexivity|]. rewrite IH. reflexivity.
Qed.

Lemma all_opt_ext_some : forall {A} (f : A -> option bool) (g : A -> bool) (l : list A),
  (forall x, In x l -> f x = Some (g x)) ->
  all_opt (map f l) = Some (forallb g l).
Proof.
  intros A f g l H. induction l as [|x l IH]; simpl; [reflexivity|].
  rewrite (H x (or_introl eq_refl)). rewrite IH; [reflexivity|].
  intros y Hy. apply H. right. exact Hy.
Qed.

Lemma all_opt_true_all : forall l, all_opt l = Some true -> forall x, In x l -> x = Some true.
Proof.
  induction l as [|y l IH]; intros H x Hin; [destruct Hin|].
  simpl in H. destruct y as [b|]; [|discriminate].
  destruct (all_opt l) as [c|] eqn:E; [|discriminate].
  injection H as H. apply andb_true_iff in H. destruct H as [Hb Hc]. subst.
  destruct Hin as [<-|Hin]; [reflexivity|]. apply IH; [reflexivity|exact Hin].
Qed.

(** Pointwise refinement: wherever the first list is determined, the second agrees. *)
Lemma all_opt_refine : forall {A} (f g : A -> option bool) (l : list A) b,
  (forall x c, In x l -> f x = Some c -> g x = Some c) ->
  all_opt (map f l) = Some b -> all_opt (map g l) = Some b.
Proof.
  intros A f g l. induction l as [|x l IH]; intros b H E; simpl in *; [exact E|].
  destruct (f x) as [c|] eqn:Ef; [|discriminate].
  rewrite (H x c (or_introl eq_refl) Ef).
  destruct (all_opt (map f l)) as [d|] eqn:Ed; [|discriminate].
  rewrite (IH d); [exact E| |reflexivity].
  intros y e Hy. apply H. right. exact Hy.
Qed.

Lemma count_true_refine : forall {A} (f g : A -> option bool) (l : list A) n,
  (forall x c, In x l -> f x = Some c -> g x = Some c) ->
  count_true (map f l) = Some n -> count_true (map g l) = Some n.
Proof.
  intros A f g l. induction l as [|x l IH]; intros n H E; simpl in *; [exact E|].
  destruct (f x) as [c|] eqn:Ef; [|discriminate].
  rewrite (H x c (or_introl eq_refl) Ef).
  destruct (count_true (map f l)) as [d|] eqn:Ed; [|discriminate].
  rewrite (IH d); [exact E| |reflexivity].
  intros y e Hy. apply H. right. exact Hy.
Qed.

Section Mono.
  Variable search16 : text -> text -> bool.
  Variable defs : list (text * schema).
  Notation validates := (validates search16 defs).
  Notation valid_kw := (valid_kw search16 defs).

  Lemma valid_kw_refine : forall (r1 r2 : schema -> json -> option bool),
    (forall s v b, r1 s v = Some b -> r2 s v = Some b) ->
    forall k v b, valid_kw r1 k v = Some b -> valid_kw r2 k v = Some b.
  Proof.
    intros r1 r2 H k v b E. destruct k; simpl in *; try exact E.
    - destruct v; try exact E. eapply all_opt_refine; [|exact E]. intros x c _ Hx. apply H. exact Hx.
    - destruct v; try exact E. eapply all_opt_refine; [|exact E].
      intros x c _ Hx. cbv beta in Hx |- *. destruct (lookup (fst x) m); [apply H; exact Hx|exact Hx].
    - eapply all_opt_refine; [|exact E]. intros x c _ Hx. apply H. exact Hx.
    - unfold exactly_one in *.
      destruct (count_true (map (fun s => r1 s v) ss)) as [n|] eqn:En; [|discriminate].
      rewrite (count_true_refine (fun s => r1 s v) (fun s => r2 s v) ss n); [exact E| |exact En].
      intros x c _ Hx. apply H. exact Hx.
    - destruct (lookup name defs); [apply H; exact E|exact E].
  Qed.

  Lemma validates_mono : forall f s v b,
    validates f s v = Some b -> validates (S f) s v = Some b.
  Proof.
    induction f as [|f IH]; intros s v b E; [discriminate|].
    change (all_opt (map (fun k => valid_kw (validates (S f)) k v) (kws_of s)) = Some b).
    change (all_opt (map (fun k => valid_kw (validates f) k v) (kws_of s)) = Some b) in E.
    eapply all_opt_refine; [|exact E].
    intros k c _ Hk. eapply valid_kw_refine; [|exact Hk]. exact IH.
  Qed.

  Lemma validates_le : forall f f' s v b,
    (f <= f')%nat -> validates f s v = Some b -> validates f' s v = Some b.
  Proof.
    intros f f' s v b Hle E. induction Hle as [|f' Hle IH]; [exact E|].
    apply validates_mono. exact IH.
  Qed.

  (** A verdict obtained with enough fuel excludes the opposite verdict at any fuel. *)
  Lemma validates_false_never_true : forall f s v,
    validates f s v = Some false -> forall f', validates f' s v <> Some true.
  Proof.
    intros f s v E f' E'.
    pose proof (validates_le f (Nat.max f f') s v false (Nat.le_max_l _ _) E) as H1.
    pose proof (validates_le f' (Nat.max f f') s v true (Nat.le_max_r _ _) E') as H2.
    rewrite H1 in H2. discriminate.
  Qed.

  Lemma validates_unfold : forall f s v,
    validates (S f) s v = all_opt (map (fun k => valid_kw (validates f) k v) (kws_of s)).
  Proof. reflexivity. Qed.

  (** If one keyword of a schema is not accepted, the schema does not accept. *)
  Lemma validates_kw_rejects : forall f s v k,
    In k (kws_of s) -> valid_kw (validates f) k v <> Some true -> validates (S f) s v <> Some true.
  Proof.
    intros f s v k Hin Hk E. rewrite validates_unfold in E.
    apply Hk. apply (all_opt_true_all _ E). apply in_map_iff. exists k. split; [reflexivity|exact Hin].
  Qed.
End Mono.
