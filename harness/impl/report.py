"""Adapter for C03. JSON stdin -> stdout.
payload = {"reports": [[message, [errors]]], "errors": [nested error], "cli": [argv lists]}
nested error = [message, [underlying nested errors]] (node = None)."""
import concurrent.futures
import io
import json
import os
import pathlib
import subprocess
import sys

from aas_core_codegen import run
from aas_core_codegen.common import Error, LinenoColumner

payload = json.load(sys.stdin)
out = {"reports": [], "errors": [], "cli": []}
for message, errors in payload.get("reports", []):
    w = io.StringIO()
    try:
        run.write_error_report(message=message, errors=errors, stderr=w)
        out["reports"].append({"ok": w.getvalue()})
    except BaseException as e:  # noqa
        out["reports"].append({"exc": type(e).__name__})


def build(e):
    return Error(None, e[0], [build(u) for u in e[1]] if e[1] is not None else None)


lc = LinenoColumner.__new__(LinenoColumner)   # error_message without nodes needs no table
for e in payload.get("errors", []):
    try:
        out["errors"].append({"ok": lc.error_message(build(e))})
    except BaseException as ex:  # noqa
        out["errors"].append({"exc": type(ex).__name__})
def run_cli(job):
    """One CLI process with its own fresh TMPDIR."""
    i, argv = job
    env = dict(os.environ)
    tmp = pathlib.Path(os.environ.get("TMPDIR", "/tmp")) / f"cli-tmp-{i}"
    tmp.mkdir(parents=True, exist_ok=True)
    env["TMPDIR"] = str(tmp)
    p = subprocess.run([sys.executable, *argv], stdout=subprocess.PIPE, stderr=subprocess.PIPE,
                       text=True, timeout=900, env=env)
    return {"rc": p.returncode, "stdout": p.stdout, "stderr": p.stderr}


jobs = list(enumerate(payload.get("cli", [])))
if jobs:
    with concurrent.futures.ThreadPoolExecutor(max_workers=int(payload.get("workers", 8))) as ex:
        out["cli"] = list(ex.map(run_cli, jobs))

# the front end as main.execute runs it: run.load_model -> the text written to stderr
out["frontend"] = []
work = pathlib.Path(os.environ.get("TMPDIR", "/tmp"))
for i, text in enumerate(payload.get("frontend", [])):
    path = work / f"model_{i}.py"
    path.write_text(text, encoding="utf-8")
    try:
        _, err = run.load_model(path)
        out["frontend"].append({"stderr": err})
    except BaseException as e:  # noqa
        out["frontend"].append({"exc": type(e).__name__})
json.dump(out, sys.stdout)
