(** Executable model of the name-collision checks of the six SDK targets:
    [<target>/lib/_generate_types.py]: [_verify_intra_structure_collisions],
    [_verify_structure_name_collisions], [verify] — as written (with the repair of
    [_verify_intra_structure_collisions] returning its error instead of [None]);
    and of the duplicate-definition detection of [jsonschema/main.py]
    ([Definitions.update_for]) and [xsd/main.py] ([observed_definitions]).

    The meta-model is abstracted to what these functions read from the intermediate
    symbol table: the sequence [our_types] (enumerations with their literal names,
    constrained primitives, classes with abstract/concrete flag and the names of
    [cls.properties] and [cls.methods], both including inherited ones exactly as the
    symbol table lists them), the constants and the verification functions.

    No proofs in this file. *)
From Coq Require Import List NArith Bool.
From Coq Require Strings.String.
Import Coq.Strings.String.StringSyntax.
From Acg Require Import Base.Outcome Base.Str Model.Naming.
Import ListNotations.

(** * Abstract meta-model *)
Record enum_t := { en_name : text; en_lits : list text }.
Record class_t := { cl_name : text; cl_abstract : bool;
                    cl_props : list text; cl_methods : list text }.
Inductive our_type :=
| OEnum (e : enum_t)
| OCons (name : text)              (* constrained primitive *)
| OClass (c : class_t).
Record mm := { mm_types : list our_type; mm_consts : list text; mm_funcs : list text }.

Definition ot_name (t : our_type) : text :=
  match t with OEnum e => en_name e | OCons n => n | OClass c => cl_name c end.

(** [symbol_table.enumerations], [symbol_table.classes] (filtered from [our_types],
    order kept). *)
Definition enums_of (m : mm) : list enum_t :=
  flat_map (fun t => match t with OEnum e => [e] | _ => [] end) (mm_types m).
Definition classes_of (m : mm) : list class_t :=
  flat_map (fun t => match t with OClass c => [c] | _ => [] end) (mm_types m).
(** [itertools.chain(symbol_table.enumerations, symbol_table.classes)] *)
Definition enums_then_classes (m : mm) : list our_type :=
  map OEnum (enums_of m) ++ map OClass (classes_of m).

(** * The "observed" dictionary loop shared by all checks:
    [if name in observed: errors.append(...) else: observed[name] = ...].
    Returns the number of appended errors. *)
Fixpoint observe_from (observed : list text) (names : list text) : nat :=
  match names with
  | [] => 0
  | n :: r => if mem_text n observed then S (observe_from observed r)
              else observe_from (n :: observed) r
  end.
Definition observe (names : list text) : nat := observe_from [] names.

(** Names computed by a loop body for every entity, in iteration order; a crash of a
    naming function escapes the whole loop. *)
Definition names_of {A} (f : A -> res (list text)) (l : list A) : res (list text) :=
  do ls <- mapM f l; Ok (concat ls).
Definition one (r : res text) : res (list text) := do x <- r; Ok [x].
Definition seqM (rs : list (res text)) : res (list text) := mapM (fun r => r) rs.

(** Which generator. *)
Inductive target := Cpp | Csharp | Golang | Java | Python | Typescript.

(** * Inter-structure part of [_verify_structure_name_collisions]: the names entered
      into [observed_type_names]/[observed_structure_names], in the order of the code. *)
Definition structure_names_of_type (t : target) (o : our_type) : res (list text) :=
  match t, o with
  | _, OCons _ => Ok []
  | Cpp, OEnum e => one (cpp_enum_name (en_name e))
  | Cpp, OClass c =>
      if cl_abstract c then one (cpp_interface_name (cl_name c))
      else seqM [cpp_interface_name (cl_name c); cpp_class_name (cl_name c)]
  | Csharp, OEnum e => one (csharp_enum_name (en_name e))
  | Csharp, OClass c =>
      if cl_abstract c then one (csharp_interface_name (cl_name c))
      else seqM [csharp_interface_name (cl_name c); csharp_class_name (cl_name c)]
  | Golang, OEnum e => one (go_enum_name (en_name e))
  | Golang, OClass c =>
      if cl_abstract c then one (go_interface_name (cl_name c))
      else seqM [go_interface_name (cl_name c); go_struct_name (cl_name c)]
  | Java, OEnum e => one (java_enum_name (en_name e))
  | Java, OClass c =>
      if cl_abstract c then one (java_interface_name (cl_name c))
      else seqM [java_interface_name (cl_name c); java_class_name (cl_name c)]
  | Python, OEnum e => one (py_enum_name (en_name e))
  | Python, OClass c => one (py_class_name (cl_name c))
  | Typescript, OEnum e => one (ts_enum_name (en_name e))
  | Typescript, OClass c => one (ts_class_name (cl_name c))
  end.

(** Go only: enumeration literals are package-level constants and share the
    dictionary with the structure names. *)
Definition go_literal_names (e : enum_t) : res (list text) :=
  mapM (fun l => go_enum_literal_name (en_name e) l) (en_lits e).

(** Iteration order of the inter-structure loop: cpp, golang, python iterate over
    [chain(enumerations, classes)]; csharp, java, typescript over [our_types]. *)
Definition structure_iteration (t : target) (m : mm) : list our_type :=
  match t with
  | Cpp | Golang | Python => enums_then_classes m
  | Csharp | Java | Typescript => mm_types m
  end.

Definition structure_names (t : target) (m : mm) : res (list text) :=
  do a <- names_of (structure_names_of_type t) (structure_iteration t m);
  match t with
  | Golang => do b <- names_of go_literal_names (enums_of m); Ok (a ++ b)
  | _ => Ok a
  end.

(** * [_verify_intra_structure_collisions]: the names entered into the per-type
      dictionary, in the order of the code. *)
Definition literal_names (t : target) (e : enum_t) : res (list text) :=
  match t with
  | Cpp => mapM cpp_enum_literal_name (en_lits e)
  | Python => mapM py_enum_literal_name (en_lits e)
  | Typescript => mapM ts_enum_literal_name (en_lits e)
  | Csharp | Java | Golang => Ok []                  (* [pass] *)
  end.

Definition member_names (t : target) (c : class_t) : res (list text) :=
  match t with
  | Cpp =>
      do ps <- names_of (fun p => seqM [cpp_getter_name p; cpp_mutable_getter_name p;
                                        cpp_setter_name p; cpp_private_property_name p])
                        (cl_props c);
      do ms <- mapM cpp_method_name (cl_methods c); Ok (ps ++ ms)
  | Csharp =>
      do ps <- mapM csharp_property_name (cl_props c);
      do ms <- mapM csharp_method_name (cl_methods c); Ok (ps ++ ms)
  | Golang =>
      do ps <- names_of (fun p => seqM [go_getter_name p; go_setter_name p]) (cl_props c);
      do ms <- mapM go_method_name (cl_methods c); Ok (ps ++ ms)
  | Java =>
      do ps <- mapM java_property_name (cl_props c);
      do ms <- mapM java_method_name (cl_methods c); Ok (ps ++ ms)
  | Python =>
      do ps <- mapM py_property_name (cl_props c);
      do ms <- mapM py_method_name (cl_methods c); Ok (ps ++ ms)
  | Typescript =>
      do ps <- mapM ts_property_name (cl_props c);
      do ms <- mapM ts_method_name (cl_methods c); Ok (ps ++ ms)
  end.

Definition intra_names (t : target) (o : our_type) : res (list text) :=
  match o with
  | OEnum e => literal_names t e
  | OCons _ => Ok []
  | OClass c => member_names t c
  end.

(** [Some error] iff the list of underlying errors is not empty: 1 or 0 errors. *)
Definition intra_errors (t : target) (o : our_type) : res nat :=
  do ns <- intra_names t o;
  Ok (match observe ns with O => O | S _ => 1%nat end).

Fixpoint sumM {A} (f : A -> res nat) (l : list A) : res nat :=
  match l with
  | [] => Ok O
  | x :: r => do a <- f x; do b <- sumM f r; Ok (a + b)%nat
  end.

(** [_verify_structure_name_collisions]: the length of the returned error list. *)
Definition structure_name_collisions (t : target) (m : mm) : res nat :=
  do ns <- structure_names t m;
  do k <- sumM (intra_errors t) (mm_types m);
  Ok (observe ns + k)%nat.

(** [verify]: [Ok tt] = the verified symbol table is returned, [Err n] = [n] errors. *)
Definition verify (t : target) (m : mm) : res unit :=
  do n <- structure_name_collisions t m;
  match n with O => Ok tt | S _ => Err n end.

(** * Scopes of the generated code and the names declared in them.
      [SModule]: type-level declarations of the types module/namespace/package;
      [SLiterals i]: literals of the enumeration at position [i] of [our_types];
      [SMembers i]: members of the class at position [i];
      [SConstants], [SFunctions]: the constants and the verification functions. *)
Inductive scope := SModule | SLiterals (i : nat) | SMembers (i : nat) | SConstants | SFunctions.

Definition all_literal_names (t : target) (e : enum_t) : res (list text) :=
  match t with
  | Cpp => mapM cpp_enum_literal_name (en_lits e)
  | Csharp => mapM csharp_enum_literal_name (en_lits e)
  | Golang => go_literal_names e
  | Java => mapM java_enum_literal_name (en_lits e)
  | Python => mapM py_enum_literal_name (en_lits e)
  | Typescript => mapM ts_enum_literal_name (en_lits e)
  end.

Definition constant_namer (t : target) : text -> res text :=
  match t with
  | Cpp => cpp_constant_name | Csharp => csharp_property_name
  | Golang => go_constant_name | Java => java_property_name
  | Python => py_constant_name | Typescript => ts_constant_name
  end.
Definition function_namer (t : target) : text -> res text :=
  match t with
  | Cpp => cpp_function_name | Csharp => csharp_method_name
  | Golang => go_function_name | Java => java_method_name
  | Python => py_function_name | Typescript => ts_function_name
  end.

Definition generated_names (t : target) (m : mm) (s : scope) : res (list text) :=
  match s with
  | SModule => structure_names t m
  | SLiterals i =>
      match nth_error (mm_types m) i with
      | Some (OEnum e) => all_literal_names t e
      | _ => Ok []
      end
  | SMembers i =>
      match nth_error (mm_types m) i with
      | Some (OClass c) => member_names t c
      | _ => Ok []
      end
  | SConstants => mapM (constant_namer t) (mm_consts m)
  | SFunctions => mapM (function_namer t) (mm_funcs m)
  end.

(** Scopes whose collisions the target's [verify] looks at. *)
Definition scope_checked (t : target) (s : scope) : bool :=
  match s with
  | SModule | SMembers _ => true
  | SLiterals _ => match t with Csharp | Java => false | _ => true end
  | SConstants | SFunctions => false
  end.

(** Java additionally declares [getX]/[setX] accessors next to the methods; they
    are not looked at by [verify] (used for a refutation example only). *)
Definition java_accessor_names (c : class_t) : res (list text) :=
  do ps <- names_of (fun p => seqM [java_getter_name p; java_setter_name p]) (cl_props c);
  do ms <- mapM java_method_name (cl_methods c); Ok (ps ++ ms).

(** * Duplicate-definition detection of the schema generators.
      jsonschema [Definitions.update_for]: the first key already present aborts with
      an error; xsd: every (tag, name) pair already observed appends an error. *)
Fixpoint update_for (defs : list text) (ext : list text) : outcome (list text) nat :=
  match ext with
  | [] => Ok defs
  | k :: r => if mem_text k defs then Err 1%nat else update_for (k :: defs) r
  end.
Fixpoint update_all (defs : list text) (exts : list (list text)) : outcome (list text) nat :=
  match exts with
  | [] => Ok defs
  | e :: r => do d <- update_for defs e; update_all d r
  end.

Definition pair_eqb (a b : text * text) : bool :=
  text_eqb (fst a) (fst b) && text_eqb (snd a) (snd b).
Fixpoint mem_pair (x : text * text) (l : list (text * text)) : bool :=
  match l with [] => false | y :: r => pair_eqb x y || mem_pair x r end.
Fixpoint xsd_observe_from (obs : list (text * text)) (els : list (text * option text)) : nat :=
  match els with
  | [] => 0
  | (_, None) :: r => xsd_observe_from obs r           (* element without a name: continue *)
  | (tag, Some n) :: r =>
      if mem_pair (tag, n) obs then S (xsd_observe_from obs r)
      else xsd_observe_from ((tag, n) :: obs) r
  end.
Definition xsd_observed_definitions (els : list (text * option text)) : outcome unit nat :=
  match xsd_observe_from [] els with O => Ok tt | S k => Err (S k) end.
