(** C06 — basic reflection lemmas used by Proofs/RulesFacts.v. *)
From Coq Require Import List NArith Bool Lia.
From Acg Require Import Base.Str Model.Rules.
Import ListNotations.
Open Scope N_scope.

Lemma rb_text_eqb_eq : forall a b : text, text_eqb a b = true <-> a = b.
Proof.
  induction a as [|x a IH]; destruct b as [|y b]; cbn [text_eqb]; split; intro H;
    try reflexivity; try discriminate.
  - apply andb_true_iff in H. destruct H as [H1 H2]. apply N.eqb_eq in H1.
    apply IH in H2. subst. reflexivity.
  - injection H as -> ->. rewrite N.eqb_refl. cbn. apply IH. reflexivity.
Qed.

Lemma rb_text_eqb_refl : forall a, text_eqb a a = true.
Proof. intro a. apply rb_text_eqb_eq. reflexivity. Qed.

Lemma rb_mem_text_In : forall x l, mem_text x l = true <-> In x l.
Proof.
  intros x l. induction l as [|y l IH]; cbn [mem_text In].
  - split; [discriminate | tauto].
  - rewrite orb_true_iff, IH, rb_text_eqb_eq. split; intros [H|H]; auto.
Qed.

Lemma rb_mem_text_false : forall x l, mem_text x l = false <-> ~ In x l.
Proof.
  intros x l. rewrite <- rb_mem_text_In. destruct (mem_text x l); split; intro H;
    try reflexivity; try discriminate; try (intro H'; discriminate).
  exfalso. apply H. reflexivity.
Qed.

Lemma rb_nodupb_spec : forall l, nodupb l = true <-> NoDup l.
Proof.
  induction l as [|x l IH]; cbn [nodupb].
  - split; [constructor | reflexivity].
  - rewrite andb_true_iff, negb_true_iff, rb_mem_text_false, IH. split.
    + intros [H1 H2]. constructor; assumption.
    + intro H. inversion H; subst. split; assumption.
Qed.

Lemma rb_ty_eqb_eq : forall a b : ty, ty_eqb a b = true <-> a = b.
Proof.
  induction a as [p|n|t IH|t IH]; destruct b as [p'|n'|t'|t']; cbn [ty_eqb]; split; intro H;
    try discriminate.
  - apply rb_text_eqb_eq in H. subst. reflexivity.
  - injection H as ->. apply rb_text_eqb_refl.
  - apply rb_text_eqb_eq in H. subst. reflexivity.
  - injection H as ->. apply rb_text_eqb_refl.
  - apply IH in H. subst. reflexivity.
  - injection H as ->. apply IH. reflexivity.
  - apply IH in H. subst. reflexivity.
  - injection H as ->. apply IH. reflexivity.
Qed.

(** ** Combinators *)

Lemma rb_and : forall (a b : bool) (A B : Prop),
  (a = true <-> A) -> (b = true <-> B) -> ((a &&& b) = true <-> A /\ B).
Proof.
  intros a b A B HA HB. destruct a.
  - rewrite HB. split; [intro H; split; [apply HA; reflexivity | exact H] | intros [_ H]; exact H].
  - split; [discriminate | intros [H _]; apply HA in H; discriminate].
Qed.

Lemma rb_and_dep : forall (a b : bool) (A B : Prop),
  (a = true <-> A) -> (A -> (b = true <-> B)) -> ((a &&& b) = true <-> A /\ B).
Proof.
  intros a b A B HA HB. destruct a.
  - assert (HA' : A) by (apply HA; reflexivity). specialize (HB HA').
    rewrite HB. split; [intro H; split; assumption | intros [_ H]; exact H].
  - split; [discriminate | intros [H _]; apply HA in H; discriminate].
Qed.

Lemma rb_andb : forall (a b : bool) (A B : Prop),
  (a = true <-> A) -> (b = true <-> B) -> (a && b = true <-> A /\ B).
Proof. intros a b A B HA HB. rewrite andb_true_iff, HA, HB. reflexivity. Qed.

Lemma rb_orb : forall (a b : bool) (A B : Prop),
  (a = true <-> A) -> (b = true <-> B) -> (a || b = true <-> A \/ B).
Proof. intros a b A B HA HB. rewrite orb_true_iff, HA, HB. reflexivity. Qed.

Lemma rb_negb : forall (a : bool) (A : Prop), (a = true <-> A) -> (negb a = true <-> ~ A).
Proof.
  intros a A HA. destruct a; cbn.
  - split; [discriminate | intro H; exfalso; apply H; apply HA; reflexivity].
  - split; [intros _ H; apply HA in H; discriminate | reflexivity].
Qed.

Lemma rb_forallb : forall {X} (f : X -> bool) (P : X -> Prop) (l : list X),
  (forall x, In x l -> (f x = true <-> P x)) ->
  (forallb f l = true <-> forall x, In x l -> P x).
Proof.
  intros X f P l H. rewrite forallb_forall. split; intros H' x Hx.
  - apply H; [exact Hx | apply H'; exact Hx].
  - apply H; [exact Hx | apply H'; exact Hx].
Qed.

Lemma rb_existsb : forall {X} (f : X -> bool) (P : X -> Prop) (l : list X),
  (forall x, In x l -> (f x = true <-> P x)) ->
  (existsb f l = true <-> exists x, In x l /\ P x).
Proof.
  intros X f P l H. rewrite existsb_exists. split; intros [x [Hx Hp]]; exists x; split; try exact Hx.
  - apply H; assumption.
  - apply H; assumption.
Qed.

Lemma rb_forallb_false : forall {X} (f : X -> bool) (l : list X),
  forallb f l = false -> exists x, In x l /\ f x = false.
Proof.
  intros X f l. induction l as [|x l IH]; cbn [forallb]; intro H; [discriminate|].
  apply andb_false_iff in H. destruct H as [H|H].
  - exists x. split; [left; reflexivity | exact H].
  - destruct (IH H) as [y [Hy Hf]]. exists y. split; [right; exact Hy | exact Hf].
Qed.

Lemma rb_filter_split_length : forall {X} (f : X -> bool) (l : list X),
  (length (filter f l) + length (filter (fun x => negb (f x)) l) = length l)%nat.
Proof.
  intros X f l. induction l as [|x l IH]; cbn [filter length]; [reflexivity|].
  destruct (f x); cbn [negb length]; lia.
Qed.

Lemma rb_nodup_map_inj : forall {X} (f : X -> text) (l : list X) x y,
  NoDup (map f l) -> In x l -> In y l -> f x = f y -> x = y.
Proof.
  intros X f l. induction l as [|z l IH]; intros x y Hn Hx Hy Hf; [destruct Hx|].
  cbn [map] in Hn. inversion Hn as [|? ? Hz Hn']; subst.
  destruct Hx as [->|Hx]; destruct Hy as [->|Hy].
  - reflexivity.
  - exfalso. apply Hz. rewrite Hf. apply in_map. exact Hy.
  - exfalso. apply Hz. rewrite <- Hf. apply in_map. exact Hx.
  - apply IH; assumption.
Qed.

Lemma rb_nodup_app_r : forall {X} (l l' : list X), NoDup (l ++ l') -> NoDup l'.
Proof.
  intros X l l'. induction l as [|x l IH]; cbn [app]; intro H; [exact H|].
  inversion H; subst. apply IH. assumption.
Qed.
