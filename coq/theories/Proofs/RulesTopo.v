(** C06 — the topological stacking pass [topo] decides well-founded inheritance:
    with unique node names, [topo (length nds) [] nds] succeeds iff every base exists and
    every node is [Grounded]. In particular the fuel [length nds] always suffices. *)
From Coq Require Import List NArith Bool Lia Relations.
From Acg Require Import Base.Str Model.Rules Proofs.RulesBase.
Import ListNotations.
Open Scope N_scope.

Definition dom (t : tbl) : list text := map fst t.

Lemma known_dom : forall t n, known t n = true <-> In n (dom t).
Proof.
  intros t n. unfold known. induction t as [|[k v] t IH]; cbn [lookup dom map fst In].
  - split; [discriminate | tauto].
  - destruct (text_eqb n k) eqn:E.
    + apply rb_text_eqb_eq in E. subst. split; [intros _; left; reflexivity | reflexivity].
    + rewrite IH. unfold dom. split; [intro H; right; exact H|].
      intros [H|H]; [|exact H]. subst. rewrite rb_text_eqb_refl in E. discriminate.
Qed.

Lemma in_edges : forall nds n b,
  In (n, b) (edges nds) <-> exists nd, In nd nds /\ n_name nd = n /\ In b (n_bases nd).
Proof.
  intros nds n b. unfold edges. rewrite in_flat_map. split.
  - intros [nd [Hnd H]]. apply in_map_iff in H. destruct H as [b' [Heq Hb]].
    injection Heq as <- <-. exists nd. auto.
  - intros [nd [Hnd [Hn Hb]]]. exists nd. split; [exact Hnd|]. apply in_map_iff.
    exists b. subst. auto.
Qed.

(** A Grounded node is on no cycle. *)
Lemma grounded_no_cycle : forall es n,
  Grounded es n -> ~ clos_trans text (fun a b => In (a, b) es) n n.
Proof.
  intros es n G. induction G as [n _ IH]. intro C.
  apply clos_trans_t1n in C.
  inversion C as [? E | b ? E C']; subst.
  - apply (IH n E). apply t_step. exact E.
  - apply (IH b E). apply clos_t1n_trans in C'.
    eapply t_trans; [exact C' | apply t_step; exact E].
Qed.

Section Topo.
  Variable nds : list node.
  Hypothesis Huniq : NoDup (map n_name nds).

  Let es := edges nds.

  Lemma edges_of_node : forall nd b, In nd nds -> In (n_name nd, b) es -> In b (n_bases nd).
  Proof.
    intros nd b Hnd He. apply in_edges in He. destruct He as [nd' [Hnd' [Hn Hb]]].
    assert (nd' = nd) by (eapply rb_nodup_map_inj; eauto). subst. exact Hb.
  Qed.

  Lemma ready_grounded : forall t nd,
    (forall n, In n (dom t) -> Grounded es n) -> In nd nds -> readyb t nd = true ->
    Grounded es (n_name nd).
  Proof.
    intros t nd Ht Hnd Hr. constructor. intros b Hb.
    apply edges_of_node in Hb; [|exact Hnd].
    unfold readyb in Hr. rewrite forallb_forall in Hr. apply Ht. apply known_dom. apply Hr. exact Hb.
  Qed.

  Lemma dom_step : forall t (rdy : list node),
    dom (map (fun nd => (n_name nd, mk_info t nd)) rdy ++ t) = map n_name rdy ++ dom t.
  Proof.
    intros t rdy. unfold dom. rewrite map_app, map_map. reflexivity.
  Qed.

  Lemma topo_sound : forall fuel t rem t',
    (forall n, In n (dom t) -> Grounded es n) ->
    (forall nd, In nd rem -> In nd nds) ->
    topo fuel t rem = Some t' ->
    forall nd, In nd rem -> Grounded es (n_name nd).
  Proof.
    induction fuel as [|f IH]; intros t rem t' Ht Hrem Htopo nd Hnd.
    - destruct rem; [destruct Hnd | discriminate].
    - destruct rem as [|r0 rem0]; [destruct Hnd|].
      remember (r0 :: rem0) as rem eqn:Erem.
      assert (Htopo' : match filter (readyb t) rem with
                       | [] => None
                       | rdy => topo f (map (fun nd => (n_name nd, mk_info t nd)) rdy ++ t)
                                  (filter (fun nd => negb (readyb t nd)) rem)
                       end = Some t').
      { rewrite Erem in *. exact Htopo. }
      clear Htopo.
      destruct (readyb t nd) eqn:Er.
      + apply (ready_grounded t); auto.
      + remember (filter (readyb t) rem) as rdy eqn:Erdy.
        destruct rdy as [|x rdy']; [discriminate|].
        eapply (IH _ _ t'); [| | exact Htopo' |].
        * intros n Hn. rewrite dom_step in Hn. apply in_app_or in Hn. destruct Hn as [Hn|Hn]; [|auto].
          apply in_map_iff in Hn. destruct Hn as [nd' [<- Hnd']].
          rewrite Erdy in Hnd'. apply filter_In in Hnd'. destruct Hnd' as [Hin Hr].
          apply (ready_grounded t); auto.
        * intros nd' Hnd'. apply filter_In in Hnd'. apply Hrem. tauto.
        * apply filter_In. split; [exact Hnd | rewrite Er; reflexivity].
  Qed.

  Lemma topo_bases : forall fuel t rem t',
    (forall n, In n (dom t) -> In n (map n_name nds)) ->
    (forall nd, In nd rem -> In nd nds) ->
    topo fuel t rem = Some t' ->
    forall nd, In nd rem -> forall b, In b (n_bases nd) -> In b (map n_name nds).
  Proof.
    induction fuel as [|f IH]; intros t rem t' Ht Hrem Htopo nd Hnd b Hb.
    - destruct rem; [destruct Hnd | discriminate].
    - destruct rem as [|r0 rem0]; [destruct Hnd|].
      remember (r0 :: rem0) as rem eqn:Erem.
      assert (Htopo' : match filter (readyb t) rem with
                       | [] => None
                       | rdy => topo f (map (fun nd => (n_name nd, mk_info t nd)) rdy ++ t)
                                  (filter (fun nd => negb (readyb t nd)) rem)
                       end = Some t').
      { rewrite Erem in *. exact Htopo. }
      clear Htopo.
      destruct (readyb t nd) eqn:Er.
      + unfold readyb in Er. rewrite forallb_forall in Er. apply Ht. apply known_dom. apply Er. exact Hb.
      + remember (filter (readyb t) rem) as rdy eqn:Erdy.
        destruct rdy as [|x rdy']; [discriminate|].
        eapply (IH _ _ t'); [| | exact Htopo' | | exact Hb].
        * intros n Hn. rewrite dom_step in Hn. apply in_app_or in Hn. destruct Hn as [Hn|Hn]; [|auto].
          apply in_map_iff in Hn. destruct Hn as [nd' [<- Hnd']].
          rewrite Erdy in Hnd'. apply filter_In in Hnd'. destruct Hnd' as [Hin Hr].
          apply in_map. apply Hrem. exact Hin.
        * intros nd' Hnd'. apply filter_In in Hnd'. apply Hrem. tauto.
        * apply filter_In. split; [exact Hnd | rewrite Er; reflexivity].
  Qed.

  Hypothesis Hbases : forall nd, In nd nds -> forall b, In b (n_bases nd) -> In b (map n_name nds).

  Lemma progress : forall t rem,
    (forall nd, In nd rem -> In nd nds) ->
    (forall nd, In nd nds -> In nd rem \/ In (n_name nd) (dom t)) ->
    forall n, Grounded es n -> forall nd, In nd rem -> n_name nd = n ->
    exists nd', In nd' rem /\ readyb t nd' = true.
  Proof.
    intros t rem Hrem Hcov n G. induction G as [n _ IH]. intros nd Hnd Hn.
    destruct (readyb t nd) eqn:Er; [exists nd; auto|].
    unfold readyb in Er. apply rb_forallb_false in Er. destruct Er as [b [Hb Hk]].
    assert (Hbn : In b (map n_name nds)) by (eapply Hbases; eauto).
    apply in_map_iff in Hbn. destruct Hbn as [ndb [Hnb Hndb]].
    destruct (Hcov ndb Hndb) as [Hin|Hin].
    - apply (IH b) with (nd := ndb); auto.
      apply in_edges. exists nd. subst. auto.
    - exfalso. rewrite Hnb in Hin. apply known_dom in Hin. rewrite Hin in Hk. discriminate.
  Qed.

  Hypothesis Hgr : forall nd, In nd nds -> Grounded es (n_name nd).

  Lemma topo_complete : forall fuel t rem,
    (forall nd, In nd rem -> In nd nds) ->
    (forall nd, In nd nds -> In nd rem \/ In (n_name nd) (dom t)) ->
    (length rem <= fuel)%nat ->
    exists t', topo fuel t rem = Some t'.
  Proof.
    induction fuel as [|f IH]; intros t rem Hrem Hcov Hlen.
    - destruct rem; [exists t; reflexivity | cbn in Hlen; lia].
    - destruct rem as [|r0 rem0]; [exists t; reflexivity|].
      remember (r0 :: rem0) as rem eqn:Erem.
      assert (Hgoal : exists t', match filter (readyb t) rem with
                       | [] => None
                       | rdy => topo f (map (fun nd => (n_name nd, mk_info t nd)) rdy ++ t)
                                  (filter (fun nd => negb (readyb t nd)) rem)
                       end = Some t').
      2:{ rewrite Erem in *. exact Hgoal. }
      assert (Hr0 : In r0 rem) by (rewrite Erem; left; reflexivity).
      destruct (progress t rem Hrem Hcov (n_name r0) (Hgr r0 (Hrem r0 Hr0)) r0 Hr0 eq_refl)
        as [nd' [Hnd' Hready]].
      assert (Hin : In nd' (filter (readyb t) rem)) by (apply filter_In; auto).
      remember (filter (readyb t) rem) as rdy eqn:Erdy.
      destruct rdy as [|x rdy']; [destruct Hin|].
      apply IH.
      + intros nd Hnd. apply filter_In in Hnd. apply Hrem. tauto.
      + intros nd Hnd. rewrite dom_step.
        destruct (Hcov nd Hnd) as [H|H].
        * destruct (readyb t nd) eqn:Er.
          -- right. apply in_or_app. left. apply in_map. rewrite Erdy. apply filter_In. auto.
          -- left. apply filter_In. rewrite Er. auto.
        * right. apply in_or_app. right. exact H.
      + pose proof (rb_filter_split_length (readyb t) rem) as Hsplit.
        rewrite <- Erdy in Hsplit. cbn [length] in Hsplit. lia.
  Qed.
End Topo.

(** The theorem about the fuel: on a hierarchy with unique names, [topo] with fuel
    [length nds] fails exactly when a base is missing or some node is not grounded. *)
Theorem topo_decides : forall nds,
  NoDup (map n_name nds) ->
  ((exists t, topo (length nds) [] nds = Some t)
   <-> (forall nd, In nd nds -> forall b, In b (n_bases nd) -> In b (map n_name nds))
       /\ (forall nd, In nd nds -> Grounded (edges nds) (n_name nd))).
Proof.
  intros nds Hu. split.
  - intros [t Ht]. split.
    + intros nd Hnd b Hb. eapply (topo_bases nds (length nds) [] nds t); eauto. intros n [].
    + intros nd Hnd. eapply (topo_sound nds Hu (length nds) [] nds t); eauto. intros n [].
  - intros [Hb Hg]. apply (topo_complete nds Hb Hg); auto.
Qed.
