"""Shared helpers of the cache adapters (run with the repository's interpreter).

* fingerprint(obj): canonical hash of an object graph (symbol table + atok): structure,
  atoms, sharing; the derived `*_id_set` attributes are translated from id() values to
  the canonical indices of the objects they denote (an id that denotes no object of the
  graph is reported as DANGLING) — so two graphs have equal fingerprints iff they answer
  every attribute / membership query alike.
* run_child(fn): run fn in a forked child (fresh tempfile state, own audit hook) and
  return what it reports.
"""
import enum
import gc
import hashlib
import inspect
import itertools
import json
import os
import pathlib
import re
import sys
import tempfile
import traceback
import types

ATOMS = (str, bytes, bytearray, int, float, bool, type(None), complex)


class _IdSet:
    def __init__(self, ids):
        self.ids = ids


def _children(o):
    """Deterministic list of (label, child) of a container/object; None for atoms."""
    if isinstance(o, ATOMS):
        return None
    if isinstance(o, enum.Enum):
        return None
    if isinstance(o, (type, types.FunctionType, types.BuiltinFunctionType, types.ModuleType,
                      types.MethodType, re.Pattern, pathlib.PurePath, _IdSet)):
        return None
    if isinstance(o, (list, tuple)):
        return [(str(i), v) for i, v in enumerate(o)]
    if isinstance(o, dict):
        out = []
        for i, (k, v) in enumerate(o.items()):
            out.append((f"k{i}", k))
            out.append((f"v{i}", v))
        return out
    if isinstance(o, (set, frozenset)):
        if all(isinstance(x, (str, int)) for x in o):
            return [(str(i), v) for i, v in enumerate(sorted(o, key=lambda x: (str(type(x)), x)))]
        return [(str(i), v) for i, v in enumerate(sorted(o, key=lambda x: repr(type(x))))]
    items = []
    d = getattr(o, "__dict__", None)
    if isinstance(d, dict):
        for k in sorted(d):
            v = d[k]
            if "id_set" in k and isinstance(v, (set, frozenset)) and all(isinstance(x, int) for x in v):
                v = _IdSet(v)
            items.append((k, v))
    for cls in type(o).__mro__:
        for s in getattr(cls, "__slots__", ()) or ():
            if isinstance(s, str) and hasattr(o, s) and s not in ("__dict__", "__weakref__"):
                items.append((s, getattr(o, s)))
    return items


def _atom(o, index):
    if isinstance(o, _IdSet):
        idx = []
        for i in o.ids:
            idx.append(index.get(i, "DANGLING"))
        return "idset:" + ",".join(sorted(str(x) for x in idx))
    if isinstance(o, enum.Enum):
        return f"enum:{type(o).__module__}.{type(o).__qualname__}.{o.name}"
    if isinstance(o, (type, types.FunctionType, types.BuiltinFunctionType)):
        return f"named:{getattr(o, '__module__', '')}.{getattr(o, '__qualname__', repr(o))}"
    if isinstance(o, types.ModuleType):
        return f"module:{o.__name__}"
    if isinstance(o, re.Pattern):
        return f"re:{o.pattern!r}:{o.flags}"
    if isinstance(o, float):
        return f"float:{o!r}"
    return f"{type(o).__name__}:{o!r}"


def _index_graph(root):
    index = {}
    order = []
    stack = [root]
    # pass 1: canonical indices in DFS preorder (explicit stack, children in reverse)
    while stack:
        o = stack.pop()
        ch = _children(o)
        if ch is None:
            continue
        if id(o) in index:
            continue
        index[id(o)] = len(order)
        order.append((o, ch))
        for _, c in reversed(ch):
            if _children(c) is not None and id(c) not in index:
                stack.append(c)
    return index, order


def fingerprint(root, with_queries=True):
    """(fingerprint, number of objects). The fingerprint is the hash of the structure of the
    object graph, followed (with_queries) by the hash of the answers to every public query."""
    sys.setrecursionlimit(max(sys.getrecursionlimit(), 10000))
    index, order = _index_graph(root)
    # pass 2: one flat record per object
    h = hashlib.sha256()
    dangling = 0
    for o, ch in order:
        h.update(f"\n@{index[id(o)]}:{type(o).__module__}.{type(o).__qualname__}:".encode())
        for label, c in ch:
            if isinstance(c, _IdSet) or _children(c) is None:
                a = _atom(c, index)
                if "DANGLING" in a:
                    dangling += 1
                h.update(f"{label}={a};".encode("utf-8", "surrogatepass"))
            else:
                h.update(f"{label}=#{index[id(c)]};".encode())
    fp = h.hexdigest()[:24] + (f"!dangling{dangling}" if dangling else "")
    if with_queries:
        try:
            qh, nq = queries(root, index, order)
        except Exception as e:  # the reflection itself failed: visible, never silently equal
            qh, nq = f"QUERY-ERROR-{type(e).__name__}:{e}"[:80], 0
        fp = f"{fp}.q{qh}"
        LAST_QUERY_COUNT[0] = nq
    return fp, len(order)


LAST_QUERY_COUNT = [0]
IR_PREFIX = "aas_core_codegen.intermediate"
MAX_CALLS = 60000


def _canon(v, index, depth=0):
    """Canonical text of a query answer: objects of the graph by canonical index, fresh
    containers/objects structurally (bounded depth)."""
    if isinstance(v, _IdSet):
        return _atom(v, index)
    if isinstance(v, int) and not isinstance(v, bool) and v > 2 ** 32 and v in index:
        return f"id#{index[v]}"          # an id() of an object of the graph
    ch = _children(v)
    if ch is None:
        return _atom(v, index)
    if id(v) in index and depth > 0:
        return f"#{index[id(v)]}"
    if isinstance(v, (types.GeneratorType, map, filter, zip)):
        v = list(v)
        ch = _children(v)
    if depth > 4:
        return f"<{type(v).__name__}>"
    if isinstance(v, (set, frozenset)):
        return "{" + ",".join(sorted(_canon(x, index, depth + 1) for x in v)) + "}"
    tag = type(v).__name__
    return tag + "(" + ",".join(f"{k}={_canon(c, index, depth + 1)}" for k, c in ch) + ")"


def _candidates(ann, pool, names):
    """Arguments to try for a parameter with annotation `ann`."""
    import typing
    if ann is inspect.Parameter.empty or ann is typing.Any:
        return None
    origin = typing.get_origin(ann)
    if origin is typing.Union:
        out = []
        for a in typing.get_args(ann):
            if a is type(None):
                out.append(None)
            else:
                c = _candidates(a, pool, names)
                if c is None:
                    return None
                out += c
        return out
    if isinstance(ann, type):
        if issubclass(ann, str):
            out = []
            for n in names:
                try:
                    out.append(ann(n))
                except BaseException:  # noqa  (e.g. Identifier precondition)
                    pass
            return out
        if ann in (int, float, bool, bytes):
            return None
        return [o for o in pool if isinstance(o, ann)]
    return None


def queries(root, index, order):
    """Ask every public question: for every object of the intermediate representation, every
    public property, attribute and method (enumerated by reflection; methods are called with
    every combination of graph objects / names fitting their parameter annotations), and the
    public module-level functions of intermediate._types over IR objects. Answers are
    canonicalised by graph index so that a fresh and an unpickled table can be compared."""
    import typing
    h = hashlib.sha256()
    pool = [o for o, _ in order if type(o).__module__.startswith(IR_PREFIX)]
    names = sorted({str(getattr(o, "name")) for o in pool if isinstance(getattr(o, "name", None), str)})
    names.append("No_such_name_xyz")
    calls = [0]

    def ask(label, fn, sig_owner, drop_first):
        try:
            hints = typing.get_type_hints(sig_owner)
        except BaseException:  # noqa
            hints = {}
        try:
            params = [p for p in inspect.signature(sig_owner).parameters.values()]
        except (TypeError, ValueError):
            return
        if drop_first:
            params = params[1:]
        required = [p for p in params if p.default is inspect.Parameter.empty
                    and p.kind in (p.POSITIONAL_ONLY, p.POSITIONAL_OR_KEYWORD, p.KEYWORD_ONLY)]
        if any(p.kind in (p.VAR_POSITIONAL, p.VAR_KEYWORD) for p in params) or len(required) > 2:
            return
        cands = []
        for p in required:
            c = _candidates(hints.get(p.name, p.annotation), pool, names)
            if c is None:
                return
            cands.append((p.name, c))
        total = 1
        for _, c in cands:
            total *= max(1, len(c))
        if total > 4000 or calls[0] + total > MAX_CALLS:
            h.update(f"{label}:SKIPPED;".encode())
            return
        for combo in itertools.product(*[c for _, c in cands]):
            calls[0] += 1
            kw = {n: a for (n, _), a in zip(cands, combo)}
            try:
                ans = _canon(fn(**kw), index)
            except BaseException as e:  # noqa
                ans = f"raises:{type(e).__name__}"
            args = ",".join(_canon(a, index, 1) for a in combo)
            h.update(f"{label}({args})={ans};".encode("utf-8", "surrogatepass"))

    for o in pool:
        cls = type(o)
        oi = index[id(o)]
        for name in sorted(set(dir(cls)) | set(getattr(o, "__dict__", {}))):
            if name.startswith("_"):
                continue
            static = inspect.getattr_static(cls, name, None)
            label = f"@{oi}.{name}"
            if isinstance(static, (staticmethod, classmethod)):
                continue
            if isinstance(static, types.FunctionType):
                ask(label, getattr(o, name), static, True)
                continue
            try:
                v = getattr(o, name)
            except BaseException as e:  # noqa
                h.update(f"{label}=raises:{type(e).__name__};".encode())
                continue
            if isinstance(v, (set, frozenset)) and "id_set" in name and all(isinstance(x, int) for x in v):
                v = _IdSet(v)
            calls[0] += 1
            h.update(f"{label}={_canon(v, index, 1)};".encode("utf-8", "surrogatepass"))
    try:
        import aas_core_codegen.intermediate._types as _t
        for name in sorted(vars(_t)):
            fn = vars(_t)[name]
            if (name.startswith("_") or not isinstance(fn, types.FunctionType)
                    or getattr(fn, "__module__", "") != _t.__name__):
                continue
            ask(f"fn.{name}", fn, fn, False)
    except ImportError:
        pass
    return h.hexdigest()[:16], calls[0]


AUDIT = {"open", "os.mkdir", "os.rename", "os.remove", "os.rmdir", "os.truncate", "os.link",
         "os.symlink", "os.chmod", "os.chown", "os.utime", "shutil.rmtree", "shutil.move",
         "shutil.copyfile", "shutil.copytree", "tempfile.mkstemp", "tempfile.mkdtemp",
         "os.listdir", "os.scandir"}


def install_audit(events):
    def hook(name, args):
        if name in AUDIT:
            try:
                if name == "open":
                    p, mode, flags = args
                    w = bool(isinstance(flags, int) and flags & (os.O_WRONLY | os.O_RDWR | os.O_CREAT
                                                                 | os.O_TRUNC | os.O_APPEND))
                    if isinstance(p, int):
                        return
                    events.append(["open_w" if w else "open_r", os.path.abspath(os.fsdecode(p))])
                else:
                    ps = []
                    for a in args[:2]:
                        if isinstance(a, (str, bytes, os.PathLike)):
                            ps.append(os.path.abspath(os.fsdecode(a)))
                    events.append([name] + ps)
            except Exception as e:  # never let the observer change the run
                events.append(["hook-error", repr(e)])
    sys.addaudithook(hook)


_SINK = {"events": None, "installed": False}


def audit_to(events):
    """One process-wide audit hook whose sink can be switched (hooks cannot be removed):
    events are appended to `events` until audit_to(None)."""
    if not _SINK["installed"]:
        class _L(list):
            def append(self, x):
                if _SINK["events"] is not None:
                    _SINK["events"].append(x)
        install_audit(_L())
        _SINK["installed"] = True
    _SINK["events"] = events


def run_inproc(fn, tmpdir):
    """Run fn() in this process as if it were a fresh one w.r.t. the temp directory: TMPDIR
    set, tempfile's cached directory forgotten (so gettempdir() probes again), audit sink
    fresh. Returns fn()'s value with the events recorded while it ran."""
    old = os.environ.get("TMPDIR")
    os.environ["TMPDIR"] = str(tmpdir)
    tempfile.tempdir = None
    events = []
    audit_to(events)
    try:
        data = fn()
    finally:
        audit_to(None)
        tempfile.tempdir = None
        if old is None:
            os.environ.pop("TMPDIR", None)
        else:
            os.environ["TMPDIR"] = old
    data["events"] = events
    return {"exit": 0, "data": data}


def run_child(fn, tmpdir=None, timeout=300):
    """fork; in the child reset tempfile's cached directory, point TMPDIR at `tmpdir`,
    run fn() -> JSON-able; returns {"exit": status, "data": ...}."""
    r, w = os.pipe()
    sys.stdout.flush()
    sys.stderr.flush()
    gc.freeze()
    pid = os.fork()
    if pid == 0:
        code = 0
        try:
            gc.disable()
            os.close(r)
            if tmpdir is not None:
                os.environ["TMPDIR"] = str(tmpdir)
            tempfile.tempdir = None
            data = fn()
            with os.fdopen(w, "w") as f:
                json.dump(data, f)
        except BaseException:  # noqa
            traceback.print_exc()
            code = 70
        finally:
            os._exit(code)
    os.close(w)
    with os.fdopen(r) as f:
        raw = f.read()
    _, status = os.waitpid(pid, 0)
    code = os.waitstatus_to_exitcode(status)
    data = None
    if raw:
        try:
            data = json.loads(raw)
        except ValueError:
            data = None
    return {"exit": code, "data": data}


def result_of(call):
    """Run load_model-like `call()` and classify its outcome."""
    try:
        res, err = call()
    except BaseException as e:  # noqa
        audit_to(None) if _SINK["installed"] else None
        return {"class": "exc", "type": type(e).__name__, "msg": str(e)[:300]}
    if _SINK["installed"]:
        audit_to(None)       # the fingerprinting below is the observer, not the run
    if err is not None:
        return {"class": "err", "msg": err}
    fp, n = fingerprint(res)
    return {"class": "ok", "fp": fp, "objects": n, "queries": LAST_QUERY_COUNT[0]}


def list_tmp(tmpdir):
    """Listing of TMPDIR: {relative path: size} (directories end with /)."""
    out = {}
    base = pathlib.Path(tmpdir)
    for p in sorted(base.rglob("*")):
        rel = str(p.relative_to(base))
        if p.is_dir():
            out[rel + "/"] = 0
        else:
            out[rel] = p.stat().st_size
    return out
