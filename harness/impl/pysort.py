"""Adapter: Python's sorted() on lists of strings (order-normalisation primitive of C22)."""
import json, sys
cases = json.load(sys.stdin)
json.dump([sorted(c) for c in cases], sys.stdout)
