(** Proofs about Model/ArgUnpack.v: totality of the argument unpacking under the
    decidable side condition [spec_ok] (every guarded index is at most its guard). *)
From Coq Require Import List NArith Arith Bool Lia.
From Acg Require Import Base.Outcome Base.Str Model.ArgUnpack.
Import ListNotations.
Open Scope nat_scope.

Section Facts.
  Variable A : Type.

  Lemma index_in_range : forall (xs : list A) i,
    i < length xs -> exists a, index xs i = Ok a.
  Proof.
    intros xs i Hlt. unfold index.
    destruct (nth_error xs i) as [a|] eqn:Hn.
    - exists a. reflexivity.
    - apply nth_error_None in Hn. lia.
  Qed.

  Lemma index_crash_iff : forall (xs : list A) i k,
    index xs i = Crash k <-> (length xs <= i /\ k = IndexError).
  Proof.
    intros xs i k. unfold index. destruct (nth_error xs i) as [a|] eqn:Hn.
    - split; [discriminate|]. intros [Hle _].
      assert (Hs : nth_error xs i <> None) by (rewrite Hn; discriminate).
      apply nth_error_Some in Hs. lia.
    - apply nth_error_None in Hn. split.
      + intros H. inversion H. split; [exact Hn|reflexivity].
      + intros [_ ->]. reflexivity.
  Qed.

  Lemma run_guards_total : forall gs (args : list A) slots,
    forallb guard_ok gs = true ->
    forall k, run_guards gs args slots <> Crash k.
  Proof.
    induction gs as [|g r IH]; intros args slots Hok k; cbn [run_guards].
    - discriminate.
    - cbn [forallb] in Hok. apply andb_true_iff in Hok. destruct Hok as [Hg Hr].
      destruct (Nat.ltb (g_gt g) (length args)) eqn:Hlt.
      + apply Nat.ltb_lt in Hlt. unfold guard_ok in Hg. apply Nat.leb_le in Hg.
        destruct (index_in_range args (g_idx g)) as [a Ha]; [lia|].
        rewrite Ha. cbn [bind]. destruct (g_slot g) as [s|].
        * apply IH. exact Hr.
        * discriminate.
      + apply IH. exact Hr.
  Qed.

  Lemma run_keywords_total : forall tbl (kws : list (option text * A)) slots k,
    run_keywords tbl kws slots <> Crash k.
  Proof.
    intros tbl kws. induction kws as [|[name v] r IH]; intros slots k; cbn [run_keywords].
    - discriminate.
    - destruct (match name with Some n => lookup_kw tbl n | None => None end) as [s|].
      + apply IH.
      + discriminate.
  Qed.

  Theorem unpack_total : forall sp (args : list A) (kws : list (option text * A)),
    spec_ok sp = true -> forall k, unpack sp args kws <> Crash k.
  Proof.
    intros sp args kws Hok k. unfold unpack.
    destruct (run_guards (sp_guards sp) args (repeat None (sp_slots sp))) as [s1|e|k1] eqn:H1;
      cbn [bind].
    - destruct (run_keywords (sp_keywords sp) kws s1) as [s2|e|k2] eqn:H2; cbn [bind].
      + destruct (forallb (slot_set s2) (sp_required sp)); discriminate.
      + discriminate.
      + exfalso. exact (run_keywords_total _ _ _ _ H2).
    - discriminate.
    - exfalso. exact (run_guards_total _ _ _ Hok _ H1).
  Qed.

  (** Converse, so that [spec_ok] is exactly the right condition: a guard whose index
      exceeds its bound crashes on a concrete argument list, provided the earlier
      guards do not return first. Stated for the first guard. *)
  Theorem bad_first_guard_crashes : forall g r (args : list A) slots,
    guard_ok g = false -> length args = S (g_gt g) ->
    run_guards (g :: r) args slots = Crash IndexError.
  Proof.
    intros g r args slots Hbad Hlen. cbn [run_guards].
    assert (Hlt : Nat.ltb (g_gt g) (length args) = true) by (apply Nat.ltb_lt; lia).
    rewrite Hlt. unfold guard_ok in Hbad. apply Nat.leb_gt in Hbad.
    unfold index. destruct (nth_error args (g_idx g)) as [a|] eqn:Hn.
    - assert (Hs : nth_error args (g_idx g) <> None) by (rewrite Hn; discriminate).
      apply nth_error_Some in Hs. lia.
    - reflexivity.
  Qed.
End Facts.

(** The result of a successful unpacking has one entry per slot. *)
Lemma set_slot_length : forall A (slots : list (option A)) i a,
  length (set_slot slots i a) = length slots.
Proof.
  intros A slots. induction slots as [|s r IH]; intros i a; cbn [set_slot].
  - reflexivity.
  - destruct i; cbn [length]; [reflexivity|]. rewrite IH. reflexivity.
Qed.

Lemma run_checks_str : forall cs v,
  has_check CheckIsStr cs = true -> run_checks cs v = true -> cv_is_str v = true.
Proof.
  induction cs as [|c r IH]; intros v Hh Hr; [discriminate Hh|].
  destruct c; cbn [run_checks] in Hr; apply andb_true_iff in Hr; destruct Hr as [Hv Hr2].
  - exact Hv.
  - cbn in Hh. apply IH; assumption.
Qed.

Lemma run_checks_identifier : forall cs v,
  has_check CheckIsIdentifier cs = true -> run_checks cs v = true -> cv_is_identifier v = true.
Proof.
  induction cs as [|c r IH]; intros v Hh Hr; [discriminate Hh|].
  destruct c; cbn [run_checks] in Hr; apply andb_true_iff in Hr; destruct Hr as [Hv Hr2].
  - cbn in Hh. apply IH; assumption.
  - exact Hv.
Qed.

Theorem annotation_of_constant_total : forall cs v,
  checks_ok cs = true -> forall k, annotation_of_constant cs v <> Crash k.
Proof.
  intros cs v Hok k. unfold annotation_of_constant.
  destruct (run_checks cs v) eqn:Hrun; [|discriminate].
  unfold checks_ok in Hok. apply andb_true_iff in Hok. destruct Hok as [Hs Hi].
  unfold make_identifier.
  rewrite (run_checks_str cs v Hs Hrun), (run_checks_identifier cs v Hi Hrun).
  cbn. discriminate.
Qed.

Theorem annotation_without_check_refuted : forall cs,
  has_check CheckIsIdentifier cs = false ->
  annotation_of_constant cs (mkConst true false) = Crash Violation.
Proof.
  intros cs H. unfold annotation_of_constant.
  assert (Hrun : run_checks cs (mkConst true false) = true).
  { induction cs as [|c r IH]; [reflexivity|]. cbn in H. destruct c; cbn [run_checks cv_is_str].
    - cbn in H. apply IH. exact H.
    - cbn in H. discriminate H. }
  rewrite Hrun. reflexivity.
Qed.
