"""Data flow of the cache flag  main.main -> Parameters.__init__ -> main.execute ->
run.load_model  as Coq functions bool -> bool (C23), and the order of the file-system
operations of the cache branch of run.load_model (C24).

Fail closed: every expression on the path must be built from the tracked value,
True/False, bool(...), not, and/or and conditional expressions; anything else raises.
"""
from __future__ import annotations

import ast
from typing import Callable, List, Optional

from harness.translate.astutil import TranslateError, find_function, parse


def _expr(node: ast.AST, is_var: Callable[[ast.AST], bool]) -> str:
    if is_var(node):
        return "b"
    if isinstance(node, ast.Constant) and isinstance(node.value, bool):
        return "true" if node.value else "false"
    if (isinstance(node, ast.Call) and isinstance(node.func, ast.Name) and node.func.id == "bool"
            and len(node.args) == 1 and not node.keywords):
        return _expr(node.args[0], is_var)
    if isinstance(node, ast.UnaryOp) and isinstance(node.op, ast.Not):
        return f"(negb {_expr(node.operand, is_var)})"
    if isinstance(node, ast.BoolOp):
        op = "andb" if isinstance(node.op, ast.And) else "orb"
        acc = _expr(node.values[0], is_var)
        for v in node.values[1:]:
            acc = f"({op} {acc} {_expr(v, is_var)})"
        return acc
    if isinstance(node, ast.IfExp):
        return (f"(if {_expr(node.test, is_var)} then {_expr(node.body, is_var)} "
                f"else {_expr(node.orelse, is_var)})")
    raise TranslateError(f"cache flag: untranslatable expression {ast.dump(node)[:200]}")


def _is_name(name: str):
    return lambda n: isinstance(n, ast.Name) and n.id == name and isinstance(n.ctx, ast.Load)


def _is_attr(obj: str, attr: str):
    return lambda n: (isinstance(n, ast.Attribute) and n.attr == attr and isinstance(n.ctx, ast.Load)
                      and isinstance(n.value, ast.Name) and n.value.id == obj)


def _param_default(fn: ast.FunctionDef, name: str) -> Optional[ast.AST]:
    args = fn.args
    if args.vararg or args.kwarg:
        raise TranslateError(f"{fn.name}: *args/**kwargs")
    pos = args.posonlyargs + args.args
    names = [a.arg for a in pos]
    if name in names:
        i = names.index(name)
        k = i - (len(pos) - len(args.defaults))
        return args.defaults[k] if k >= 0 else None
    kw = [a.arg for a in args.kwonlyargs]
    if name in kw:
        return args.kw_defaults[kw.index(name)]
    raise TranslateError(f"{fn.name} has no parameter {name}")


def _const_bool(node: Optional[ast.AST], what: str) -> str:
    if node is None:
        raise TranslateError(f"{what}: no default")
    if isinstance(node, ast.Constant) and isinstance(node.value, bool):
        return "true" if node.value else "false"
    raise TranslateError(f"{what}: default is not a bool constant")


def _arg_of_call(call: ast.Call, fn: ast.FunctionDef, name: str, skip_self: bool) -> Optional[ast.AST]:
    """The actual argument bound to parameter `name` of `fn` in `call` (None = default)."""
    if any(isinstance(a, ast.Starred) for a in call.args) or any(k.arg is None for k in call.keywords):
        raise TranslateError("call with * or ** arguments on the flag path")
    for k in call.keywords:
        if k.arg == name:
            return k.value
    pos = [a.arg for a in fn.args.posonlyargs + fn.args.args]
    if skip_self:
        pos = pos[1:]
    if name in pos and pos.index(name) < len(call.args):
        return call.args[pos.index(name)]
    return None


def _no_store(scope: ast.AST, pred, what: str) -> None:
    for n in ast.walk(scope):
        if isinstance(n, (ast.Name, ast.Attribute)) and isinstance(n.ctx, (ast.Store, ast.Del)) and pred(n):
            raise TranslateError(f"{what} is re-assigned at line {n.lineno}")
        if isinstance(n, ast.Call) and isinstance(n.func, ast.Name) and n.func.id in ("setattr", "delattr"):
            raise TranslateError(f"{what}: setattr/delattr at line {n.lineno}")
        if isinstance(n, (ast.Global, ast.Nonlocal)):
            raise TranslateError(f"{what}: global/nonlocal at line {n.lineno}")


def gen_cacheflag() -> str:
    main_mod = parse("aas_core_codegen/main.py")
    run_mod = parse("aas_core_codegen/run.py")
    f_main = find_function(main_mod, "main")
    f_init = find_function(main_mod, "__init__", cls="Parameters")
    f_exec = find_function(main_mod, "execute")
    f_load = find_function(run_mod, "load_model")

    # ---- stage 0: the command-line option -------------------------------------------
    adds = [n for n in ast.walk(f_main)
            if isinstance(n, ast.Call) and isinstance(n.func, ast.Attribute)
            and n.func.attr == "add_argument" and n.args
            and isinstance(n.args[0], ast.Constant) and n.args[0].value == "--cache_model"]
    if len(adds) != 1:
        raise TranslateError(f"expected one add_argument('--cache_model'), found {len(adds)}")
    kws = {k.arg: k.value for k in adds[0].keywords}
    if len(adds[0].args) != 1 or set(kws) - {"help", "action"}:
        raise TranslateError("--cache_model: unexpected add_argument arguments")
    act = kws.get("action")
    if not (isinstance(act, ast.Constant) and act.value == "store_true"):
        raise TranslateError("--cache_model is not a store_true option")
    # args = parser.parse_args()
    parse_calls = [n for n in ast.walk(f_main) if isinstance(n, ast.Assign)
                   and isinstance(n.value, ast.Call) and isinstance(n.value.func, ast.Attribute)
                   and n.value.func.attr == "parse_args"]
    if (len(parse_calls) != 1 or len(parse_calls[0].targets) != 1
            or not isinstance(parse_calls[0].targets[0], ast.Name)
            or parse_calls[0].value.args or parse_calls[0].value.keywords):
        raise TranslateError("main: expected exactly one `<name> = parser.parse_args()`")
    args_name = parse_calls[0].targets[0].id

    # ---- stage 1: main -> Parameters(...) --------------------------------------------
    pcalls = [n for n in ast.walk(f_main) if isinstance(n, ast.Call)
              and isinstance(n.func, ast.Name) and n.func.id == "Parameters"]
    if len(pcalls) != 1:
        raise TranslateError(f"main: expected one Parameters(...) call, found {len(pcalls)}")
    init_default = _const_bool(_param_default(f_init, "cache_model"), "Parameters.__init__ cache_model")
    actual = _arg_of_call(pcalls[0], f_init, "cache_model", skip_self=True)
    stage_main = init_default if actual is None else _expr(actual, _is_attr(args_name, "cache_model"))
    _no_store(f_main, lambda n: isinstance(n, ast.Attribute) and n.attr == "cache_model", "main: cache_model attribute")
    # the Parameters object is what execute receives
    passign = [n for n in ast.walk(f_main) if isinstance(n, ast.Assign) and n.value is pcalls[0]]
    if len(passign) != 1 or not isinstance(passign[0].targets[0], ast.Name):
        raise TranslateError("main: Parameters(...) is not assigned to a simple name")
    pname = passign[0].targets[0].id
    ecalls = [n for n in ast.walk(f_main) if isinstance(n, ast.Call)
              and isinstance(n.func, ast.Name) and n.func.id == "execute"]
    if len(ecalls) != 1:
        raise TranslateError("main: expected one execute(...) call")
    eparam = _arg_of_call(ecalls[0], f_exec, "params", skip_self=False)
    if not (isinstance(eparam, ast.Name) and eparam.id == pname):
        raise TranslateError("main: execute is not called with the Parameters object")
    if sum(1 for n in ast.walk(f_main) if isinstance(n, ast.Name) and n.id == pname
           and isinstance(n.ctx, ast.Store)) != 1:
        raise TranslateError("main: the Parameters variable is re-bound")

    # ---- stage 2: Parameters.__init__ -------------------------------------------------
    self_name = f_init.args.args[0].arg
    stores = []
    for n in ast.walk(f_init):
        if isinstance(n, (ast.Assign, ast.AnnAssign, ast.AugAssign)):
            targets = n.targets if isinstance(n, ast.Assign) else [n.target]
            for t in targets:
                for sub in ast.walk(t):
                    if isinstance(sub, ast.Attribute) and sub.attr == "cache_model":
                        stores.append((n, t))
    if len(stores) != 1:
        raise TranslateError(f"Parameters.__init__: expected one assignment to .cache_model, found {len(stores)}")
    st, tgt = stores[0]
    if not (isinstance(st, ast.Assign) and len(st.targets) == 1 and st in f_init.body
            and isinstance(tgt, ast.Attribute) and isinstance(tgt.value, ast.Name)
            and tgt.value.id == self_name):
        raise TranslateError("Parameters.__init__: .cache_model is not assigned by a plain top-level statement")
    stage_init = _expr(st.value, _is_name("cache_model"))
    _no_store(f_init, lambda n: isinstance(n, ast.Name) and n.id in ("cache_model", self_name),
              "Parameters.__init__: cache_model/self")
    # no other code of the Parameters class or of main.py touches the attribute
    cls = [n for n in ast.walk(main_mod) if isinstance(n, ast.ClassDef) and n.name == "Parameters"][0]
    for n in cls.body:
        if isinstance(n, ast.FunctionDef) and n.name in ("__getattr__", "__getattribute__", "__setattr__"):
            raise TranslateError("Parameters defines attribute hooks")
        if isinstance(n, ast.FunctionDef) and n is not f_init:
            _no_store(n, lambda x: isinstance(x, ast.Attribute) and x.attr == "cache_model",
                      f"Parameters.{n.name}: cache_model")
            if n.name == "cache_model":
                raise TranslateError("Parameters.cache_model is a method/property")
    if cls.bases or cls.keywords or cls.decorator_list:
        raise TranslateError("Parameters has bases/decorators")

    # ---- stage 3: execute -> run.load_model(...) --------------------------------------
    lcalls = [n for n in ast.walk(main_mod) if isinstance(n, ast.Call)
              and ((isinstance(n.func, ast.Attribute) and n.func.attr == "load_model")
                   or (isinstance(n.func, ast.Name) and n.func.id == "load_model"))]
    in_exec = [n for n in ast.walk(f_exec) if n in lcalls]
    if len(lcalls) != 1 or len(in_exec) != 1:
        raise TranslateError("main.py: expected exactly one load_model call, inside execute")
    load_default = _const_bool(_param_default(f_load, "cache_model"), "run.load_model cache_model")
    actual = _arg_of_call(lcalls[0], f_load, "cache_model", skip_self=False)
    exec_param = f_exec.args.args[0].arg
    if exec_param != "params":
        raise TranslateError("execute: first parameter is not `params`")
    stage_exec = load_default if actual is None else _expr(actual, _is_attr(exec_param, "cache_model"))
    _no_store(f_exec, lambda n: (isinstance(n, ast.Attribute) and n.attr == "cache_model")
              or (isinstance(n, ast.Name) and n.id == exec_param), "execute: params / cache_model")

    # ---- stage 4: the guards inside load_model ----------------------------------------
    _no_store(f_load, lambda n: isinstance(n, ast.Name) and n.id == "cache_model", "load_model: cache_model")
    uses = [n for n in ast.walk(f_load) if isinstance(n, ast.Name) and n.id == "cache_model"]
    guards: List[str] = []
    covered = set()
    for n in ast.walk(f_load):
        if isinstance(n, (ast.If, ast.IfExp, ast.While)):
            inside = [u for u in ast.walk(n.test) if u in uses]
            if inside:
                if not isinstance(n, ast.If):
                    raise TranslateError("load_model: cache_model used in a non-if test")
                guards.append(_expr(n.test, _is_name("cache_model")))
                covered.update(id(u) for u in inside)
    for dec in f_load.decorator_list:   # contracts may mention the parameter name in lambdas
        for u in ast.walk(dec):
            covered.add(id(u))
    loose = [u for u in uses if id(u) not in covered]
    if loose:
        raise TranslateError(f"load_model: cache_model used outside an if-test at line {loose[0].lineno}")
    if not guards:
        raise TranslateError("load_model: no `if cache_model` guard found")

    lines = [
        "From Coq Require Import List Bool.",
        "Import ListNotations.",
        "(* main.main: Parameters(..., cache_model=<e>) with b = args.cache_model (store_true) *)",
        f"Definition stage_main (b : bool) : bool := {stage_main}.",
        "(* Parameters.__init__: self.cache_model = <e> with b = the argument *)",
        f"Definition stage_init (b : bool) : bool := {stage_init}.",
        "(* main.execute: run.load_model(..., cache_model=<e>) with b = params.cache_model *)",
        f"Definition stage_execute (b : bool) : bool := {stage_exec}.",
        "Definition plumb (b : bool) : bool := stage_execute (stage_init (stage_main b)).",
        "(* run.load_model: every if-test that mentions cache_model, b = the parameter *)",
        "Definition guards : list (bool -> bool) := ["
        + "; ".join(f"(fun b : bool => {g})" for g in guards) + "].",
        f"Definition init_default : bool := {init_default}.",
        f"Definition load_model_default : bool := {load_default}.",
    ]
    return "\n".join(lines) + "\n"


# -------------------------------------------------------------------------------------
# Order of file-system operations in the cache branches of load_model (C24 skeleton)
# -------------------------------------------------------------------------------------
_FS_METHODS = {"exists": "OpExists", "open": "OpOpen", "mkdir": "OpMkdir", "rename": "OpRename",
               "replace": "OpRename", "unlink": "OpUnlink", "write_bytes": "OpWriteDirect",
               "write_text": "OpWriteDirect", "read_bytes": "OpReadDirect", "touch": "OpOther",
               "rmdir": "OpOther", "symlink_to": "OpOther", "hardlink_to": "OpOther",
               "link_to": "OpOther", "chmod": "OpOther", "rmtree": "OpOther"}


def gen_cacheops() -> str:
    run_mod = parse("aas_core_codegen/run.py")
    f_load = find_function(run_mod, "load_model")

    def is_flag_if(n):
        return isinstance(n, ast.If) and any(isinstance(u, ast.Name) and u.id == "cache_model"
                                             for u in ast.walk(n.test))

    ops: List[str] = []

    # which local names denote the cache entry and the temporary file (by data flow, so
    # that renaming locals is harmless)
    cache_names, tmp_names = set(), set()
    for n in ast.walk(f_load):
        tgt = None
        if isinstance(n, ast.Assign) and len(n.targets) == 1 and isinstance(n.targets[0], ast.Name):
            tgt, val = n.targets[0].id, n.value
        elif isinstance(n, ast.AnnAssign) and isinstance(n.target, ast.Name) and n.value is not None:
            tgt, val = n.target.id, n.value
        if tgt is None:
            continue
        if any(isinstance(x, ast.Attribute) and x.attr == "gettempdir" for x in ast.walk(val)):
            cache_names.add(tgt)
    for n in ast.walk(f_load):
        if (isinstance(n, ast.Assign) and len(n.targets) == 1 and isinstance(n.targets[0], ast.Name)
                and isinstance(n.value, ast.Call) and isinstance(n.value.func, ast.Attribute)
                and n.value.func.attr in ("with_suffix", "with_name")
                and isinstance(n.value.func.value, ast.Name) and n.value.func.value.id in cache_names):
            tmp_names.add(n.targets[0].id)
    if len(cache_names) != 1:
        raise TranslateError(f"load_model: expected one cache-path variable, found {sorted(cache_names)}")

    def root_name(e: ast.AST) -> Optional[str]:
        while isinstance(e, (ast.Attribute, ast.Call, ast.BinOp)):
            e = e.value if isinstance(e, ast.Attribute) else (e.func if isinstance(e, ast.Call) else e.left)
        return e.id if isinstance(e, ast.Name) else None

    def obj_of(e: ast.AST) -> str:
        r = root_name(e)
        if r in cache_names:
            if isinstance(e, ast.Attribute) and e.attr == "parent":
                return "ODir"
            return "OCache"
        if r in tmp_names:
            return "OTmp"
        raise TranslateError(f"load_model: file-system call on unknown object `{r}` line {e.lineno}")

    def visit_expr(e: ast.AST, in_finally: bool) -> None:
        # evaluation order: arguments before the call itself is fine for our purposes
        for n in ast.walk(e):
            if isinstance(n, ast.Call) and isinstance(n.func, ast.Attribute):
                if n.func.attr in _FS_METHODS and root_name(n.func.value) in (cache_names | tmp_names):
                    kind = _FS_METHODS[n.func.attr]
                    obj = obj_of(n.func.value)
                    mode = ""
                    if kind == "OpOpen":
                        m = n.args[0] if n.args else None
                        if not (isinstance(m, ast.Constant) and m.value in ("rb", "wb")):
                            raise TranslateError("load_model: open with unknown mode")
                        kind = "OpOpenR" if m.value == "rb" else "OpOpenW"
                    if kind == "OpRename":
                        if not n.args:
                            raise TranslateError("rename without target")
                        ops.append(f"(OpRename {obj} {obj_of(n.args[0])} {'true' if in_finally else 'false'})")
                        continue
                    if kind == "OpUnlink":
                        mo = [k for k in n.keywords if k.arg == "missing_ok"]
                        ok = bool(mo) and isinstance(mo[0].value, ast.Constant) and mo[0].value.value is True
                        ops.append(f"(OpUnlink {obj} {'true' if ok else 'false'} {'true' if in_finally else 'false'})")
                        continue
                    ops.append(f"({kind} {obj} {'true' if in_finally else 'false'})")
                elif (isinstance(n.func.value, ast.Name) and n.func.value.id == "pickle"
                      and n.func.attr in ("load", "dump", "loads", "dumps")):
                    ops.append(f"(OpPickle{n.func.attr.capitalize()} {'true' if in_finally else 'false'})")
                elif (isinstance(n.func.value, ast.Name) and n.func.value.id in ("os", "shutil")):
                    raise TranslateError(f"load_model: direct {n.func.value.id}.{n.func.attr} call")

    def visit_stmts(stmts, in_finally: bool) -> None:
        for s in stmts:
            if isinstance(s, ast.Try):
                if s.handlers or s.orelse:
                    raise TranslateError("load_model: try with except/else in the cache branch")
                ops.append("OpTry")
                visit_stmts(s.body, in_finally)
                ops.append("OpFinally")
                visit_stmts(s.finalbody, True)
                ops.append("OpEndTry")
            elif isinstance(s, ast.With):
                n0 = len(ops)
                for it in s.items:
                    visit_expr(it.context_expr, in_finally)
                opened = ops[n0:]
                visit_stmts(s.body, in_finally)
                reading = bool(opened) and all(o.startswith("(OpOpenR") for o in opened)
                ops.append(f"({'OpCloseRead' if reading else 'OpCloseWith'} {'true' if in_finally else 'false'})")
            elif isinstance(s, ast.If):
                visit_expr(s.test, in_finally)
                ops.append("OpIf")
                visit_stmts(s.body, in_finally)
                if s.orelse:
                    ops.append("OpElse")
                    visit_stmts(s.orelse, in_finally)
                ops.append("OpEndIf")
            elif isinstance(s, ast.Return):
                if s.value is not None:
                    visit_expr(s.value, in_finally)
                ops.append("OpReturn")
            elif isinstance(s, (ast.Assign, ast.AnnAssign, ast.Expr, ast.Assert)):
                visit_expr(s, in_finally)
            else:
                raise TranslateError(f"load_model: unexpected statement {type(s).__name__} in the cache branch")

    branches = [n for n in f_load.body if is_flag_if(n)]
    if len(branches) != 2:
        raise TranslateError(f"load_model: expected two top-level `if cache_model` blocks, found {len(branches)}")
    for n in ast.walk(f_load):
        if is_flag_if(n) and n not in branches:
            raise TranslateError("load_model: nested `if cache_model`")
    # no file-system use of cache_path/tmp_path outside the two blocks
    inside = set()
    for b in branches:
        inside.update(id(x) for x in ast.walk(b))
    for n in ast.walk(f_load):
        if (isinstance(n, ast.Call) and isinstance(n.func, ast.Attribute) and n.func.attr in _FS_METHODS
                and root_name(n.func.value) in (cache_names | tmp_names) and id(n) not in inside):
            raise TranslateError("load_model: cache file-system call outside `if cache_model`")
    out = []
    for b in branches:
        ops = []
        if b.orelse:
            raise TranslateError("load_model: else-branch on `if cache_model`")
        visit_stmts(b.body, False)
        out.append(ops)
    # where the temporary name comes from
    tmp_src = "TmpUnknown"
    for n in ast.walk(f_load):
        if (isinstance(n, ast.Assign) and len(n.targets) == 1 and isinstance(n.targets[0], ast.Name)
                and n.targets[0].id in tmp_names):
            v = n.value
            uses_uuid = any(isinstance(x, ast.Attribute) and x.attr == "uuid4" for x in ast.walk(v))
            is_ws = (isinstance(v, ast.Call) and isinstance(v.func, ast.Attribute)
                     and v.func.attr == "with_suffix" and root_name(v.func.value) in cache_names)
            tmp_src = "TmpUuidSuffix" if (uses_uuid and is_ws) else "TmpOther"
    lines = [
        "From Coq Require Import List Bool.",
        "Import ListNotations.",
        "Inductive fobj := OCache | OTmp | ODir.",
        "Inductive fop :=",
        "| OpExists (o : fobj) (fin : bool) | OpOpenR (o : fobj) (fin : bool) | OpOpenW (o : fobj) (fin : bool)",
        "| OpMkdir (o : fobj) (fin : bool) | OpRename (a b : fobj) (fin : bool)",
        "| OpUnlink (o : fobj) (missing_ok fin : bool) | OpWriteDirect (o : fobj) (fin : bool)",
        "| OpReadDirect (o : fobj) (fin : bool) | OpOther (o : fobj) (fin : bool)",
        "| OpPickleLoad (fin : bool) | OpPickleDump (fin : bool) | OpPickleLoads (fin : bool) | OpPickleDumps (fin : bool)",
        "| OpCloseWith (fin : bool) | OpCloseRead (fin : bool) | OpTry | OpFinally | OpEndTry | OpIf | OpElse | OpEndIf | OpReturn.",
        "Inductive tmpsrc := TmpUuidSuffix | TmpOther | TmpUnknown.",
        "Definition read_branch : list fop := [" + "; ".join(out[0]) + "].",
        "Definition write_branch : list fop := [" + "; ".join(out[1]) + "].",
        f"Definition tmp_source : tmpsrc := {tmp_src}.",
    ]
    return "\n".join(lines) + "\n"


GEN_FILES = {"GenCacheFlag": gen_cacheflag, "GenCacheOps": gen_cacheops}
