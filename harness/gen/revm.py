"""C18 helpers: pattern generator, Coq printers for regex trees / programs, a reference
interpreter of the documented instruction semantics, word generators."""
from __future__ import annotations

import itertools
import re
from typing import Any, Dict, List, Optional, Tuple

# ---------------------------------------------------------------------------------
# pattern generator (text; the tree comes from the real parser)
# ---------------------------------------------------------------------------------
LETTERS = "abc"
SPECIAL_ATOMS = [r"\.", r"\-", r"\x41", r"é", r"\U0001F600", r"\*", "-", " ", "_", "0"]
RANGE_POOL = [("a", "a"), ("a", "c"), ("b", "d"), ("e", "f"), ("x", "z"), ("0", "3"),
              ("5", "5"), ("A", "F"), ("_", "_"), ("g", "m"), ("\\x41", "\\x43"),
              ("\\u00e0", "\\u00ff"), ("\\U0001F600", "\\U0001F64F"), ("q", "q")]


def _first_code(tok: str) -> int:
    if tok.startswith("\\x") or tok.startswith("\\u") or tok.startswith("\\U"):
        return int(tok[2:], 16)
    return ord(tok)


def gen_set(rng) -> str:
    k = rng.choice([1, 1, 1, 2, 2, 3, 4, 5, 6])
    pool = list(RANGE_POOL)
    rng.shuffle(pool)
    chosen: List[Tuple[str, str]] = []
    for lo, hi in pool:
        a, b = _first_code(lo), _first_code(hi)
        if all(b < _first_code(c) or _first_code(d) < a for c, d in chosen):
            chosen.append((lo, hi))
        if len(chosen) == k:
            break
    if rng.random() < 0.6:
        chosen.sort(key=lambda r: _first_code(r[0]))
    body = "".join(lo if lo == hi else f"{lo}-{hi}" for lo, hi in chosen)
    return "[" + ("^" if rng.random() < 0.3 else "") + body + "]"


def gen_quant(rng, suspects: bool) -> str:
    q = rng.choice(["*", "*", "+", "+", "?", "?", "{0}", "{1}", "{2}", "{3}", "{1,}", "{2,}",
                    "{3,}", "{,2}", "{0,1}", "{1,2}", "{1,3}", "{2,4}", "{0,3}", "{2,2}",
                    "{0,}", "{1,1}"])
    if suspects and rng.random() < 0.08:
        q += "?"
    return q


def gen_atom(rng, depth: int, suspects: bool) -> str:
    r = rng.random()
    if r < 0.45:
        return rng.choice(LETTERS)
    if r < 0.52:
        return rng.choice(SPECIAL_ATOMS)
    if r < 0.60:
        return "."
    if r < 0.75:
        return gen_set(rng)
    if depth <= 0:
        return rng.choice(LETTERS)
    return "(" + gen_union(rng, depth - 1, suspects) + ")"


def gen_term(rng, depth: int, suspects: bool) -> str:
    if suspects and rng.random() < 0.03:
        return rng.choice(["^", "$"])
    a = gen_atom(rng, depth, suspects)
    if rng.random() < 0.45:
        a += gen_quant(rng, suspects)
    return a


def gen_concat(rng, depth: int, suspects: bool) -> str:
    n = rng.choice([0, 1, 1, 2, 2, 2, 3, 3, 4])
    return "".join(gen_term(rng, depth, suspects) for _ in range(n))


def gen_union(rng, depth: int, suspects: bool) -> str:
    n = rng.choice([1, 1, 1, 2, 2, 3])
    return "|".join(gen_concat(rng, depth, suspects) for _ in range(n))


def gen_pattern(rng, suspects: bool = True) -> str:
    """An anchored pattern; with [suspects] a few percent carry the features the
    translator is suspected to mishandle (inner ^, non-greedy) or are not anchored."""
    depth = rng.choice([0, 1, 1, 2, 2, 3])
    n = rng.choice([0, 1, 1, 2, 2, 3, 3, 4, 5])
    body = "".join(gen_term(rng, depth, suspects) for _ in range(n))
    r = rng.random()
    if r < 0.12:
        body += ".*"
    p = "^" + body + "$"
    if suspects:
        r = rng.random()
        if r < 0.01:
            p = body + "$"
        elif r < 0.02:
            p = "^" + body
        elif r < 0.035:
            p = "^" + body + "|" + gen_concat(rng, 1, False) + "$"
    return p


CORPUS = [
    # (pattern) — minimised past disagreements / refutation witnesses, always run first
    r"^(a*)*$", r"^(a*)+$", r"^(a|)*$", r"^()*$", r"^(a?)*b$", r"^((a*)*|b)*c$",
    r"^a^b$", r"^^a$", r"^(^a)$", r"^a*?$", r"^a+?b??$", r"^a{2,3}?$",
    r"^$", r"^a$", r"^a.*$", r"^.*$", r"^a(.*)$", r"^a.*?$", r"^a$b$", r"^a$$",
    r"^a{0}$", r"^a{2,3}$", r"^a{,3}$", r"^a{2,}$", r"^(a|b|)$", r"^(|)$", r"^()$",
    r"^[x-za-c0-3]$", r"^[^a-c]+$", r"^[a-cx-z0-35A-F_g-m]{2}$", r"^(a|b)*[^x-z]{2,3}$",
    r"^\U0001F600+$", r"^[\U0001F600-\U0001F64F]$", r"^(ab|a)(c|bcd)$", r"^(a|ab)(c|bcd)(d*)$",
    r"^((a|b){1,2}c){2,}$", r"^(a{1,2}){2,3}$", r"^(a+|b+)*c$", r"^a|b$", r"a",
]

# ---------------------------------------------------------------------------------
# printers
# ---------------------------------------------------------------------------------
def coq_tree(t: Dict[str, Any]) -> str:
    k = t["k"]
    if k == "union":
        s = "UNil"
        for u in reversed(t["us"]):
            s = f"(UCons {coq_tree(u)} {s})"
        return s
    if k == "concat":
        s = "CNil"
        for x in reversed(t["ts"]):
            s = f"(CCons {coq_tree(x)} {s})"
        return s
    if k == "term":
        q = t["q"]
        if q is None:
            qs = "None"
        else:
            assert 0 <= q["min"] < 500 and (q["max"] is None or 0 <= q["max"] < 500)
            mx = "None" if q["max"] is None else f"(Some {q['max']}%nat)"
            qs = f"(Some (mkQ {'true' if q['ng'] else 'false'} {q['min']}%nat {mx}))"
        return f"(Term {coq_tree(t['v'])} {qs})"
    if k == "sym":
        return {"START": "(VSym SStart)", "END": "(VSym SEnd)", "DOT": "(VSym SDot)"}[t["s"]]
    if k == "char":
        return f"(VChar {t['c']})"
    if k == "set":
        rs = "; ".join(f"({a}, {'None' if b is None else f'Some {b}'})" for a, b in t["rs"])
        return f"(VSet {'true' if t['compl'] else 'false'} [{rs}])"
    if k == "group":
        return f"(VGroup {coq_tree(t['u'])})"
    raise ValueError(k)


def coq_instr(i: Dict[str, Any]) -> str:
    k = i["k"]
    if k == "char":
        return f"(IChar {i['c']})"
    if k in ("set", "notset"):
        rs = "; ".join(f"({a}, {b})" for a, b in i["rs"])
        return f"({'ISet' if k == 'set' else 'INotSet'} [{rs}])"
    if k == "any":
        return "IAny"
    if k == "match":
        return "IMatch"
    if k == "end":
        return "IEnd"
    if k == "jump":
        return f"(IJump {i['t']}%nat)"
    if k == "split":
        return f"(ISplit {i['a']}%nat {i['b']}%nat)"
    raise ValueError(k)


def coq_prog(prog: List[Any]) -> str:
    return "[" + "; ".join(
        f"({coq_instr(i)}, {'None' if lab is None else f'Some {lab}%nat'})" for i, lab in prog
    ) + "]"


# ---------------------------------------------------------------------------------
# tree utilities
# ---------------------------------------------------------------------------------
def walk(t: Dict[str, Any]):
    yield t
    k = t["k"]
    if k == "union":
        for u in t["us"]:
            yield from walk(u)
    elif k == "concat":
        for x in t["ts"]:
            yield from walk(x)
    elif k == "term":
        yield from walk(t["v"])
    elif k == "group":
        yield from walk(t["u"])


def features(t: Dict[str, Any]) -> Dict[str, Any]:
    starts = sum(1 for n in walk(t) if n["k"] == "sym" and n["s"] == "START")
    ng = any(n["k"] == "term" and n["q"] and n["q"]["ng"] for n in walk(t))
    quants = sum(1 for n in walk(t) if n["k"] == "term" and n["q"])
    unions = sum(1 for n in walk(t) if n["k"] == "union" and len(n["us"]) > 1)
    sets = sum(1 for n in walk(t) if n["k"] == "set")
    return {"starts": starts, "non_greedy": ng, "quants": quants, "unions": unions, "sets": sets}


def alphabet(t: Dict[str, Any]) -> List[int]:
    cs = set()
    for n in walk(t):
        if n["k"] == "char":
            cs.add(n["c"])
        elif n["k"] == "set":
            for a, b in n["rs"]:
                cs.add(a)
                cs.add(a if b is None else b)
    out = set()
    for c in cs:
        for d in (c - 1, c, c + 1):
            if 0 <= d <= 0x10FFFF and d not in (10, 13) and not (0xD800 <= d <= 0xDFFF):
                out.add(d)
    if not out:
        out = {97, 98}
    return sorted(out)


def sample_match(t: Dict[str, Any], rng, budget: List[int]) -> str:
    """A random derivation of the tree (anchors produce nothing): mostly a matching word."""
    k = t["k"]
    if k == "union":
        if not t["us"]:
            return ""
        return sample_match(rng.choice(t["us"]), rng, budget)
    if k == "concat":
        return "".join(sample_match(x, rng, budget) for x in t["ts"])
    if k == "term":
        q = t["q"]
        if q is None:
            n = 1
        else:
            lo = q["min"]
            hi = q["max"] if q["max"] is not None else lo + rng.choice([0, 1, 2, 3])
            n = rng.randint(lo, max(lo, hi))
        out = []
        for _ in range(n):
            if budget[0] <= 0:
                break
            out.append(sample_match(t["v"], rng, budget))
        return "".join(out)
    if k == "sym":
        if t["s"] == "DOT":
            budget[0] -= 1
            return rng.choice("abcz _")
        return ""
    if k == "char":
        budget[0] -= 1
        return chr(t["c"])
    if k == "set":
        budget[0] -= 1
        if not t["rs"]:
            return "a"
        if t["compl"]:
            for _ in range(20):
                c = rng.choice([97, 98, 99, 100, 48, 65, 95, 122, 0x1F600, 33])
                if not any(a <= c <= (a if b is None else b) for a, b in t["rs"]):
                    return chr(c)
            return "!"
        a, b = rng.choice(t["rs"])
        b = a if b is None else b
        return chr(rng.choice([a, b, rng.randint(a, b)]))
    if k == "group":
        return sample_match(t["u"], rng, budget)
    raise ValueError(k)


def words_for(t: Dict[str, Any], rng, n_pos: int, n_rand: int, n_mut: int) -> List[str]:
    alpha = [chr(c) for c in alphabet(t)]
    out = [""]
    pos = []
    for _ in range(n_pos):
        w = sample_match(t, rng, [12])
        if "\n" in w or "\r" in w:
            continue
        pos.append(w)
    out += pos
    for _ in range(n_rand):
        out.append("".join(rng.choice(alpha) for _ in range(rng.choice([1, 1, 2, 2, 3, 4, 5, 6]))))
    for _ in range(n_mut):
        if not pos:
            break
        w = rng.choice(pos)
        r = rng.random()
        if w and r < 0.35:
            i = rng.randrange(len(w))
            w = w[:i] + w[i + 1:]
        elif r < 0.7:
            i = rng.randrange(len(w) + 1)
            w = w[:i] + rng.choice(alpha) + w[i:]
        elif w:
            i = rng.randrange(len(w))
            w = w[:i] + rng.choice(alpha) + w[i + 1:]
        out.append(w)
    seen = set()
    res = []
    for w in out:
        if w not in seen and not any(0xD800 <= ord(c) <= 0xDFFF for c in w):
            seen.add(w)
            res.append(w)
    return res


def small_words(symbols: str, maxlen: int):
    for n in range(0, maxlen + 1):
        for tup in itertools.product(symbols, repeat=n):
            yield "".join(tup)


# ---------------------------------------------------------------------------------
# reference interpreter of the documented instruction semantics (breadth-first over
# the word; a pc is expanded at most once per position)
# ---------------------------------------------------------------------------------
def in_ranges(c: int, rs) -> bool:
    return any(a <= c <= b for a, b in rs)


def ref_vm(prog: List[Any], word: str) -> bool:
    """prog: [[instr_json, label], ...] as exported by the adapter."""
    ins = [p[0] for p in prog]
    n = len(ins)
    cur = [0] if n else []
    for pos in range(len(word) + 1):
        ch = ord(word[pos]) if pos < len(word) else None
        seen = set()
        nxt = []
        stack = list(cur)
        while stack:
            pc = stack.pop()
            if pc in seen:
                continue
            seen.add(pc)
            if pc >= n:
                raise IndexError(f"pc {pc} outside the program of {n} instructions")
            i = ins[pc]
            k = i["k"]
            if k == "match":
                return True
            if k == "jump":
                stack.append(i["t"])
            elif k == "split":
                stack.append(i["a"])
                stack.append(i["b"])
            elif k == "end":
                if ch is None:
                    stack.append(pc + 1)
            elif ch is not None:
                if (k == "any" or (k == "char" and i["c"] == ch)
                        or (k == "set" and in_ranges(ch, i["rs"]))
                        or (k == "notset" and not in_ranges(ch, i["rs"]))):
                    nxt.append(pc + 1)
        cur = nxt
    return False


def py_compiles(pattern: str) -> bool:
    try:
        re.compile(pattern)
        return True
    except re.error:
        return False
    except Exception:
        return False
