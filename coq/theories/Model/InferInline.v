(** Model of [infer_for_schema/_inline.py]: [_merge_constraints],
    [_infer_constraints_by_constrained_primitive],
    [_infer_constraints_of_class_values_without_inheritance] and
    [infer_constraints_by_class] (stacking along the topological order), together with
    [_len.len_constraints_from_invariants] / [infer_len_constraint_of_self] (C15).

    The constraint maps of the code are keyed by type-annotation *objects*; a
    property's annotation object is shared by all descendants of the class that
    declares it, so the model keys by (property name, nesting level), level 0 being
    the annotation beneath [Optional], level k+1 the items of a list at level k.

    Fixed code: the three places where two length constraints can meet (stacking of
    constrained primitives, in-lining of a constrained primitive into a class value,
    stacking of classes) report an error when the merged range is empty, instead of
    violating the precondition of [LenConstraint].  Executable definitions only. *)
From Coq Require Import List NArith ZArith Bool.
From Acg Require Import Base.Str Base.Outcome Model.InferExpr Model.LenInfer
     Model.PatternInfer Model.SetInfer.
Import ListNotations.
Open Scope nat_scope.

Record constraints : Type := mk_constraints {
  k_len : option lenc;
  k_pats : option (list text);
  k_setp : option (prim * list lit);
  k_sete : option (text * list text) }.

Definition only_len (c : lenc) := mk_constraints (Some c) None None None.
Definition only_pats (p : list text) := mk_constraints None (Some p) None None.
Definition only_setp (s : prim * list lit) := mk_constraints None None (Some s) None.
Definition only_sete (s : text * list text) := mk_constraints None None None (Some s).

Definition is_empty_constraints (c : constraints) : bool :=
  match k_len c, k_pats c, k_setp c, k_sete c with
  | None, None, None, None => true
  | _, _, _, _ => false
  end.

(** [_merge_set_of_primitives_constraints] / [..._enumeration_literals_...]:
    [ValueError] on different types / enumerations. *)
Definition merge_setp {E} (that other : option (prim * list lit))
  : outcome (option (prim * list lit)) E :=
  match that, other with
  | Some (a, la), Some (b, lb) =>
      if prim_eqb a b then Ok (Some (a, merge_lits lit_eqb la lb)) else Crash ValueError
  | Some x, None => Ok (Some x)
  | None, Some y => Ok (Some y)
  | None, None => Ok None
  end.

Definition merge_sete {E} (that other : option (text * list text))
  : outcome (option (text * list text)) E :=
  match that, other with
  | Some (a, la), Some (b, lb) =>
      if text_eqb a b then Ok (Some (a, merge_lits text_eqb la lb)) else Crash ValueError
  | Some x, None => Ok (Some x)
  | None, Some y => Ok (Some y)
  | None, None => Ok None
  end.

(** [Constraints.__init__]: [patterns is None or len(patterns) > 0]. *)
Definition mk_constraints_chk {E} (l : option lenc) (p : option (list text))
           (sp : option (prim * list lit)) (se : option (text * list text))
  : outcome constraints E :=
  match p with
  | Some [] => Crash Violation
  | _ => Ok (mk_constraints l p sp se)
  end.

(** [_merge_constraints]. *)
Definition merge_constraints {E} (that other : option constraints)
  : outcome (option constraints) E :=
  match that, other with
  | Some a, Some b =>
      do l <- merge_len (k_len a) (k_len b);
      do sp <- merge_setp (k_setp a) (k_setp b);
      do se <- merge_sete (k_sete a) (k_sete b);
      do c <- mk_constraints_chk l (merge_pats (k_pats a) (k_pats b)) sp se;
      Ok (Some c)
  | Some a, None => Ok (Some a)
  | None, Some b => Ok (Some b)
  | None, None => Ok None
  end.

(** The check of the fix: would merging meet two incompatible length ranges? *)
Definition contradicting (that other : option constraints) : bool :=
  match that, other with
  | Some a, Some b => len_contradict (k_len a) (k_len b)
  | _, _ => false
  end.

(** ** Meta-model (the part the inference reads) *)

Inductive ptype : Type :=
| TPrim (p : prim) | TOur (n : text) | TList (items : ptype) | TOpt (value : ptype).

(** [_over_non_optional_type_annotations]: the non-optional annotations, outermost
    first. *)
Fixpoint levels (t : ptype) : list ptype :=
  match t with
  | TOpt v => levels v
  | TList i => t :: levels i
  | _ => [t]
  end.

Fixpoint beneath_optional (t : ptype) : ptype :=
  match t with TOpt v => beneath_optional v | _ => t end.

Record cprim : Type := mk_cprim {
  cp_name : text; cp_constrainee : prim; cp_parents : list text; cp_invs : list expr }.

Record class : Type := mk_class {
  c_name : text; c_parents : list text;
  c_props : list (text * ptype);       (* own properties *)
  c_invs : list expr }.                (* own invariants ([specified_for is cls]) *)

Record mmodel : Type := mk_mmodel {
  m_patterns : pmap;                         (* pattern verification functions *)
  m_consts : list (text * constant);
  m_enums : list text;
  m_cprims : list cprim;                     (* parents before children *)
  m_classes : list class }.                  (* parents before children *)

Definition key : Type := (text * nat)%type.
Definition key_eqb (a b : key) : bool := text_eqb (fst a) (fst b) && Nat.eqb (snd a) (snd b).
Definition cmap : Type := list (key * constraints).

Fixpoint klookup (k : key) (m : cmap) : option constraints :=
  match m with
  | [] => None
  | (k', v) :: r => if key_eqb k k' then Some v else klookup k r
  end.
Fixpoint kset (k : key) (v : constraints) (m : cmap) : cmap :=
  match m with
  | [] => [(k, v)]
  | (k', v') :: r => if key_eqb k k' then (k, v) :: r else (k', v') :: kset k v r
  end.

(** ** Length constraints of a class / of a constrained primitive *)

(** The [constraint_map] loop of [len_constraints_from_invariants]; counts the
    "property does not appear" errors. *)
Fixpoint collect_len (props : list text) (invs : list expr)
         (acc : list (text * list lc)) (errs : nat) : list (text * list lc) * nat :=
  match invs with
  | [] => (acc, errs)
  | body :: r =>
      match match_len_invariant body with
      | Some (p, k) =>
          if mem_name p props then
            collect_len props r
              (aset p (match alookup p acc with Some l => l ++ [k] | None => [k] end) acc)
              errs
          else collect_len props r acc (S errs)
      | None => collect_len props r acc errs
      end
  end.

(** The reduction loop: every property is reduced (an escaping exception wins, errors
    are counted). *)
Fixpoint reduce_all (cm : list (text * list lc)) (acc : list (text * lenc)) (errs : nat)
  : outcome (list (text * lenc)) nat :=
  match cm with
  | [] => match errs with O => Ok acc | S _ => Err errs end
  | (p, cs) :: r =>
      match reduce cs with
      | Ok c => reduce_all r (acc ++ [(p, c)]) errs
      | Err es => reduce_all r acc (errs + length es)
      | Crash k => Crash k
      end
  end.

(** [len_constraints_from_invariants]. *)
Definition len_constraints_from_invariants (props : list text) (invs : list expr)
  : outcome (list (text * lenc)) nat :=
  let '(cm, errs) := collect_len props invs [] 0 in
  match errs with
  | S _ => Err errs
  | O => reduce_all cm [] 0
  end.

Definition is_self (e : expr) : bool :=
  match e with EName s => text_eqb s self_id | _ => false end.

(** [infer_len_constraint_of_self]. *)
Definition infer_len_constraint_of_self (invs : list expr) : outcome lenc nat :=
  let cs := flat_map (fun body =>
                        match match_len_constraint_on_mn body with
                        | Some (mn, k) => if is_self mn then [k] else []
                        | None => []
                        end) invs in
  match reduce cs with
  | Ok c => Ok c
  | Err es => Err (length es)
  | Crash k => Crash k
  end.

Definition lengthable (p : prim) : bool :=
  match p with PStr | PBytes => true | _ => false end.

Definition drop_dummy (c : lenc) : option lenc :=
  match c with (None, None) => None | _ => Some c end.

(** [_infer_constraints_of_constrained_primitive_without_inheritance]. *)
Definition infer_cprim_local (pm : pmap) (cp : cprim) : outcome (option constraints) nat :=
  do l <- (if lengthable (cp_constrainee cp) then
             match infer_len_constraint_of_self (cp_invs cp) with
             | Ok c => Ok (drop_dummy c)
             | Err n => Err n
             | Crash k => Crash k
             end
           else Ok None);
  let pats :=
    if prim_eqb (cp_constrainee cp) PStr then
      match infer_patterns_on_self pm (cp_invs cp) with [] => None | ps => Some ps end
    else None in
  match l, pats with
  | None, None => Ok None
  | _, _ => do c <- mk_constraints_chk l pats None None; Ok (Some c)
  end.

(** First pass over the constrained primitives: all are processed, errors counted.
    (When the length part reports an error the pattern part still runs in the code; it
    cannot raise.) *)
Fixpoint cprims_pass1 (pm : pmap) (cps : list cprim) (acc : list (text * constraints))
         (errs : nat) : outcome (list (text * constraints)) nat :=
  match cps with
  | [] => match errs with O => Ok acc | S _ => Err errs end
  | cp :: r =>
      match infer_cprim_local pm cp with
      | Ok (Some c) => cprims_pass1 pm r (aset (cp_name cp) c acc) errs
      | Ok None => cprims_pass1 pm r acc errs
      | Err _ => cprims_pass1 pm r acc (S errs)
      | Crash k => Crash k
      end
  end.

(** Merging the parents into one type: [constraints = merge(mapping.get(parent), constraints)].
    The fix reports a contradiction as an error and goes on. *)
Fixpoint stack_parents {V} (get : text -> option V) (proj : V -> option constraints)
         (parents : list text) (cur : option constraints) (errs : nat)
  : outcome (option constraints * nat) nat :=
  match parents with
  | [] => Ok (cur, errs)
  | p :: r =>
      let pc := match get p with Some v => proj v | None => None end in
      if contradicting pc cur then stack_parents get proj r cur (S errs)
      else
        match merge_constraints (E := nat) pc cur with
        | Ok c => stack_parents get proj r c errs
        | Err e => Err e
        | Crash k => Crash k
        end
  end.

Fixpoint cprims_pass2 (cps : list cprim) (mapping : list (text * constraints)) (errs : nat)
  : outcome (list (text * constraints)) nat :=
  match cps with
  | [] => match errs with O => Ok mapping | S _ => Err errs end
  | cp :: r =>
      match stack_parents (fun p => alookup p mapping) (fun c => Some c) (cp_parents cp)
                          (alookup (cp_name cp) mapping) 0 with
      | Ok (Some c, e) => cprims_pass2 r (aset (cp_name cp) c mapping) (errs + e)
      | Ok (None, e) => cprims_pass2 r mapping (errs + e)
      | Err e => Err e
      | Crash k => Crash k
      end
  end.

(** [_infer_constraints_by_constrained_primitive]. *)
Definition infer_cprims (m : mmodel) : outcome (list (text * constraints)) nat :=
  do m1 <- cprims_pass1 (m_patterns m) (m_cprims m) [] 0;
  cprims_pass2 (m_cprims m) m1 0.

(** ** Classes *)

Fixpoint find_cprim (n : text) (cps : list cprim) : option cprim :=
  match cps with
  | [] => None
  | cp :: r => if text_eqb n (cp_name cp) then Some cp else find_cprim n r
  end.

Definition ptinfo_of (m : mmodel) (t : ptype) : ptinfo :=
  match beneath_optional t with
  | TPrim p => mk_ptinfo (Some p) None
  | TOur n =>
      match find_cprim n (m_cprims m) with
      | Some cp => mk_ptinfo (Some (cp_constrainee cp)) None
      | None => if mem_name n (m_enums m) then mk_ptinfo None (Some n) else mk_ptinfo None None
      end
  | _ => mk_ptinfo None None
  end.

(** [mapping[key] = _merge_constraints(mapping.get(key), c)]. *)
Definition cmap_merge_in (k : key) (c : constraints) (mp : cmap) : outcome cmap nat :=
  match merge_constraints (E := nat) (klookup k mp) (Some c) with
  | Ok (Some c') => Ok (kset k c' mp)
  | Ok None => Ok mp
  | Err e => Err e
  | Crash kd => Crash kd
  end.

Fixpoint cmap_merge_all {A} (f : A -> option (key * constraints)) (l : list A) (mp : cmap)
  : outcome cmap nat :=
  match l with
  | [] => Ok mp
  | a :: r =>
      match f a with
      | Some (k, c) => do mp' <- cmap_merge_in k c mp; cmap_merge_all f r mp'
      | None => cmap_merge_all f r mp
      end
  end.

(** In-lining of the constrained primitives of one property, level by level. *)
Fixpoint inline_levels (m : mmodel) (cpm : list (text * constraints)) (p : text)
         (lv : list ptype) (i : nat) (mp : cmap) (errs : nat) : outcome (cmap * nat) nat :=
  match lv with
  | [] => Ok (mp, errs)
  | t :: r =>
      match t with
      | TOur n =>
          match find_cprim n (m_cprims m) with
          | Some _ =>
              let cur := klookup (p, i) mp in
              let cpc := alookup n cpm in
              if contradicting cur cpc then inline_levels m cpm p r (S i) mp (S errs)
              else
                match merge_constraints (E := nat) cur cpc with
                | Ok (Some c) =>
                    if is_empty_constraints c then inline_levels m cpm p r (S i) mp errs
                    else inline_levels m cpm p r (S i) (kset (p, i) c mp) errs
                | Ok None => inline_levels m cpm p r (S i) mp errs
                | Err e => Err e
                | Crash k => Crash k
                end
          | None => inline_levels m cpm p r (S i) mp errs
          end
      | _ => inline_levels m cpm p r (S i) mp errs
      end
  end.

Fixpoint inline_props (m : mmodel) (cpm : list (text * constraints))
         (props : list (text * ptype)) (mp : cmap) (errs : nat) : outcome cmap nat :=
  match props with
  | [] => match errs with O => Ok mp | S _ => Err errs end
  | (p, t) :: r =>
      match inline_levels m cpm p (levels t) 0 mp errs with
      | Ok (mp', e) => inline_props m cpm r mp' e
      | Err e => Err e
      | Crash k => Crash k
      end
  end.

(** [_infer_constraints_of_class_values_without_inheritance]; [props] are all the
    properties of the class (inherited ones included). *)
Definition infer_class_local (m : mmodel) (cpm : list (text * constraints))
           (props : list (text * ptype)) (c : class) : outcome cmap nat :=
  let names := map fst props in
  let ptypes := map (fun pt => (fst pt, ptinfo_of m (snd pt))) props in
  let len_part := len_constraints_from_invariants names (c_invs c) in
  let set_part := infer_sets ptypes (m_consts m) (c_invs c) in
  match len_part, set_part with
  | Crash k, _ => Crash k
  | _, Crash k => Crash k
  | Ok ls, Ok (sp, se) =>
      do m1 <- cmap_merge_all
                 (fun e => match drop_dummy (snd e) with
                           | Some c => Some ((fst e, 0%nat), only_len c)
                           | None => None end) ls [];
      do m2 <- cmap_merge_all
                 (fun e => match snd e with
                           | [] => None
                           | ps => Some ((fst e, 0%nat), only_pats ps) end)
                 (patterns_from_invariants (m_patterns m) names (c_invs c)) m1;
      do m3 <- cmap_merge_all (fun e => Some ((fst e, 0%nat), only_setp (snd e))) sp m2;
      do m4 <- cmap_merge_all (fun e => Some ((fst e, 0%nat), only_sete (snd e))) se m3;
      inline_props m cpm props m4 0
  | Err a, Err b => Err (a + b)
  | Err a, Ok _ => Err a
  | Ok _, Err b => Err b
  end.

(** All properties of every class, following the declaration order (parents first). *)
Fixpoint props_table (cs : list class) (acc : list (text * list (text * ptype)))
  : outcome (list (text * list (text * ptype))) nat :=
  match cs with
  | [] => Ok acc
  | c :: r =>
      match
        (fix inherited (ps : list text) : option (list (text * ptype)) :=
           match ps with
           | [] => Some []
           | p :: q =>
               match alookup p acc, inherited q with
               | Some l, Some l' => Some (l ++ l')
               | _, _ => None
               end
           end) (c_parents c)
      with
      | Some inh => props_table r (acc ++ [(c_name c, inh ++ c_props c)])
      | None => Crash KeyError      (* a parent that was not declared before: not well-formed *)
      end
  end.

Fixpoint classes_pass1 (m : mmodel) (cpm : list (text * constraints))
         (pt : list (text * list (text * ptype))) (cs : list class)
         (acc : list (text * cmap)) (errs : nat) : outcome (list (text * cmap)) nat :=
  match cs with
  | [] => match errs with O => Ok acc | S _ => Err errs end
  | c :: r =>
      match alookup (c_name c) pt with
      | None => Crash KeyError
      | Some props =>
          match infer_class_local m cpm props c with
          | Ok mp => classes_pass1 m cpm pt r (acc ++ [(c_name c, mp)]) errs
          | Err e => classes_pass1 m cpm pt r acc (errs + e)
          | Crash k => Crash k
          end
      end
  end.

(** Stacking one parent map into the map of the class. *)
Fixpoint stack_map (pm : cmap) (that : cmap) (errs : nat) : outcome (cmap * nat) nat :=
  match pm with
  | [] => Ok (that, errs)
  | (k, pc) :: r =>
      let cur := klookup k that in
      if contradicting (Some pc) cur then stack_map r that (S errs)
      else
        match merge_constraints (E := nat) (Some pc) cur with
        | Ok (Some c) => stack_map r (kset k c that) errs
        | Ok None => stack_map r that errs
        | Err e => Err e
        | Crash kd => Crash kd
        end
  end.

Fixpoint stack_class_parents (mapping : list (text * cmap)) (parents : list text)
         (that : cmap) (errs : nat) : outcome (cmap * nat) nat :=
  match parents with
  | [] => Ok (that, errs)
  | p :: r =>
      match alookup p mapping with
      | None => Crash KeyError
      | Some pm =>
          match stack_map pm that errs with
          | Ok (that', e) => stack_class_parents mapping r that' e
          | Err e => Err e
          | Crash k => Crash k
          end
      end
  end.

Fixpoint classes_pass2 (cs : list class) (mapping : list (text * cmap)) (errs : nat)
  : outcome (list (text * cmap)) nat :=
  match cs with
  | [] => match errs with O => Ok mapping | S _ => Err errs end
  | c :: r =>
      match alookup (c_name c) mapping with
      | None => Crash KeyError
      | Some that =>
          match stack_class_parents mapping (c_parents c) that 0 with
          | Ok (that', e) => classes_pass2 r (aset (c_name c) that' mapping) (errs + e)
          | Err e => Err e
          | Crash k => Crash k
          end
      end
  end.

(** [infer_constraints_by_class]. *)
Definition infer (m : mmodel) : outcome (list (text * cmap)) nat :=
  do cpm <- infer_cprims m;
  do pt <- props_table (m_classes m) [];
  do m1 <- classes_pass1 m cpm pt (m_classes m) [] 0;
  classes_pass2 (m_classes m) m1 0.

(** ** Observation: per class, per property (inherited first), per level *)

Fixpoint level_obs (p : text) (n : nat) (i : nat) (mp : cmap) : list (option constraints) :=
  match n with
  | O => []
  | S n' => klookup (p, i) mp :: level_obs p n' (S i) mp
  end.

Definition observe (m : mmodel) : outcome (list (list (list (option constraints)))) nat :=
  do res <- infer m;
  do pt <- props_table (m_classes m) [];
  Ok (map (fun c =>
             match alookup (c_name c) res, alookup (c_name c) pt with
             | Some mp, Some props =>
                 map (fun p => level_obs (fst p) (length (levels (snd p))) 0 mp) props
             | _, _ => []
             end) (m_classes m)).

(** Decidable equality of observations (used by the correspondence check). *)
Definition lenc_eqb (a b : lenc) : bool :=
  option_eqb Z.eqb (fst a) (fst b) && option_eqb Z.eqb (snd a) (snd b).
Definition constraints_eqb (a b : constraints) : bool :=
  option_eqb lenc_eqb (k_len a) (k_len b)
  && option_eqb (list_eqb text_eqb) (k_pats a) (k_pats b)
  && option_eqb (fun x y => prim_eqb (fst x) (fst y) && list_eqb lit_eqb (snd x) (snd y))
                (k_setp a) (k_setp b)
  && option_eqb (fun x y => text_eqb (fst x) (fst y) && list_eqb text_eqb (snd x) (snd y))
                (k_sete a) (k_sete b).

(** 0 = Ok, 1 = Err, 2.. = Crash kinds as reported by the adapter. *)
Inductive obs : Type :=
| ObsOk (v : list (list (list (option constraints))))
| ObsErr
| ObsExc (k : crash_kind).

Definition obs_of (o : outcome (list (list (list (option constraints)))) nat) : obs :=
  match o with Ok v => ObsOk v | Err _ => ObsErr | Crash k => ObsExc k end.

Definition obs_eqb (a b : obs) : bool :=
  match a, b with
  | ObsOk x, ObsOk y =>
      list_eqb (list_eqb (list_eqb (option_eqb constraints_eqb))) x y
  | ObsErr, ObsErr => true
  | ObsExc k, ObsExc k' => crash_kind_eqb k k'
  | _, _ => false
  end.
