(** C26 — Yield-flow linearization preserves behaviour.

    Models: [Model/Flow.v] (structured flows + work-list semantics), [Model/Linear.v]
    ([linearize_to_subroutines] with all passes, the generated C++ state machine
    [cpp_machine]/[run_lin]), [Model/LinearCheck.v] (executable validator).
    This file contains only statements, [exact]s and [Print Assumptions]. *)
From Coq Require Import List NArith Bool Arith.
From Coq Require Strings.String.
Import Coq.Strings.String.StringSyntax.
From Acg Require Import Base.Outcome Base.Str Model.Flow Model.Linear Model.LinearCheck
  Proofs.LinearSem Proofs.LinearRaw Proofs.LinearCheck Proofs.LinearMain Proofs.LinearPasses Proofs.LinearTargets Proofs.LinearPos Proofs.LinearFull.
Import ListNotations.
Open Scope nat_scope.

(** [same_traces run f orc]: for every [k] the first [k] events emitted by the machine
    are — from some number of machine steps on, and for ever — exactly the first [k]
    events of the structured flow under the oracle [orc]. Events are commands,
    condition evaluations with their outcome, yields, and the final [EDone]; the
    machine's [EStuck] (C++ [default: throw]) never matches a structured event. *)

(** FULL: for every well-formed flow and every sequence of condition outcomes, running
    the subroutines returned by [linearize_to_subroutines] as the generated C++ state
    machine ([run_lin]: [switch] dispatch on head labels, fall-through, yield = state
    of the next case, start state 0) emits the same commands, condition evaluations,
    yields and termination as the structured flow.
    Proof: raw linearisation (simulation relation [matches]) composed with one
    simulation per pass — [_remove_redundant_labels_in_place] ([simA]), the first
    filter, main loop incl. trailing block, second filter and re-wiring of
    [_remove_noops_in_place] ([simB1], [simB2]), [_fix_labels_in_place] ([simC]),
    [_split_in_subroutines] + C++ dispatch ([simD]) — all instances of the single
    simulation lemma of [Proofs/LinearSem.v]. *)
Theorem C26_linearize_correct : forall f subs orc, wf_flow f = true ->
  linearize_to_subroutines f = Ok subs ->
  same_traces (fun n => run_lin n subs orc) f orc.
Proof. exact linearize_correct. Qed.
Print Assumptions C26_linearize_correct.

(** Stage 1 on its own: the raw linearisation ([_linearize_control_flow]) run as flat
    labelled code. *)
Theorem C26_linearize_raw_correct : forall f orc, wf_flow f = true ->
  same_traces
    (fun n => fst (fst (lin_run (flat_machine (linearize_control_flow f)) orc n (LRun 0) 0)))
    f orc.
Proof. exact raw_same_traces. Qed.
Print Assumptions C26_linearize_raw_correct.

(** The clean-up as a whole, on ANY labelled code with pairwise distinct labels whose
    targets are labels (not only on raw linearisations): compression and label fixing
    preserve every run. *)
Theorem C26_compress_preserves : forall c out, compress c = Ok out ->
  NoDup (labels c) -> targets_in_labels c ->
  simulates (flat_machine c) (LRun 0) (flat_machine out) (LRun 0).
Proof. exact simAB. Qed.
Print Assumptions C26_compress_preserves.

Theorem C26_fix_labels_preserves : forall c out, fix_labels c = Ok out ->
  NoDup (labels c) -> targets_in_labels c ->
  simulates (flat_machine c) (LRun 0) (flat_machine out) (LRun 0).
Proof. exact simC. Qed.
Print Assumptions C26_fix_labels_preserves.

(** Cross-check used by the harness (translation validation of the implementation's
    own output): whatever subroutines are accepted by the executable validator are
    trace-equivalent to the flow. *)
Theorem C26_validated_correct : forall f subs orc, wf_flow f = true -> subs <> [] ->
  validate f subs = true ->
  same_traces (fun n => run_lin n subs orc) f orc.
Proof. exact validated_same_traces. Qed.
Print Assumptions C26_validated_correct.

(** The empty flow: [linearize_to_subroutines [] = Ok []] and the consumer
    ([generate_execute_body]) emits no state machine; both sides just end. *)
Theorem C26_linearize_correct_empty : forall orc,
  linearize_to_subroutines [] = Ok [] /\ same_traces (fun n => run_lin n [] orc) [] orc.
Proof. intros orc. split; [reflexivity|exact (empty_same_traces orc)]. Qed.
Print Assumptions C26_linearize_correct_empty.

(** Soundness of the validator in general: an accepted pair of machines emits the same
    events from related configurations, for every oracle, and halting is preserved. *)
Theorem C26_validator_sound : forall M1 M2 c1 c2, sim_check M1 M2 c1 c2 = true ->
  forall orc n1 i t c1' i', lin_run M1 orc n1 c1 i = (t, c1', i') ->
  exists n2 c2', lin_run M2 orc n2 c2 i = (t, c2', i') /\ (c1' = LHalt -> c2' = LHalt).
Proof. exact sim_check_sound. Qed.
Print Assumptions C26_validator_sound.

(** Subroutine labels are consecutive — for every flow on which the function returns
    (it re-checks this as its own postcondition, so a violation is a [Crash]). *)
Theorem C26_labels_consecutive : forall f subs,
  linearize_to_subroutines f = Ok subs -> heads_consecutive subs.
Proof. exact labels_consecutive. Qed.
Print Assumptions C26_labels_consecutive.

(** Every jump target is a case label — FULL, for all well-formed flows: every target
    of a [Jump] / [If] in the returned subroutines is the head label of a subroutine,
    i.e. the C++ [switch] never reaches [default: throw] through a jump. *)
Theorem C26_targets_exist : forall f subs, wf_flow f = true ->
  linearize_to_subroutines f = Ok subs ->
  forall s t, In s (concat subs) -> In t (kind_targets (s_kind s)) ->
  exists pos, find_case subs 0 t = Some pos.
Proof. exact targets_exist. Qed.
Print Assumptions C26_targets_exist.

(** [subroutine_shape] — FULL, for all well-formed flows: no assert, precondition or
    postcondition of linear.py fires ([linearize_to_subroutines f] is never a [Crash];
    in particular the [Subroutine] precondition and the consecutive-labels [@ensure]
    hold), and the subroutine heads are labelled exactly 0, 1, 2, ... in order
    (0 being the initial [state_] of the generated iterator). *)
Theorem C26_subroutine_shape : forall f, wf_flow f = true ->
  exists subs, linearize_to_subroutines f = Ok subs
               /\ map sub_head_label subs = map Some (seq 0 (length subs)).
Proof. exact subroutine_shape. Qed.
Print Assumptions C26_subroutine_shape.

(** Non-vacuity: a flow with nested loops, if/else, empty else, a trailing loop and
    yields is well-formed, is linearised without a crash into ten subroutines with
    labels 0..9, the validator accepts it, and the traces are what one expects. *)
Definition ex_flow : list node :=
  [NFor (Some (s2l "i")) (s2l "a") (s2l "j")
     [NIfTrue (s2l "b") [NYield] (Some [NCommand (s2l "x")]);
      NIfFalse (s2l "c") [NCommand (s2l "y")] (Some [])];
   NYield;
   NWhile (s2l "d") [NIfTrue (s2l "e") [NCommand (s2l "z")] None]].

Example C26_nonvacuous :
  wf_flow ex_flow = true
  /\ validate_flow ex_flow = true
  /\ match linearize_to_subroutines ex_flow with
     | Ok subs => map sub_head_label subs = map Some (seq 0 10)
     | _ => False
     end
  /\ run_struct 6 ex_flow (fun i => Nat.even i)
     = [ECmd (s2l "i"); ECond (s2l "a") true; ECond (s2l "b") false; ECmd (s2l "x");
        ECond (s2l "c") true; ECmd (s2l "j")].
Proof. vm_compute. repeat split; reflexivity. Qed.
Print Assumptions C26_nonvacuous.

Example C26_nonvacuous_machine :
  match linearize_to_subroutines ex_flow with
  | Ok subs => firstn 6 (run_lin 40 subs (fun i => Nat.even i)) = run_struct 6 ex_flow (fun i => Nat.even i)
               /\ last (run_lin 200 subs (fun _ => false)) EStuck = EDone
  | _ => False
  end.
Proof. vm_compute. split; reflexivity. Qed.
Print Assumptions C26_nonvacuous_machine.
