"""Adapter (C20): front end + the real description renderers of the six targets.

stdin: {"models": [meta-model text, ...]}
stdout: per model {"status": "rejected" | "crash", ...} or
  {"status": "ok", "items": [{"where": str, "kind": str,
                              "out": {name: {"ok": text} | {"err": [..]} | {"exc": cls}}}]}
``name`` is ``<target>`` or ``python:docstring`` / ``python:comment`` (the two wrappers
python/main.py applies to a rendered description)."""
import json
import sys
import traceback


def load(text):
    from aas_core_codegen import parse, intermediate
    try:
        atok, exc = parse.source_to_atok(source=text)
        if exc is not None:
            return None, {"status": "rejected", "stage": "syntax", "error": str(exc)[:300]}
        errs = parse.check_expected_imports(atok=atok)
        if errs:
            return None, {"status": "rejected", "stage": "imports", "error": str(errs)[:300]}
        parsed, error = parse.atok_to_symbol_table(atok=atok)
        if error is not None:
            return None, {"status": "rejected", "stage": "parse", "error": str(error)[:600]}
        ir, error = intermediate.translate(parsed_symbol_table=parsed, atok=atok)
        if error is not None:
            return None, {"status": "rejected", "stage": "translate", "error": str(error)[:600]}
        return ir, None
    except BaseException as exc:  # noqa
        return None, {"status": "crash", "exception": type(exc).__name__,
                      "traceback": traceback.format_exc()[-1500:]}


def descriptions(st):
    """(where, kind, description, owner class/enum or None)"""
    from aas_core_codegen import intermediate
    out = []
    if st.meta_model.description is not None:
        out.append(("meta_model", "meta_model", st.meta_model.description, None))
    for ot in st.our_types:
        if ot.description is not None:
            out.append((ot.name, "our_type", ot.description, ot))
        if isinstance(ot, intermediate.Enumeration):
            for lit in ot.literals:
                if lit.description is not None:
                    out.append((f"{ot.name}.{lit.name}", "literal", lit.description, ot))
        elif isinstance(ot, (intermediate.AbstractClass, intermediate.ConcreteClass)):
            for prop in ot.properties:
                if prop.description is not None and prop.specified_for is ot:
                    out.append((f"{ot.name}.{prop.name}", "property", prop.description, ot))
            for m in ot.methods:
                if m.description is not None and m.specified_for is ot:
                    out.append((f"{ot.name}.{m.name}", "signature", m.description, ot))
    for fn in st.verification_functions:
        if fn.description is not None:
            out.append((fn.name, "signature", fn.description, None))
    for c in st.constants:
        if c.description is not None:
            out.append((c.name, "constant", c.description, None))
    return out


def renderers(kind, owner):
    """name -> thunk(description) returning (text, errors)"""
    from aas_core_codegen.common import Identifier
    import aas_core_codegen.python.description as py
    import aas_core_codegen.python.common as py_common
    import aas_core_codegen.typescript.description as ts
    import aas_core_codegen.java.description as java
    import aas_core_codegen.java.common as java_common
    import aas_core_codegen.csharp.description as cs
    import aas_core_codegen.cpp.description as cpp
    import aas_core_codegen.golang.description as go

    pyc = py.Context(qualified_module_name=py_common.QualifiedModuleName("dummy"),
                     module=Identifier("types"), cls_or_enum=owner)
    tsc = ts.Context(module=Identifier("types"), cls_or_enum=owner)
    javac = java.Context(package=java_common.PackageIdentifier("dummy.pkg"), cls_or_enum=owner)
    cppc = cpp.Context(namespace=Identifier("dummy"), cls_or_enum=owner)
    goc = go.Context(package=Identifier("types"), cls_or_enum=owner)
    with_constraints = kind in ("meta_model", "our_type", "property")

    def wrap(fn, wrapper):
        def run(d):
            text, errors = fn(d)
            if errors is not None:
                return None, errors
            return wrapper(text), None
        return run

    r = {}
    if kind == "signature":
        r["python:docstring"] = lambda d: py.generate_docstring_for_signature(d, pyc)
        r["typescript"] = lambda d: ts.generate_documentation_comment_for_signature(d, tsc)
        r["java"] = lambda d: java.generate_comment_for_signature(d, javac)
        r["csharp"] = lambda d: cs.generate_comment_for_signature(d)
        r["cpp"] = lambda d: cpp.generate_comment_for_signature(d, cppc)
        r["golang"] = lambda d: go.generate_comment_for_signature(d, goc)
        return r
    if with_constraints:
        pyf = lambda d: py.generate_summary_remarks_constraints(d, pyc)
        r["typescript"] = lambda d: ts.generate_documentation_comment_for_summary_remarks_constraints(d, tsc)
        r["cpp"] = lambda d: cpp.generate_comment_for_summary_remarks_constraints(d, cppc)
        r["golang"] = lambda d: go.generate_comment_for_summary_remarks_constraints(d, goc)
    else:
        pyf = lambda d: py.generate_summary_remarks(d, pyc)
        r["typescript"] = lambda d: ts.generate_documentation_comment_for_summary_remarks(d, tsc)
        r["cpp"] = lambda d: cpp.generate_comment_for_summary_remarks(d, cppc)
        r["golang"] = lambda d: go.generate_comment_for_summary_remarks(d, goc)
    r["python:docstring"] = wrap(pyf, py.docstring)
    r["python:comment"] = wrap(pyf, py.documentation_comment)
    if kind == "meta_model":
        r["csharp"] = lambda d: cs.generate_comment_for_meta_model(d)
    elif kind == "our_type":
        r["csharp"] = lambda d: cs.generate_comment_for_our_type(d)
        r["java"] = lambda d: java.generate_comment_for_our_type(d, javac)
    elif kind == "property":
        r["csharp"] = lambda d: cs.generate_comment_for_property(d)
        r["java"] = lambda d: java.generate_comment_for_property(d, javac)
    elif kind == "literal":
        r["csharp"] = lambda d: cs.generate_comment_for_enumeration_literal(d)
        r["java"] = lambda d: java.generate_comment_for_enumeration_literal(d, javac)
    return r


def main():
    payload = json.load(sys.stdin)
    out = []
    for text in payload["models"]:
        st, failure = load(text)
        if failure is not None:
            out.append(failure)
            continue
        items = []
        for where, kind, desc, owner in descriptions(st):
            res = {}
            for name, fn in renderers(kind, owner).items():
                try:
                    got, errors = fn(desc)
                    if errors is not None:
                        res[name] = {"err": [str(e)[:200] for e in errors][:3]}
                    else:
                        res[name] = {"ok": str(got)}
                except BaseException as exc:  # noqa
                    res[name] = {"exc": type(exc).__name__, "tb": traceback.format_exc()[-600:]}
            items.append({"where": where, "kind": kind, "out": res})
        out.append({"status": "ok", "items": items})
    json.dump(out, sys.stdout)


main()
