"""parse/_translate.py:_verify_symbol_table — the reserved-name data of the structural rules.

Translated on every run (fail closed):

* the string sets ``reserved_type_names`` and ``reserved_member_names`` (evaluated from the
  set displays and ``.union(...)`` chains of the function body; nothing else is accepted),
* the ``startswith`` / ``endswith`` tests on type, property and method names,
* the *uses* of the sets: which kind of name is tested against which set, and that the
  tested value is the lower-cased name. A dropped or re-targeted test changes the
  generated ``Gen/GenRules.v`` or makes this translator fail.
"""
from __future__ import annotations

import ast
from typing import Dict, List, Set, Tuple

from harness.translate.astutil import TranslateError, coq_string_list, coq_text, find_function, parse

SOURCE = "aas_core_codegen/parse/_translate.py"
FUNCTION = "_verify_symbol_table"


def _eval_set(node: ast.AST, env: Dict[str, Set[str]]) -> Set[str]:
    if isinstance(node, ast.Set):
        out = set()
        for e in node.elts:
            if not (isinstance(e, ast.Constant) and isinstance(e.value, str)):
                raise TranslateError(f"non-string element in a reserved set at line {e.lineno}")
            out.add(e.value)
        return out
    if isinstance(node, ast.Name):
        if node.id not in env:
            raise TranslateError(f"unknown set {node.id!r} at line {node.lineno}")
        return set(env[node.id])
    if (isinstance(node, ast.Call) and isinstance(node.func, ast.Attribute) and node.func.attr == "union"
            and not node.keywords):
        out = _eval_set(node.func.value, env)
        for a in node.args:
            out |= _eval_set(a, env)
        return out
    raise TranslateError(f"unsupported set expression {type(node).__name__} at line {getattr(node, 'lineno', '?')}")


def _loop_kinds(fn: ast.AST) -> Dict[str, str]:
    """loop variable -> attribute iterated over (``for v in <x>.<attr>``)."""
    kinds: Dict[str, str] = {}
    for node in ast.walk(fn):
        if isinstance(node, ast.For) and isinstance(node.target, ast.Name) and isinstance(node.iter, ast.Attribute):
            v, k = node.target.id, node.iter.attr
            if kinds.get(v, k) != k:
                kinds[v] = "<ambiguous>"
            else:
                kinds[v] = k
    return kinds


def _name_kind(node: ast.AST, kinds: Dict[str, str], lowered: Dict[str, ast.AST]):
    """Classify an expression denoting a name: (collection the named thing comes from,
    lower-cased?) or None. Independent of how the local variables are called."""
    if isinstance(node, ast.Name) and node.id in lowered:
        return _name_kind(lowered[node.id], kinds, lowered)
    if isinstance(node, ast.Call) and isinstance(node.func, ast.Attribute) and node.func.attr == "lower" \
            and not node.args and not node.keywords:
        inner = _name_kind(node.func.value, kinds, lowered)
        return None if inner is None else (inner[0], True)
    if isinstance(node, ast.Attribute) and node.attr == "name" and isinstance(node.value, ast.Name) \
            and node.value.id in kinds:
        return kinds[node.value.id], False
    return None


def extract() -> Dict[str, object]:
    fn = find_function(parse(SOURCE), FUNCTION)
    wanted = ("builtin_types_in_many_implementations", "keywords_in_many_implementations",
              "reserved_type_names", "reserved_member_names")
    sets_by_role: Dict[str, str] = {}
    # evaluate the sets in source order (top-level statements of the function only)
    env: Dict[str, Set[str]] = {}
    for stmt in fn.body:
        if isinstance(stmt, ast.Assign) and len(stmt.targets) == 1 and isinstance(stmt.targets[0], ast.Name) \
                and stmt.targets[0].id in wanted:
            if stmt.targets[0].id in env:
                raise TranslateError(f"{stmt.targets[0].id} assigned twice")
            env[stmt.targets[0].id] = _eval_set(stmt.value, env)
    for w in ("reserved_type_names", "reserved_member_names"):
        if w not in env:
            raise TranslateError(f"{w} is not assigned at the top level of {FUNCTION}")
    n_assign = 0
    for node in ast.walk(fn):
        targets = []
        if isinstance(node, ast.Assign):
            targets = node.targets
        elif isinstance(node, (ast.AugAssign, ast.AnnAssign)):
            targets = [node.target]
        for t in targets:
            if isinstance(t, ast.Name) and t.id in wanted:
                n_assign += 1
        if isinstance(node, ast.Call) and isinstance(node.func, ast.Attribute) \
                and isinstance(node.func.value, ast.Name) and node.func.value.id in wanted \
                and node.func.attr != "union":
            raise TranslateError(f"the set {node.func.value.id} is modified by .{node.func.attr}() "
                                 f"at line {node.lineno}")
    if n_assign != len(env):
        raise TranslateError("a reserved set is (re-)assigned outside of the top level of the function")

    kinds = _loop_kinds(fn)
    lowered: Dict[str, ast.AST] = {}
    for node in ast.walk(fn):
        if isinstance(node, ast.Assign) and len(node.targets) == 1 and isinstance(node.targets[0], ast.Name) \
                and _name_kind(node.value, kinds, {}) is not None:
            if node.targets[0].id in lowered:
                raise TranslateError(f"{node.targets[0].id} assigned twice")
            lowered[node.targets[0].id] = node.value

    # uses of the sets
    uses: Set[Tuple[str, str]] = set()
    for node in ast.walk(fn):
        if isinstance(node, ast.Compare) and len(node.ops) == 1 and isinstance(node.comparators[0], ast.Name) \
                and node.comparators[0].id in ("reserved_type_names", "reserved_member_names"):
            if not isinstance(node.ops[0], ast.In):
                raise TranslateError(f"unexpected test against a reserved set at line {node.lineno}")
            nk = _name_kind(node.left, kinds, lowered)
            if nk is None or not nk[1]:
                raise TranslateError(f"a reserved set is tested against {ast.unparse(node.left)!r}, which is "
                                     f"not a lower-cased name (line {node.lineno})")
            uses.add((nk[0], node.comparators[0].id))
    expected_uses = {
        ("our_types", "reserved_type_names"),
        ("methods", "reserved_member_names"),
        ("properties", "reserved_member_names"),
        ("constants", "reserved_member_names"), ("constants", "reserved_type_names"),
        ("verification_functions", "reserved_member_names"), ("verification_functions", "reserved_type_names"),
    }
    if uses != expected_uses:
        raise TranslateError(f"the reserved sets are used differently than modelled: "
                             f"missing {sorted(expected_uses - uses)}, unexpected {sorted(uses - expected_uses)}")

    # prefix / suffix tests
    def affix(node):
        af = _affix(node)
        if af is None:
            return None
        nk = _name_kind(af[0], kinds, lowered)
        if nk is None:
            raise TranslateError(f"unmodelled {af[1]} test on {ast.unparse(af[0])!r} at line {node.lineno}")
        return nk, af[1], af[2]

    starts: Dict[Tuple[str, bool], List[str]] = {}
    ends: Dict[Tuple[str, bool], List[str]] = {}
    over_rule = None
    conjoined = set()
    for node in ast.walk(fn):
        if isinstance(node, ast.BoolOp) and isinstance(node.op, ast.And) and len(node.values) == 2:
            a, b = node.values
            if affix(a) and affix(a)[1] == "startswith" and isinstance(b, ast.BoolOp) and isinstance(b.op, ast.Or) \
                    and all(affix(x) and affix(x)[1] == "endswith" for x in b.values):
                recv = affix(a)[0]
                if any(affix(x)[0] != recv for x in b.values):
                    raise TranslateError("over/or_empty rule mixes receivers")
                if over_rule is not None:
                    raise TranslateError("more than one prefix-and-suffix rule")
                over_rule = (recv, affix(a)[2], [affix(x)[2] for x in b.values])
                conjoined.add(id(a))
                conjoined.update(id(x) for x in b.values)
    for node in ast.walk(fn):
        if id(node) in conjoined:
            continue
        af = affix(node)
        if af is None:
            continue
        recv, kind, const = af
        (starts if kind == "startswith" else ends).setdefault(recv, []).append(const)
    if ends:
        raise TranslateError(f"unmodelled endswith tests: {ends}")
    if over_rule is None or over_rule[0] != ("methods", True):
        raise TranslateError(f"the over…or_empty rule on lower-cased method names was not found: {over_rule}")
    allowed = {("our_types", False), ("methods", True), ("properties", True)}
    if set(starts) - allowed:
        raise TranslateError(f"unmodelled startswith tests on {sorted(set(starts) - allowed)}")
    for recv, consts in list(starts.items()) + [(("methods", True), [over_rule[1], *over_rule[2]])]:
        for c in consts:
            if recv[1] and c != c.lower():
                raise TranslateError(f"affix {c!r} is compared with a lower-cased name but is not lower case")
    for s in (env["reserved_type_names"] | env["reserved_member_names"]):
        if not s.isascii() or s != s.lower():
            raise TranslateError(f"reserved name {s!r} is not lower-case ASCII")
    return {
        "type_names": sorted(env["reserved_type_names"]),
        "member_names": sorted(env["reserved_member_names"]),
        "type_prefixes": starts.get(("our_types", False), []),
        "prop_prefixes": starts.get(("properties", True), []),
        "method_prefixes": starts.get(("methods", True), []),
        "over_prefix": over_rule[1],
        "over_suffixes": over_rule[2],
    }


def _affix(node: ast.AST):
    """(receiver node, 'startswith'|'endswith', constant) for ``recv.startswith("...")``."""
    if isinstance(node, ast.Call) and isinstance(node.func, ast.Attribute) \
            and node.func.attr in ("startswith", "endswith"):
        if len(node.args) != 1 or node.keywords or not (isinstance(node.args[0], ast.Constant)
                                                         and isinstance(node.args[0].value, str)):
            raise TranslateError(f"unsupported {node.func.attr} test at line {node.lineno}")
        return node.func.value, node.func.attr, node.args[0].value
    return None


def gen_rules() -> str:
    d = extract()
    out = [
        "From Coq Require Import List NArith.",
        "From Acg Require Import Base.Str Model.Rules.",
        "Import ListNotations.",
        f"(* from {SOURCE}:{FUNCTION} *)",
        f"Definition reserved_type_names : list text := {coq_string_list(d['type_names'])}.",
        f"Definition reserved_member_names : list text := {coq_string_list(d['member_names'])}.",
        f"Definition reserved_type_prefixes : list text := {coq_string_list(d['type_prefixes'])}.",
        f"Definition reserved_prop_prefixes : list text := {coq_string_list(d['prop_prefixes'])}.",
        f"Definition reserved_method_prefixes : list text := {coq_string_list(d['method_prefixes'])}.",
        f"Definition reserved_over_prefix : text := {coq_text(d['over_prefix'])}.",
        f"Definition reserved_over_suffixes : list text := {coq_string_list(d['over_suffixes'])}.",
        "Definition reserved_data : reserved :=",
        "  mkReserved reserved_type_names reserved_member_names reserved_type_prefixes",
        "             reserved_prop_prefixes reserved_method_prefixes reserved_over_prefix",
        "             reserved_over_suffixes.",
    ]
    return "\n".join(out) + "\n"


GEN_FILES = {"GenRules": gen_rules}
