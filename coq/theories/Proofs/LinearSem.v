(** Generic facts about the label machine of [Model/Linear.v]: composition of runs and
    ONE simulation lemma that serves every clean-up pass: the second machine is the
    first one with some no-ops deleted (position map [phi]), the remaining statements
    changed only in their labels/targets, such that related targets resolve to
    related positions (up to no-ops that the second machine still has to skip). *)
From Coq Require Import List NArith Bool Arith Lia.
From Acg Require Import Base.Outcome Base.Str Model.Flow Model.Linear.
Import ListNotations.
Open Scope nat_scope.

Lemma lin_run_app : forall M orc n m c i,
  lin_run M orc (n + m) c i =
  let '(t1, c1, i1) := lin_run M orc n c i in
  let '(t2, c2, i2) := lin_run M orc m c1 i1 in
  (t1 ++ t2, c2, i2).
Proof.
  intros M orc n; induction n as [|n IH]; intros m c i; cbn [lin_run plus].
  - destruct (lin_run M orc m c i) as [[t2 c2] i2]. reflexivity.
  - destruct (lin_step M orc c i) as [[e c1] i1].
    rewrite IH.
    destruct (lin_run M orc n c1 i1) as [[t1 c1'] i1'].
    destruct (lin_run M orc m c1' i1') as [[t2 c2] i2].
    rewrite app_assoc. reflexivity.
Qed.

Lemma lin_run_compose : forall M orc n m c i t1 c1 i1 t2 c2 i2,
  lin_run M orc n c i = (t1, c1, i1) ->
  lin_run M orc m c1 i1 = (t2, c2, i2) ->
  lin_run M orc (n + m) c i = (t1 ++ t2, c2, i2).
Proof.
  intros M orc n m c i t1 c1 i1 t2 c2 i2 H1 H2.
  rewrite lin_run_app, H1, H2. reflexivity.
Qed.

Lemma lin_run_1 : forall M orc c i,
  lin_run M orc 1 c i =
  let '(e, c1, i1) := lin_step M orc c i in (ev_list e, c1, i1).
Proof.
  intros. cbn [lin_run]. destruct (lin_step M orc c i) as [[e c1] i1].
  rewrite app_nil_r. reflexivity.
Qed.

(** Once halted, nothing more is emitted. *)
Lemma lin_run_halt : forall M orc n i, lin_run M orc n LHalt i = ([], LHalt, i).
Proof.
  intros M orc n; induction n as [|n IH]; intros i; cbn [lin_run lin_step]; [reflexivity|].
  rewrite IH. reflexivity.
Qed.

Lemma struct_run_halt : forall orc k i, struct_run orc k SHalt i = ([], SHalt, i).
Proof. intros orc [|k] i; reflexivity. Qed.

Lemma struct_run_app : forall orc n m c i,
  struct_run orc (n + m) c i =
  let '(t1, c1, i1) := struct_run orc n c i in
  let '(t2, c2, i2) := struct_run orc m c1 i1 in
  (t1 ++ t2, c2, i2).
Proof.
  intros orc n; induction n as [|n IH]; intros m c i; cbn [struct_run plus].
  - destruct (struct_run orc m c i) as [[t2 c2] i2]. reflexivity.
  - destruct c as [w|].
    + destruct (struct_step orc w i) as [[e c1] i1].
      rewrite IH.
      destruct (struct_run orc n c1 i1) as [[t1 c1'] i1'].
      destruct (struct_run orc m c1' i1') as [[t2 c2] i2]. reflexivity.
    + rewrite struct_run_halt. reflexivity.
Qed.

(* ------------------------------------------------------------------------- *)
Section Sim.
  Variables M1 M2 : machine.
  Variable phi : nat -> nat.

  Let code1 := m_code M1.
  Let code2 := m_code M2.

  Definition noops2 (p q : nat) : Prop :=
    forall j, p <= j < q -> exists s, nth_error code2 j = Some s /\ s_kind s = KNoop.

  Definition target_rel (t1 t2 : nat) : Prop :=
    exists q1 q2, m_resolve M1 t1 = Some q1 /\ m_resolve M2 t2 = Some q2
                  /\ q1 <= length code1 /\ q2 <= phi q1 /\ noops2 q2 (phi q1).

  Definition conf_rel (c1 c2 : lconf) : Prop :=
    match c1, c2 with
    | LRun p1, LRun p2 => p1 <= length code1 /\ p2 <= phi p1 /\ noops2 p2 (phi p1)
    | LRun p1, LGoto t2 =>
        exists q2, m_resolve M2 t2 = Some q2
                   /\ p1 <= length code1 /\ q2 <= phi p1 /\ noops2 q2 (phi p1)
    | LGoto t1, LGoto t2 => target_rel t1 t2
    | LHalt, LHalt => True
    | _, _ => False
    end.

  Definition otarget_rel (a b : option nat) : Prop :=
    match a, b with
    | None, None => True
    | Some x, Some y => target_rel x y
    | _, _ => False
    end.

  Definition kind_rel (k1 k2 : skind) : Prop :=
    match k1, k2 with
    | KCommand a, KCommand b => a = b
    | KIf c a b, KIf c' a' b' => c = c' /\ otarget_rel a a' /\ otarget_rel b b'
    | KJump t, KJump t' => target_rel t t'
    | KYield, KYield => True
    | KNoop, KNoop => True
    | _, _ => False
    end.

  Hypothesis Hstep : forall p s1, nth_error code1 p = Some s1 ->
    (s_kind s1 = KNoop /\ phi (S p) = phi p)
    \/ (exists s2, nth_error code2 (phi p) = Some s2
                   /\ kind_rel (s_kind s1) (s_kind s2)
                   /\ phi (S p) = S (phi p)
                   /\ (s_kind s1 = KYield -> conf_rel (m_yield M1 p) (m_yield M2 (phi p)))).
  Hypothesis Hend : phi (length code1) = length code2.

  Variable orc : oracle.

  Lemma run_noops2 : forall d p i, noops2 p (p + d) ->
    lin_run M2 orc d (LRun p) i = ([], LRun (p + d), i).
  Proof.
    induction d as [|d IH]; intros p i Hn.
    - cbn. rewrite Nat.add_0_r. reflexivity.
    - cbn [lin_run lin_step].
      destruct (Hn p) as [s [Hs Hk]]; [lia|].
      fold code2. rewrite Hs, Hk.
      replace (p + S d) with (S p + d) by lia.
      rewrite IH; [reflexivity|].
      intros j Hj. apply Hn. lia.
  Qed.

  Lemma sim_step_run : forall p1 p2 i e c1' i',
    p1 <= length code1 -> p2 <= phi p1 -> noops2 p2 (phi p1) ->
    lin_step M1 orc (LRun p1) i = (e, c1', i') ->
    exists n2 c2', lin_run M2 orc n2 (LRun p2) i = (ev_list e, c2', i') /\ conf_rel c1' c2'.
  Proof.
    intros p1 p2 i e c1' i' Hle Hp2 Hno Hs.
      assert (Hpre : lin_run M2 orc (phi p1 - p2) (LRun p2) i = ([], LRun (phi p1), i)).
      { replace (phi p1) with (p2 + (phi p1 - p2)) at 2 by lia.
        apply run_noops2. replace (p2 + (phi p1 - p2)) with (phi p1) by lia. exact Hno. }
      cbn [lin_step] in Hs. fold code1 in Hs.
      destruct (nth_error code1 p1) as [s1|] eqn:E1.
      + assert (Hlt : p1 < length code1) by (apply nth_error_Some; congruence).
        destruct (Hstep p1 s1 E1) as [[Hk Hphi] | [s2 [E2 [Hkr [Hphi Hy]]]]].
        * rewrite Hk in Hs. inversion Hs; subst e c1' i'.
          exists (phi p1 - p2), (LRun (phi p1)). split; [exact Hpre|].
          cbn [conf_rel]. rewrite Hphi. repeat split; try lia.
          intros j Hj; lia.
        * assert (Hone : forall e2 c2' i2,
                     lin_step M2 orc (LRun (phi p1)) i = (e2, c2', i2) ->
                     lin_run M2 orc (phi p1 - p2 + 1) (LRun p2) i = (ev_list e2, c2', i2)).
          { intros e2 c2' i2 H2.
            eapply (lin_run_compose M2 orc _ 1 _ _ [] _ _ (ev_list e2)); [exact Hpre|].
            rewrite lin_run_1, H2. reflexivity. }
          assert (Hnil : forall p, noops2 (S p) (S p)) by (intros p j Hj; lia).
          destruct (s_kind s1) as [a|c a b|t| |] eqn:K1;
            destruct (s_kind s2) as [a'|c' a' b'|t'| |] eqn:K2;
            cbn [kind_rel] in Hkr; try contradiction.
          -- subst a'. inversion Hs; subst e c1' i'.
             exists (phi p1 - p2 + 1), (LRun (S (phi p1))). split.
             ++ apply Hone. cbn [lin_step]. fold code2. rewrite E2, K2. reflexivity.
             ++ cbn [conf_rel]. rewrite Hphi. repeat split; try lia. apply Hnil.
          -- destruct Hkr as [Hc [Ha Hb]]. subst c'.
             inversion Hs; subst e c1' i'.
             exists (phi p1 - p2 + 1), (branch (phi p1) (if orc i then a' else b')). split.
             ++ apply Hone. cbn [lin_step]. fold code2. rewrite E2, K2. reflexivity.
             ++ destruct (orc i).
                ** destruct a as [x|]; destruct a' as [y|]; cbn in Ha; try contradiction;
                     cbn [branch conf_rel]; [exact Ha|].
                   rewrite Hphi. repeat split; try lia. apply Hnil.
                ** destruct b as [x|]; destruct b' as [y|]; cbn in Hb; try contradiction;
                     cbn [branch conf_rel]; [exact Hb|].
                   rewrite Hphi. repeat split; try lia. apply Hnil.
          -- inversion Hs; subst e c1' i'.
             exists (phi p1 - p2 + 1), (LGoto t'). split.
             ++ apply Hone. cbn [lin_step]. fold code2. rewrite E2, K2. reflexivity.
             ++ exact Hkr.
          -- inversion Hs; subst e c1' i'.
             exists (phi p1 - p2 + 1), (m_yield M2 (phi p1)). split.
             ++ apply Hone. cbn [lin_step]. fold code2. rewrite E2, K2. reflexivity.
             ++ apply Hy. reflexivity.
          -- inversion Hs; subst e c1' i'.
             exists (phi p1 - p2 + 1), (LRun (S (phi p1))). split.
             ++ apply Hone. cbn [lin_step]. fold code2. rewrite E2, K2. reflexivity.
             ++ cbn [conf_rel]. rewrite Hphi. repeat split; try lia. apply Hnil.
      + inversion Hs; subst e c1' i'.
        assert (Hp : p1 = length code1).
        { apply nth_error_None in E1. lia. }
        exists (phi p1 - p2 + 1), LHalt. split; [|exact I].
        eapply (lin_run_compose M2 orc _ 1 _ _ [] _ _ [EDone]); [exact Hpre|].
        rewrite lin_run_1. cbn [lin_step]. fold code2.
        replace (nth_error code2 (phi p1)) with (@None stmt); [reflexivity|].
        symmetry. apply nth_error_None. rewrite Hp, Hend. lia.
  Qed.

  Lemma sim_step : forall c1 c2 i e c1' i',
    conf_rel c1 c2 -> lin_step M1 orc c1 i = (e, c1', i') ->
    exists n2 c2', lin_run M2 orc n2 c2 i = (ev_list e, c2', i') /\ conf_rel c1' c2'.
  Proof.
    intros c1 c2 i e c1' i' HR Hs.
    destruct c1 as [p1|t1| |]; destruct c2 as [p2|t2| |]; cbn [conf_rel] in HR; try contradiction.
    - destruct HR as [Hle [Hp2 Hno]]. eapply sim_step_run; eassumption.
    - destruct HR as [q2 [R2 [Hle [Hq Hno]]]].
      destruct (sim_step_run p1 q2 i e c1' i' Hle Hq Hno Hs) as [n2 [c2' [H2 HR2]]].
      exists (1 + n2), c2'. split; [|exact HR2].
      eapply (lin_run_compose M2 orc 1 n2 _ _ [] (LRun q2) i); [|exact H2].
      rewrite lin_run_1. cbn [lin_step]. rewrite R2. reflexivity.
    - (* dispatch *)
      destruct HR as [q1 [q2 [R1 [R2 [Hle [Hq Hno]]]]]].
      cbn [lin_step] in Hs. rewrite R1 in Hs. inversion Hs; subst e c1' i'.
      exists 1, (LRun q2). split.
      + rewrite lin_run_1. cbn [lin_step]. rewrite R2. reflexivity.
      + cbn [conf_rel]. auto.
    - (* halted *)
      cbn [lin_step] in Hs. inversion Hs; subst e c1' i'.
      exists 0, LHalt. split; [reflexivity|exact I].
  Qed.

  Lemma sim_run : forall n1 c1 c2 i t c1' i',
    conf_rel c1 c2 -> lin_run M1 orc n1 c1 i = (t, c1', i') ->
    exists n2 c2', lin_run M2 orc n2 c2 i = (t, c2', i') /\ conf_rel c1' c2'.
  Proof.
    induction n1 as [|n1 IH]; intros c1 c2 i t c1' i' HR Hrun.
    - cbn in Hrun. inversion Hrun; subst. exists 0, c2. split; [reflexivity|exact HR].
    - cbn [lin_run] in Hrun.
      destruct (lin_step M1 orc c1 i) as [[e c1a] ia] eqn:Es.
      destruct (lin_run M1 orc n1 c1a ia) as [[t' c1b] ib] eqn:Er.
      inversion Hrun; subst t c1' i'.
      destruct (sim_step _ _ _ _ _ _ HR Es) as [na [c2a [Ha HRa]]].
      destruct (IH _ _ _ _ _ _ HRa Er) as [nb [c2b [Hb HRb]]].
      exists (na + nb), c2b. split; [|exact HRb].
      eapply lin_run_compose; eassumption.
  Qed.

  Lemma conf_rel_halt : forall c2, conf_rel LHalt c2 -> c2 = LHalt.
  Proof. intros [p|t| |] H; cbn in H; try contradiction; reflexivity. Qed.
End Sim.
