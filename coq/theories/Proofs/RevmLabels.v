(** C18 — labelled code: positions of labels, resolution of the symbolic targets, and
    the specification of a fragment of labelled code ("after resolution it is this
    label-free code"). Stage 1 of the proof that [translate] produces [comp_regex]. *)
From Coq Require Import List NArith Bool Arith Lia.
From Acg Require Import Base.Outcome Model.RevmTree Model.Revm Model.RevmVM Model.RevmComp.
Import ListNotations.

(** number of real (non no-op) leaves *)
Fixpoint creal (ls : list leaf) : nat :=
  match ls with
  | [] => 0
  | x :: r => if is_noop x then creal r else S (creal r)
  end.

Definition lab_is (x : leaf) (l : nat) : bool :=
  match snd x with Some l' => Nat.eqb l l' | None => false end.

(** index (in the final program) of the first leaf labelled [l]: the number of real
    leaves before it *)
Fixpoint lab_pos (ls : list leaf) (l : nat) : option nat :=
  match ls with
  | [] => None
  | x :: r =>
      if lab_is x l then Some 0
      else match lab_pos r l with
           | Some k => Some (if is_noop x then k else S k)
           | None => None
           end
  end.

Definition defined (ls : list leaf) (l : nat) : Prop := In (Some l) (map snd ls).

Definition sub (s : nat -> nat) (i : instr) : instr :=
  match i with
  | IJump t => IJump (s t)
  | ISplit a b => ISplit (s a) (s b)
  | other => other
  end.

(** real instructions with resolved targets *)
Fixpoint strip (s : nat -> nat) (ls : list leaf) : list instr :=
  match ls with
  | [] => []
  | (RNoop, _) :: r => strip s r
  | (RI i, _) :: r => sub s i :: strip s r
  end.

Definition agree (s : nat -> nat) (a : nat) (ls : list leaf) : Prop :=
  forall l k, lab_pos ls l = Some k -> s l = a + k.

Lemma creal_app : forall l1 l2, creal (l1 ++ l2) = creal l1 + creal l2.
Proof.
  induction l1 as [|x r IH]; intros l2; cbn [creal app]; [reflexivity|].
  rewrite IH. destruct (is_noop x); reflexivity.
Qed.

Lemma strip_app : forall s l1 l2, strip s (l1 ++ l2) = strip s l1 ++ strip s l2.
Proof.
  intros s. induction l1 as [|[[i|] lab] r IH]; intros l2; cbn [strip app]; [reflexivity| |].
  - rewrite IH. reflexivity.
  - apply IH.
Qed.

Lemma defined_app : forall l1 l2 l, defined (l1 ++ l2) l <-> defined l1 l \/ defined l2 l.
Proof. intros l1 l2 l. unfold defined. rewrite map_app. apply in_app_iff. Qed.

Lemma defined_cons : forall x r l, defined (x :: r) l <-> snd x = Some l \/ defined r l.
Proof. intros x r l. unfold defined. cbn [map In]. tauto. Qed.

Lemma defined_nil : forall l, ~ defined [] l.
Proof. intros l H. destruct H. Qed.

Lemma lab_is_true : forall x l, lab_is x l = true <-> snd x = Some l.
Proof.
  intros [i [l'|]] l; unfold lab_is; cbn [snd].
  - rewrite Nat.eqb_eq. split; [intros ->; reflexivity|intros H; inversion H; reflexivity].
  - split; discriminate.
Qed.

Lemma lab_pos_defined : forall ls l k, lab_pos ls l = Some k -> defined ls l.
Proof.
  induction ls as [|x r IH]; intros l k H; cbn [lab_pos] in H; [discriminate|].
  apply defined_cons. destruct (lab_is x l) eqn:E.
  - left. apply lab_is_true. exact E.
  - right. destruct (lab_pos r l) as [k'|] eqn:E'; [|discriminate]. eapply IH. exact E'.
Qed.

Lemma lab_pos_none : forall ls l, ~ defined ls l -> lab_pos ls l = None.
Proof.
  intros ls l H. destruct (lab_pos ls l) as [k|] eqn:E; [|reflexivity].
  exfalso. apply H. eapply lab_pos_defined. exact E.
Qed.

Lemma defined_lab_pos : forall ls l, defined ls l -> exists k, lab_pos ls l = Some k.
Proof.
  induction ls as [|x r IH]; intros l H; [destruct H|].
  cbn [lab_pos]. destruct (lab_is x l) eqn:E; [exists 0; reflexivity|].
  apply defined_cons in H. destruct H as [H|H].
  - apply lab_is_true in H. congruence.
  - destruct (IH _ H) as [k Hk]. rewrite Hk. eexists. reflexivity.
Qed.

Lemma lab_pos_app : forall l1 l2 l,
  lab_pos (l1 ++ l2) l =
  match lab_pos l1 l with
  | Some k => Some k
  | None => option_map (fun k => creal l1 + k) (lab_pos l2 l)
  end.
Proof.
  induction l1 as [|x r IH]; intros l2 l; cbn [app lab_pos creal].
  - destruct (lab_pos l2 l); reflexivity.
  - destruct (lab_is x l); [reflexivity|]. rewrite IH.
    destruct (lab_pos r l) as [k|]; [reflexivity|].
    destruct (lab_pos l2 l) as [k|]; cbn [option_map]; [|reflexivity].
    destruct (is_noop x); reflexivity.
Qed.

Lemma agree_app_l : forall s a l1 l2, agree s a (l1 ++ l2) -> agree s a l1.
Proof.
  intros s a l1 l2 H l k Hk. apply H. rewrite lab_pos_app, Hk. reflexivity.
Qed.

Lemma agree_app_r : forall s a l1 l2, agree s a (l1 ++ l2) ->
  (forall l, defined l2 l -> ~ defined l1 l) -> agree s (a + creal l1) l2.
Proof.
  intros s a l1 l2 H Hd l k Hk.
  rewrite <- Nat.add_assoc. apply H. rewrite lab_pos_app.
  rewrite (lab_pos_none l1 l); [rewrite Hk; reflexivity|].
  apply Hd. eapply lab_pos_defined. exact Hk.
Qed.

(** * specification of a fragment: [D] over-approximates the labels it defines *)
Definition spec (ls : list leaf) (D : nat -> Prop) (len : nat)
           (code : (nat -> nat) -> nat -> list instr) : Prop :=
  creal ls = len
  /\ (forall l, defined ls l -> D l)
  /\ (forall s a, agree s a ls -> strip s ls = code s a).

Lemma spec_app : forall l1 l2 D1 D2 len1 len2 c1 c2,
  spec l1 D1 len1 c1 -> spec l2 D2 len2 c2 ->
  (forall l, D1 l -> D2 l -> False) ->
  spec (l1 ++ l2) (fun l => D1 l \/ D2 l) (len1 + len2)
       (fun s a => c1 s a ++ c2 s (a + len1)).
Proof.
  intros l1 l2 D1 D2 len1 len2 c1 c2 [A1 [A2 A3]] [B1 [B2 B3]] Hd.
  split; [rewrite creal_app; lia|]. split.
  - intros l Hl. apply defined_app in Hl. destruct Hl as [Hl|Hl]; [left; auto|right; auto].
  - intros s a Hag. rewrite strip_app. f_equal.
    + apply A3. eapply agree_app_l. exact Hag.
    + rewrite <- A1. apply B3. apply agree_app_r; [exact Hag|].
      intros l Hl2 Hl1. exact (Hd l (A2 _ Hl1) (B2 _ Hl2)).
Qed.

Lemma spec_weaken : forall ls (D D' : nat -> Prop) len c,
  spec ls D len c -> (forall l, D l -> D' l) -> spec ls D' len c.
Proof.
  intros ls D D' len c [A1 [A2 A3]] H. split; [exact A1|]. split; [|exact A3].
  intros l Hl. apply H. apply A2. exact Hl.
Qed.

Lemma spec_code : forall ls D len c c',
  spec ls D len c -> (forall s a, agree s a ls -> c s a = c' s a) -> spec ls D len c'.
Proof.
  intros ls D len c c' [A1 [A2 A3]] H. split; [exact A1|]. split; [exact A2|].
  intros s a Hag. rewrite <- H by exact Hag. apply A3. exact Hag.
Qed.

Lemma spec_len : forall ls D len len' c, spec ls D len c -> len = len' -> spec ls D len' c.
Proof. intros; subst; assumption. Qed.

Lemma spec_nil : spec [] (fun _ => False) 0 (fun _ _ => []).
Proof.
  split; [reflexivity|]. split; [intros l H; destruct H|reflexivity].
Qed.

Lemma spec_noop : spec [noop] (fun _ => False) 0 (fun _ _ => []).
Proof.
  split; [reflexivity|]. split; [|reflexivity].
  intros l H. apply defined_cons in H. destruct H as [H|H]; [discriminate|destruct H].
Qed.

Lemma spec_noop_at : forall l, spec [noop_at l] (fun l' => l' = l) 0 (fun _ _ => []).
Proof.
  intros l. split; [reflexivity|]. split; [|reflexivity].
  intros l' H. apply defined_cons in H. destruct H as [H|H]; [|destruct H].
  cbn in H. inversion H. reflexivity.
Qed.

Lemma spec_real : forall i, spec [real i] (fun _ => False) 1 (fun s _ => [sub s i]).
Proof.
  intros i. split; [reflexivity|]. split; [|reflexivity].
  intros l H. apply defined_cons in H. destruct H as [H|H]; [discriminate|destruct H].
Qed.

Lemma spec_real_at : forall i l, spec [(RI i, Some l)] (fun l' => l' = l) 1 (fun s _ => [sub s i]).
Proof.
  intros i l. split; [reflexivity|]. split; [|reflexivity].
  intros l' H. apply defined_cons in H. destruct H as [H|H]; [|destruct H].
  cbn in H. inversion H. reflexivity.
Qed.

(** value of the resolution at a label whose position is known *)
Lemma agree_at : forall s a ls l k, agree s a ls -> lab_pos ls l = Some k -> s l = a + k.
Proof. intros s a ls l k H. apply H. Qed.

Lemma lab_is_noop_at : forall l l', lab_is (noop_at l) l' = Nat.eqb l' l.
Proof. reflexivity. Qed.
