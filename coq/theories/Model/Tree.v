(** The invariant expression language of [aas_core_codegen/parse/tree.py], restricted to
    what invariants use. Syntax only (shared by C07, C08); executable definitions, no proofs.

    Differences to the Python classes (all are flattenings, no information is lost):
    - [MethodCall.member] is always a [Member(instance, name)]; here the call carries the
      instance expression and the method name directly;
    - [FunctionCall.name] is always a [Name]; here the call carries the identifier;
    - [Any]/[All] carry the loop variable identifier and a generator [ForEach iteration] or
      [ForRange start stop];
    - [JoinedStr.values] is a list of literal parts ([JLit]) and formatted values ([JFmt]).
    Floats: a float constant is [CFloat q], denoting the dyadic rational q/8 (the harness only
    generates such floats, in a range where Python's arithmetic on them is exact). *)
From Coq Require Import List NArith ZArith Bool.
From Acg Require Import Base.Str.
Import ListNotations.

Inductive cmpop : Type := Lt | Le | Gt | Ge | Eq | Ne.

Inductive const : Type :=
| CBool (b : bool)
| CInt (z : Z)
| CFloat (q : Z)
| CStr (s : text).

Inductive gen (E : Type) : Type :=
| ForEach (iter : E)
| ForRange (start stop : E).
Arguments ForEach {E} iter.
Arguments ForRange {E} start stop.

Inductive jpart (E : Type) : Type :=
| JLit (s : text)
| JFmt (e : E).
Arguments JLit {E} s.
Arguments JFmt {E} e.

Inductive expr : Type :=
| Member (inst : expr) (name : text)
| Name (id : text)
| Constant (c : const)
| Index (coll idx : expr)
| Comparison (op : cmpop) (l r : expr)
| IsIn (m c : expr)
| IsNone (v : expr)
| IsNotNone (v : expr)
| Not (e : expr)
| And (vs : list expr)
| Or (vs : list expr)
| Implication (a c : expr)
| FunctionCall (fname : text) (args : list expr)
| MethodCall (inst : expr) (mname : text) (args : list expr)
| Add (l r : expr)
| Sub (l r : expr)
| Any (var : text) (g : gen expr) (cond : expr)
| All (var : text) (g : gen expr) (cond : expr)
| JoinedStr (parts : list (jpart expr)).

Definition cmpop_eqb (a b : cmpop) : bool :=
  match a, b with
  | Lt, Lt | Le, Le | Gt, Gt | Ge, Ge | Eq, Eq | Ne, Ne => true
  | _, _ => false
  end.

(** Expressions of a generator / of the formatted parts. *)
Definition gen_exprs {E} (g : gen E) : list E :=
  match g with ForEach i => [i] | ForRange a b => [a; b] end.

Definition jpart_exprs {E} (ps : list (jpart E)) : list E :=
  flat_map (fun p => match p with JLit _ => [] | JFmt e => [e] end) ps.

(** All sub-expressions, the expression itself first (pre-order). The loop variable of
    [Any]/[All] is listed as a [Name] node, as in the code's maps. *)
Fixpoint subs (e : expr) : list expr :=
  e ::
  match e with
  | Member i _ => subs i
  | Name _ | Constant _ => []
  | Index c i => subs c ++ subs i
  | Comparison _ l r | IsIn l r | Implication l r | Add l r | Sub l r => subs l ++ subs r
  | IsNone v | IsNotNone v | Not v => subs v
  | And vs | Or vs => flat_map subs vs
  | FunctionCall f args => Name f :: flat_map subs args
  | MethodCall i _ args => subs i ++ flat_map subs args
  | Any x g c | All x g c =>
      Name x :: match g with
                | ForEach i => subs i
                | ForRange a b => subs a ++ subs b
                end ++ subs c
  | JoinedStr ps =>
      flat_map (fun p => match p with JLit _ => [] | JFmt e => subs e end) ps
  end.

(** Association lists keyed by text. *)
Fixpoint lookup {A} (k : text) (l : list (text * A)) : option A :=
  match l with
  | [] => None
  | (k', a) :: r => if text_eqb k k' then Some a else lookup k r
  end.

(** Structural equality of expressions (executable). *)
Definition const_eqb (a b : const) : bool :=
  match a, b with
  | CBool x, CBool y => Bool.eqb x y
  | CInt x, CInt y => Z.eqb x y
  | CFloat x, CFloat y => Z.eqb x y
  | CStr x, CStr y => text_eqb x y
  | _, _ => false
  end.

Fixpoint expr_eqb (a b : expr) {struct a} : bool :=
  let list_eq :=
    fix go (l r : list expr) : bool :=
      match l, r with
      | [], [] => true
      | x :: l', y :: r' => expr_eqb x y && go l' r'
      | _, _ => false
      end in
  match a, b with
  | Member i n, Member j m => expr_eqb i j && text_eqb n m
  | Name x, Name y => text_eqb x y
  | Constant c, Constant d => const_eqb c d
  | Index a1 b1, Index a2 b2 | IsIn a1 b1, IsIn a2 b2 | Implication a1 b1, Implication a2 b2
  | Add a1 b1, Add a2 b2 | Sub a1 b1, Sub a2 b2 => expr_eqb a1 a2 && expr_eqb b1 b2
  | Comparison o a1 b1, Comparison p a2 b2 => cmpop_eqb o p && expr_eqb a1 a2 && expr_eqb b1 b2
  | IsNone x, IsNone y | IsNotNone x, IsNotNone y | Not x, Not y => expr_eqb x y
  | And l, And r | Or l, Or r => list_eq l r
  | FunctionCall f l, FunctionCall g r => text_eqb f g && list_eq l r
  | MethodCall i m l, MethodCall j n r => expr_eqb i j && text_eqb m n && list_eq l r
  | Any x g c, Any y h d | All x g c, All y h d =>
      text_eqb x y &&
      match g, h with
      | ForEach i, ForEach j => expr_eqb i j
      | ForRange a1 b1, ForRange a2 b2 => expr_eqb a1 a2 && expr_eqb b1 b2
      | _, _ => false
      end && expr_eqb c d
  | JoinedStr l, JoinedStr r =>
      (fix go (l r : list (jpart expr)) : bool :=
         match l, r with
         | [], [] => true
         | JLit s :: l', JLit t :: r' => text_eqb s t && go l' r'
         | JFmt x :: l', JFmt y :: r' => expr_eqb x y && go l' r'
         | _, _ => false
         end) l r
  | _, _ => false
  end.
