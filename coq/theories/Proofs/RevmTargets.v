(** C18 — every jump/split target of the label-free compilation lies inside the program. *)
From Coq Require Import List NArith Bool Arith Lia.
From Acg Require Import Base.Outcome Model.RevmTree Model.Revm Model.RevmVM Model.RevmComp Model.RevmShape
  Proofs.RevmFrag Proofs.RevmCompCorrect Proofs.RevmTop.
Import ListNotations.

Definition ins_bounded (lo hi : nat) (ins : instr) : Prop :=
  match ins with
  | IJump t => lo <= t <= hi
  | ISplit a b => lo <= a <= hi /\ lo <= b <= hi
  | _ => True
  end.
Definition bounded (lo hi : nat) (c : list instr) : Prop :=
  forall ins, In ins c -> ins_bounded lo hi ins.

Lemma bounded_nil : forall lo hi, bounded lo hi [].
Proof. intros lo hi ins H. destruct H. Qed.
Lemma bounded_app : forall lo hi a b, bounded lo hi a -> bounded lo hi b -> bounded lo hi (a ++ b).
Proof. intros lo hi a b Ha Hb ins H. apply in_app_or in H. destruct H; [apply Ha|apply Hb]; assumption. Qed.
Lemma bounded_cons : forall lo hi x c, ins_bounded lo hi x -> bounded lo hi c -> bounded lo hi (x :: c).
Proof. intros lo hi x c Hx Hc ins [H|H]; [subst; exact Hx|apply Hc; exact H]. Qed.
Lemma bounded_weaken : forall lo hi lo' hi' c, bounded lo hi c -> lo' <= lo -> hi <= hi' ->
  bounded lo' hi' c.
Proof.
  intros lo hi lo' hi' c H Hl Hh ins Hin. specialize (H ins Hin).
  destruct ins; cbn in *; try exact I; lia.
Qed.

Section QuantBounded.
  Variable body : nat -> list instr.
  Variable blen : nat.
  Hypothesis Hb : forall a, bounded a (a + blen) (body a).

  Lemma copies_bounded : forall k a, bounded a (a + k * blen) (copies body blen k a).
  Proof.
    induction k as [|k IH]; intros a; cbn [copies]; [apply bounded_nil|].
    apply bounded_app.
    - eapply bounded_weaken; [apply Hb|lia|lia].
    - eapply bounded_weaken; [apply IH|lia|lia].
  Qed.

  Lemma optionals_bounded : forall k final a, final = a + k * S blen ->
    bounded a final (optionals body blen k final a).
  Proof.
    induction k as [|k IH]; intros final a Hf; cbn [optionals]; [apply bounded_nil|].
    apply bounded_cons; [cbn; lia|]. apply bounded_app.
    - eapply bounded_weaken; [apply Hb|lia|lia].
    - eapply bounded_weaken; [apply IH; lia|lia|lia].
  Qed.

  Lemma comp_quant_bounded : forall q a, okq q = true ->
    bounded a (a + qlen blen q) (comp_quant body blen q a).
  Proof.
    intros q a Hok. unfold comp_quant, qlen. unfold okq in Hok.
    destruct (Nat.eqb (q_min q) 1 && match q_max q with Some 1 => true | _ => false end);
      [apply Hb|].
    destruct (q_max q) as [mx|].
    - apply Nat.leb_le in Hok. apply bounded_app.
      + eapply bounded_weaken; [apply copies_bounded|lia|lia].
      + eapply bounded_weaken; [apply optionals_bounded; reflexivity|lia|lia].
    - destruct (q_min q) as [|m].
      + apply bounded_cons; [cbn; lia|]. apply bounded_app.
        * eapply bounded_weaken; [apply Hb|lia|lia].
        * apply bounded_cons; [cbn; lia|apply bounded_nil].
      + apply bounded_app; [eapply bounded_weaken; [apply copies_bounded|lia|lia]|].
        apply bounded_app; [eapply bounded_weaken; [apply Hb|lia|lia]|].
        apply bounded_cons; [cbn; lia|apply bounded_nil].
  Qed.
End QuantBounded.

Lemma comp_bounded :
  (forall v, okv v = true -> forall a, bounded a (a + vlen v) (comp_v v a))
  /\ (forall t, okt t = true -> forall a, bounded a (a + tlen t) (comp_t t a))
  /\ (forall c, okc c = true -> forall a, bounded a (a + clen c) (comp_c c a))
  /\ (forall u, oku u = true -> forall final a, a + ulen u <= final ->
                bounded a final (comp_alts u final a)).
Proof.
  apply tree_mutind.
  - intros s _ a. destruct s; cbn [comp_v]; try apply bounded_nil;
      (apply bounded_cons; [exact I|apply bounded_nil]).
  - intros c _ a. apply bounded_cons; [exact I|apply bounded_nil].
  - intros compl rs _ a. apply bounded_cons; [|apply bounded_nil].
    unfold set_instr. destruct compl; exact I.
  - intros u IH Hok a. cbn [comp_v vlen]. rewrite comp_u_alts. apply IH; [exact Hok|lia].
  - intros v IHv q Hok a. destruct q as [q|]; cbn [comp_t tlen okt] in *.
    + apply andb_prop in Hok. destruct Hok as [Hv Hq].
      apply comp_quant_bounded; [|exact Hq]. intros a'. apply IHv. exact Hv.
    + apply IHv. exact Hok.
  - intros _ a. apply bounded_nil.
  - intros t IHt c IHc Hok a. cbn [okc] in Hok. apply andb_prop in Hok. destruct Hok as [Ht Hc].
    cbn [comp_c clen]. apply bounded_app.
    + eapply bounded_weaken; [apply IHt; exact Ht|lia|lia].
    + eapply bounded_weaken; [apply IHc; exact Hc|lia|lia].
  - intros _ final a _. apply bounded_nil.
  - intros c IHc u IHu Hok final a Hf. cbn [oku] in Hok. apply andb_prop in Hok.
    destruct Hok as [Hc Hu]. destruct u as [|c2 u2].
    + cbn [comp_alts ulen] in *. eapply bounded_weaken; [apply IHc; exact Hc|lia|lia].
    + change (ulen (UCons c (UCons c2 u2))) with (S (clen c) + S (ulen (UCons c2 u2))) in Hf.
      change (comp_alts (UCons c (UCons c2 u2)) final a)
        with (ISplit (S a) (a + S (S (clen c))) :: comp_c c (S a)
                ++ IJump final :: comp_alts (UCons c2 u2) final (a + S (S (clen c)))).
      apply bounded_cons; [cbn; lia|]. apply bounded_app.
      * eapply bounded_weaken; [apply IHc; exact Hc|lia|lia].
      * apply bounded_cons; [cbn; lia|].
        eapply bounded_weaken; [apply IHu; [exact Hu|]|lia|lia]. lia.
Qed.

Lemma comp_terms_bounded : forall ts a, forallb okt ts = true ->
  bounded a (a + tslen ts) (comp_terms ts a).
Proof.
  induction ts as [|t r IH]; intros a Hok; cbn [comp_terms tslen]; [apply bounded_nil|].
  cbn [forallb] in Hok. apply andb_prop in Hok. destruct Hok as [Ht Hr]. apply bounded_app.
  - eapply bounded_weaken; [apply (proj1 (proj2 comp_bounded)); exact Ht|lia|lia].
  - eapply bounded_weaken; [apply IH; exact Hr|lia|lia].
Qed.

Lemma bounded_targets_ok : forall c n, bounded 0 n c -> n < length c ->
  targets_ok c = true.
Proof.
  intros c n Hb Hn. unfold targets_ok. apply forallb_forall. intros ins Hin.
  specialize (Hb ins Hin). destruct ins; cbn in Hb; try reflexivity.
  - apply Nat.ltb_lt. lia.
  - apply andb_true_intro. split; apply Nat.ltb_lt; lia.
Qed.

(** every target of the label-free program of an anchored pattern is in range *)
Theorem comp_regex_targets_ok : forall c mid,
  terms_of c = t_start :: mid ++ [t_end] -> forallb okt mid = true ->
  targets_ok (comp_regex (UCons c UNil)) = true.
Proof.
  intros c mid Hts Hok. unfold comp_regex.
  assert (Hbt : forallb okt (body_terms (UCons c UNil)) = true).
  { destruct (list_last_cases _ mid) as [Hnil|[mid' [x Hmid]]].
    - subst mid. cbn [app] in Hts. rewrite (body_terms_nil c Hts). reflexivity.
    - subst mid. rewrite (body_terms_snoc c mid' x Hts).
      rewrite forallb_app in Hok. apply andb_prop in Hok. destruct Hok as [H1 H2].
      destruct (is_dot_star x); [exact H1|]. rewrite !forallb_app, H1, H2. reflexivity. }
  apply bounded_targets_ok with (n := tslen (body_terms (UCons c UNil))).
  - apply bounded_app.
    + apply (comp_terms_bounded _ 0 Hbt).
    + apply bounded_cons; [exact I|apply bounded_nil].
  - rewrite app_length, comp_terms_length. cbn. lia.
Qed.
