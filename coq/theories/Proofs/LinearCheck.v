(** Soundness of the validator [Model/LinearCheck.v]: if [sim_check M1 M2 c1 c2 = true]
    then every run of [M1] from [c1] is matched by a run of [M2] from [c2] emitting the
    same events (for all oracles), and halting is preserved. *)
From Coq Require Import List NArith Bool Arith Lia.
From Acg Require Import Base.Outcome Base.Str Model.Flow Model.Linear Model.LinearCheck
  Proofs.LinearSem.
Import ListNotations.
Open Scope nat_scope.

Lemma text_eqb_eq : forall a b, text_eqb a b = true -> a = b.
Proof.
  induction a as [|x a IH]; intros [|y b] H; cbn in H; try discriminate; [reflexivity|].
  apply andb_prop in H. destruct H as [H1 H2]. apply N.eqb_eq in H1. subst.
  f_equal. apply IH. exact H2.
Qed.

Lemma nth_error_skipn' : forall {A} a (l : list A) i, nth_error (skipn a l) i = nth_error l (a + i).
Proof.
  induction a as [|a IH]; intros l i; [reflexivity|].
  destruct l as [|x l]; cbn [skipn plus nth_error]; [destruct i; reflexivity|apply IH].
Qed.

Lemma nth_error_firstn' : forall {A} n (l : list A) i, i < n -> nth_error (firstn n l) i = nth_error l i.
Proof.
  induction n as [|n IH]; intros l i H; [lia|].
  destruct l as [|x l]; [destruct i; reflexivity|].
  destruct i as [|i]; cbn; [reflexivity|apply IH; lia].
Qed.

Lemma is_noop_kind : forall s, is_noop s = true -> s_kind s = KNoop.
Proof. intros s. unfold is_noop. destruct (s_kind s); try discriminate. reflexivity. Qed.

Lemma all_noops_sound : forall code a b, all_noops code a b = true ->
  forall j, a <= j < b -> exists s, nth_error code j = Some s /\ s_kind s = KNoop.
Proof.
  intros code a b H j Hj. unfold all_noops in H. apply andb_prop in H.
  destruct H as [Hall Hb]. apply Nat.leb_le in Hb.
  destruct (nth_error code j) as [s|] eqn:E.
  - exists s. split; [reflexivity|]. apply is_noop_kind.
    rewrite forallb_forall in Hall. apply Hall.
    apply (nth_error_In _ (j - a)).
    rewrite nth_error_firstn' by lia. rewrite nth_error_skipn'.
    replace (a + (j - a)) with j by lia. exact E.
  - apply nth_error_None in E. lia.
Qed.

Section Sound.
  Variables M1 M2 : machine.
  Variable ks : list bool.
  Let phi := phi_of ks.

  Lemma pos_ok_sound : forall p1 q2, pos_ok M1 M2 ks p1 q2 = true ->
    p1 <= length (m_code M1) /\ q2 <= phi p1 /\ noops2 M2 q2 (phi p1).
  Proof.
    intros p1 q2 H. unfold pos_ok in H. apply andb_prop in H. destruct H as [H H3].
    apply andb_prop in H. destruct H as [H1 H2].
    apply Nat.leb_le in H1. apply Nat.leb_le in H2.
    repeat split; try assumption.
    unfold noops2. apply all_noops_sound. exact H3.
  Qed.

  Lemma tgt_ok_sound : forall t1 t2, tgt_ok M1 M2 ks t1 t2 = true -> target_rel M1 M2 phi t1 t2.
  Proof.
    intros t1 t2 H. unfold tgt_ok in H.
    destruct (m_resolve M1 t1) as [q1|] eqn:E1; [|discriminate].
    destruct (m_resolve M2 t2) as [q2|] eqn:E2; [|discriminate].
    destruct (pos_ok_sound _ _ H) as [A [B C]].
    exists q1, q2. auto.
  Qed.

  Lemma otgt_ok_sound : forall a b, otgt_ok M1 M2 ks a b = true -> otarget_rel M1 M2 phi a b.
  Proof.
    intros [x|] [y|] H; cbn in *; try discriminate; [apply tgt_ok_sound; exact H|exact I].
  Qed.

  Lemma conf_ok_sound : forall c1 c2, conf_ok M1 M2 ks c1 c2 = true -> conf_rel M1 M2 phi c1 c2.
  Proof.
    intros [p1|t1| |] [p2|t2| |] H; cbn in *; try discriminate.
    - apply pos_ok_sound. exact H.
    - destruct (m_resolve M2 t2) as [q2|] eqn:E; [|discriminate].
      exists q2. split; [reflexivity|]. apply pos_ok_sound. exact H.
    - apply tgt_ok_sound. exact H.
    - exact I.
  Qed.

  Lemma kind_ok_sound : forall k1 k2, kind_ok M1 M2 ks k1 k2 = true -> kind_rel M1 M2 phi k1 k2.
  Proof.
    intros [a|c a b|t| |] [a'|c' a' b'|t'| |] H; cbn in *; try discriminate.
    - apply text_eqb_eq. exact H.
    - apply andb_prop in H. destruct H as [H Hb]. apply andb_prop in H. destruct H as [Hc Ha].
      repeat split; [apply text_eqb_eq; exact Hc|apply otgt_ok_sound; exact Ha
                    |apply otgt_ok_sound; exact Hb].
    - apply tgt_ok_sound. exact H.
    - exact I.
    - exact I.
  Qed.

  Lemma phi_of_0 : forall k, phi_of k 0 = 0.
  Proof. intros [|? ?]; reflexivity. Qed.

  Lemma is_yield_kind : forall s, s_kind s = KYield -> is_yield s = true.
  Proof. intros s H. unfold is_yield. rewrite H. reflexivity. Qed.

  Lemma check_pairs_sound : forall c1 k c2 p q,
    check_pairs M1 M2 ks c1 k c2 p q = true ->
    (forall j s1, nth_error c1 j = Some s1 ->
       (s_kind s1 = KNoop /\ phi_of k (S j) = phi_of k j)
       \/ (exists s2, nth_error c2 (phi_of k j) = Some s2
                      /\ kind_rel M1 M2 phi (s_kind s1) (s_kind s2)
                      /\ phi_of k (S j) = S (phi_of k j)
                      /\ (s_kind s1 = KYield ->
                          conf_rel M1 M2 phi (m_yield M1 (p + j)) (m_yield M2 (q + phi_of k j)))))
    /\ phi_of k (length c1) = length c2.
  Proof.
    induction c1 as [|s1 r1 IH]; intros k c2 p q H.
    - destruct k as [|? ?]; cbn in H; [|discriminate].
      destruct c2; [|discriminate]. split; [|reflexivity].
      intros j s1 Hj. destruct j; discriminate.
    - destruct k as [|b kr]; cbn [check_pairs] in H; [discriminate|].
      destruct b.
      + destruct c2 as [|s2 r2]; [discriminate|].
        apply andb_prop in H. destruct H as [H Hrest]. apply andb_prop in H.
        destruct H as [Hk Hy].
        destruct (IH kr r2 (S p) (S q) Hrest) as [IH1 IH2].
        split.
        * intros j s Hj. destruct j as [|j].
          -- cbn in Hj. inversion Hj; subst s. right. exists s2.
             cbn [phi_of]. rewrite phi_of_0. cbn [nth_error].
             repeat split; [apply kind_ok_sound; exact Hk|].
             intros HY. rewrite (is_yield_kind _ HY) in Hy.
             rewrite !Nat.add_0_r. apply conf_ok_sound. exact Hy.
          -- cbn [nth_error] in Hj. destruct (IH1 j s Hj) as [[A B]|[s2' [A [B [C D]]]]].
             ++ left. split; [exact A|]. cbn [phi_of]. rewrite B. reflexivity.
             ++ right. exists s2'. cbn [phi_of]. cbn [plus nth_error].
                repeat split; [exact A|exact B|rewrite C; reflexivity|].
                intros HY. specialize (D HY).
                replace (p + S j) with (S p + j) by lia.
                replace (q + S (phi_of kr j)) with (S q + phi_of kr j) by lia. exact D.
        * cbn [length phi_of]. rewrite IH2. reflexivity.
      + apply andb_prop in H. destruct H as [Hn Hrest].
        destruct (IH kr c2 (S p) q Hrest) as [IH1 IH2].
        split.
        * intros j s Hj. destruct j as [|j].
          -- cbn in Hj. inversion Hj; subst s. left. split; [apply is_noop_kind; exact Hn|].
             cbn [phi_of]. rewrite !phi_of_0. reflexivity.
          -- cbn [nth_error] in Hj. destruct (IH1 j s Hj) as [[A B]|[s2' [A [B [C D]]]]].
             ++ left. split; [exact A|]. cbn [phi_of]. rewrite B. reflexivity.
             ++ right. exists s2'. cbn [phi_of]. cbn [plus].
                repeat split; [exact A|exact B|exact C|].
                intros HY. specialize (D HY).
                replace (p + S j) with (S p + j) by lia. exact D.
        * cbn [length phi_of]. rewrite IH2. reflexivity.
  Qed.
End Sound.

Theorem sim_check_sound : forall M1 M2 c1 c2, sim_check M1 M2 c1 c2 = true ->
  forall orc n1 i t c1' i', lin_run M1 orc n1 c1 i = (t, c1', i') ->
  exists n2 c2', lin_run M2 orc n2 c2 i = (t, c2', i') /\ (c1' = LHalt -> c2' = LHalt).
Proof.
  intros M1 M2 c1 c2 H orc n1 i t c1' i' Hrun. unfold sim_check in H.
  destruct (align (m_code M1) (m_code M2)) as [ks|]; [|discriminate].
  apply andb_prop in H. destruct H as [Hp Hc].
  destruct (check_pairs_sound M1 M2 ks _ _ _ 0 0 Hp) as [Hstep Hend].
  assert (Hstep' : forall p s1, nth_error (m_code M1) p = Some s1 ->
    (s_kind s1 = KNoop /\ phi_of ks (S p) = phi_of ks p)
    \/ (exists s2, nth_error (m_code M2) (phi_of ks p) = Some s2
                   /\ kind_rel M1 M2 (phi_of ks) (s_kind s1) (s_kind s2)
                   /\ phi_of ks (S p) = S (phi_of ks p)
                   /\ (s_kind s1 = KYield ->
                       conf_rel M1 M2 (phi_of ks) (m_yield M1 p) (m_yield M2 (phi_of ks p))))).
  { intros p s1 Hs. exact (Hstep p s1 Hs). }
  destruct (sim_run M1 M2 (phi_of ks) Hstep' Hend orc n1 c1 c2 i t c1' i'
                    (conf_ok_sound M1 M2 ks _ _ Hc) Hrun) as [n2 [c2' [H2 HR]]].
  exists n2, c2'. split; [exact H2|].
  intros ->. apply (conf_rel_halt M1 M2 (phi_of ks)). exact HR.
Qed.
