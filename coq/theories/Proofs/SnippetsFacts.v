(** Proofs about [Model/Snippets.v] (C25). *)
From Coq Require Import List NArith ZArith Bool Lia.
From Acg Require Import Base.Str Base.Outcome Model.Snippets.
Import ListNotations.
Open Scope N_scope.

(* ---------------------------------------------------------------------------- *)
(** * Sorting is a rearrangement *)

Lemma insert_in e x l : In x (insert_entry e l) <-> x = e \/ In x l.
Proof.
  induction l as [|y r IH]; cbn [insert_entry].
  - cbn. intuition.
  - destruct (path_leb (e_path e) (e_path y)); cbn [In]; [intuition|].
    rewrite IH. intuition.
Qed.

Lemma sort_in x l : In x (sort_entries l) <-> In x l.
Proof.
  induction l as [|y r IH]; cbn [sort_entries]; [reflexivity|].
  rewrite insert_in, IH. cbn. intuition.
Qed.

Lemma insert_length e l : length (insert_entry e l) = S (length l).
Proof.
  induction l as [|y r IH]; cbn [insert_entry]; [reflexivity|].
  destruct (path_leb _ _); cbn [length]; [reflexivity|]. now rewrite IH.
Qed.

Lemma sort_length l : length (sort_entries l) = length l.
Proof.
  induction l as [|y r IH]; cbn [sort_entries]; [reflexivity|].
  rewrite insert_length. now rewrite IH.
Qed.

(* ---------------------------------------------------------------------------- *)
Section Facts.
  Variable ws : list N.
  Variable decode : list N -> option text.

  Notation strip := (strip ws).
  Notation read_loop := (read_loop ws decode).
  Notation read_sorted := (read_sorted ws decode).
  Notation read_dir := (read_dir ws decode).

  (** Functional reading of the loop: what one entry contributes. *)
  Definition entry_pairs (e : entry) : list (text * text) :=
    if visible_file e && valid_key (key_of (e_path e)) then
      match decode (e_bytes e) with
      | Some t => [(key_of (e_path e), strip t)]
      | None => []
      end
    else [].

  Definition entry_errors (e : entry) : list snippet_error :=
    if visible_file e then
      if negb (valid_key (key_of (e_path e))) then [KeyErr (e_path e)]
      else match decode (e_bytes e) with
           | Some _ => []
           | None => [DecodeErr (e_path e)]
           end
    else [].

  Definition mapping_of (l : list entry) := flat_map entry_pairs l.
  Definition errors_of (l : list entry) := flat_map entry_errors l.

  Lemma read_loop_eq l : read_loop l = (mapping_of l, errors_of l).
  Proof.
    induction l as [|e r IH]; [reflexivity|].
    cbn [Snippets.read_loop mapping_of errors_of flat_map]. rewrite IH.
    unfold entry_pairs, entry_errors, visible_file.
    destruct (hidden (e_path e)); cbn [negb andb app]; [reflexivity|].
    destruct (e_dir e); cbn [negb andb app]; [reflexivity|].
    destruct (valid_key (key_of (e_path e))); cbn [negb andb app]; [|reflexivity].
    destruct (decode (e_bytes e)); reflexivity.
  Qed.

  Definition entry_good (e : entry) : Prop :=
    valid_key (key_of (e_path e)) = true /\ exists t, decode (e_bytes e) = Some t.

  Lemma errors_of_nil l :
    errors_of l = [] <-> (forall e, In e l -> visible_file e = true -> entry_good e).
  Proof.
    induction l as [|e r IH]; cbn [errors_of flat_map].
    - split; [intros _ e []|reflexivity].
    - split.
      + intros H. apply app_eq_nil in H as [He Hr]. intros x [<-|Hx] Hv.
        * unfold entry_errors in He. rewrite Hv in He. unfold entry_good.
          destruct (valid_key (key_of (e_path e))); cbn [negb] in He; [|discriminate].
          destruct (decode (e_bytes e)) as [t|]; [|discriminate]. split; [reflexivity|now exists t].
        * apply IH; assumption.
      + intros H. assert (He : entry_errors e = []).
        { unfold entry_errors. destruct (visible_file e) eqn:Hv; [|reflexivity].
          destruct (H e (or_introl eq_refl) Hv) as [Hk [t Ht]]. rewrite Hk, Ht. reflexivity. }
        rewrite He. cbn [app]. apply IH. intros x Hx. apply H. now right.
  Qed.

  (** [read_dir_spec]: the run succeeds exactly when every non-hidden regular file has
      a valid key and decodes, and then the mapping is exactly the one given by the
      files (in sorted order). *)
  Lemma read_dir_spec l m :
    read_dir l = Ok m <->
    (forall e, In e l -> visible_file e = true -> entry_good e)
    /\ m = mapping_of (sort_entries l).
  Proof.
    unfold Snippets.read_dir, Snippets.read_sorted. rewrite read_loop_eq.
    split.
    - destruct (errors_of (sort_entries l)) eqn:E; [|discriminate].
      intros H. injection H as <-. split; [|reflexivity].
      intros e He. apply (proj1 (errors_of_nil _) E). now apply sort_in.
    - intros [H ->].
      assert (E : errors_of (sort_entries l) = []).
      { apply errors_of_nil. intros e He. apply H. now apply sort_in. }
      rewrite E. reflexivity.
  Qed.

  (** Content of the mapping: key = relative POSIX path, value = stripped content. *)
  Lemma mapping_in l k v :
    In (k, v) (mapping_of l) <->
    exists e t, In e l /\ visible_file e = true /\ valid_key (key_of (e_path e)) = true
                /\ decode (e_bytes e) = Some t /\ k = key_of (e_path e) /\ v = strip t.
  Proof.
    unfold mapping_of. rewrite in_flat_map. split.
    - intros [e [He Hin]]. unfold entry_pairs in Hin.
      destruct (visible_file e) eqn:Hv; cbn [andb] in Hin; [|destruct Hin].
      destruct (valid_key (key_of (e_path e))) eqn:Hk; [|destruct Hin].
      destruct (decode (e_bytes e)) as [t|] eqn:Hd; [|destruct Hin].
      destruct Hin as [Hin|[]]. injection Hin as <- <-.
      exists e, t. repeat split; assumption.
    - intros [e [t [He [Hv [Hk [Hd [-> ->]]]]]]]. exists e. split; [exact He|].
      unfold entry_pairs. rewrite Hv, Hk, Hd. now left.
  Qed.

  Lemma mapping_in_sorted l k v :
    In (k, v) (mapping_of (sort_entries l)) <->
    exists e t, In e l /\ visible_file e = true /\ valid_key (key_of (e_path e)) = true
                /\ decode (e_bytes e) = Some t /\ k = key_of (e_path e) /\ v = strip t.
  Proof.
    rewrite mapping_in. split; intros [e [t [He H]]]; exists e, t; (split; [|exact H]);
      now apply sort_in.
  Qed.

  (** Hidden entries and directories contribute nothing, whatever they contain. *)
  Lemma hidden_ignored e :
    visible_file e = false -> entry_pairs e = [] /\ entry_errors e = [].
  Proof. intros H. unfold entry_pairs, entry_errors. rewrite H. split; reflexivity. Qed.

  Lemma errors_in l x :
    In x (errors_of l) <->
    exists e, In e l /\ visible_file e = true /\
      ((x = KeyErr (e_path e) /\ valid_key (key_of (e_path e)) = false)
       \/ (x = DecodeErr (e_path e) /\ valid_key (key_of (e_path e)) = true
           /\ decode (e_bytes e) = None)).
  Proof.
    unfold errors_of. rewrite in_flat_map. split.
    - intros [e [He Hin]]. exists e. split; [exact He|]. unfold entry_errors in Hin.
      destruct (visible_file e) eqn:Hv; [|destruct Hin]. split; [reflexivity|].
      destruct (valid_key (key_of (e_path e))) eqn:Hk; cbn [negb] in Hin.
      + destruct (decode (e_bytes e)) eqn:Hd; [destruct Hin|].
        destruct Hin as [<-|[]]. right. repeat split; assumption.
      + destruct Hin as [<-|[]]. left. split; reflexivity.
    - intros [e [He [Hv H]]]. exists e. split; [exact He|]. unfold entry_errors. rewrite Hv.
      destruct H as [[-> Hk]|[-> [Hk Hd]]]; rewrite Hk; cbn [negb]; [now left|].
      rewrite Hd. now left.
  Qed.

  (** [read_dir_err_names_file]: a failing run reports a non-empty list of errors, each
      naming a non-hidden regular file with a bad key or undecodable content, and every
      such file is named. *)
  Lemma read_dir_err_names_file l errs :
    read_dir l = Err errs ->
    errs <> [] /\
    forall x, In x errs <->
      exists e, In e l /\ visible_file e = true /\
        ((x = KeyErr (e_path e) /\ valid_key (key_of (e_path e)) = false)
         \/ (x = DecodeErr (e_path e) /\ valid_key (key_of (e_path e)) = true
             /\ decode (e_bytes e) = None)).
  Proof.
    unfold Snippets.read_dir, Snippets.read_sorted. rewrite read_loop_eq.
    destruct (errors_of (sort_entries l)) as [|x0 r] eqn:E; [discriminate|].
    intros H. injection H as <-. split; [discriminate|].
    intros x. rewrite <- E. rewrite errors_in.
    split; intros [e [He H]]; exists e; (split; [|exact H]); now apply sort_in.
  Qed.

  (** Never an exception (for the listings of the model: regular files and
      directories that can be read). *)
  Lemma read_dir_total l : is_crash (read_dir l) = false.
  Proof.
    unfold Snippets.read_dir, Snippets.read_sorted. rewrite read_loop_eq.
    destruct (errors_of (sort_entries l)); reflexivity.
  Qed.

  (* -------------------------------------------------------------------------- *)
  (** * strip *)

  Lemma lstrip_spec t : exists pre, t = pre ++ lstrip ws t
                                 /\ forallb (is_ws ws) pre = true
                                 /\ match lstrip ws t with [] => True | c :: _ => is_ws ws c = false end.
  Proof.
    induction t as [|c r [pre [E [Hp Hh]]]].
    - exists []. repeat split.
    - cbn [lstrip]. destruct (is_ws ws c) eqn:Hc.
      + exists (c :: pre). cbn [app forallb]. rewrite Hc, Hp. repeat split; [now f_equal|exact Hh].
      + exists []. repeat split. exact Hc.
  Qed.

  (** The value is the content without its leading and trailing white-space: nothing
      else is removed and no white-space remains at either end. *)
  Lemma strip_spec t : exists pre post,
    t = pre ++ strip t ++ post
    /\ forallb (is_ws ws) pre = true /\ forallb (is_ws ws) post = true
    /\ match strip t with [] => True | c :: _ => is_ws ws c = false end
    /\ match rev (strip t) with [] => True | c :: _ => is_ws ws c = false end.
  Proof.
    unfold Snippets.strip.
    destruct (lstrip_spec t) as [pre [E1 [Hpre Hh1]]].
    destruct (lstrip_spec (rev (lstrip ws t))) as [post' [E2 [Hpost Hh2]]].
    set (core := lstrip ws (rev (lstrip ws t))) in *.
    exists pre, (rev post').
    assert (El : lstrip ws t = rev core ++ rev post').
    { rewrite <- rev_app_distr, <- E2, rev_involutive. reflexivity. }
    split; [rewrite E1 at 1; now rewrite El|].
    split; [exact Hpre|].
    split; [rewrite forallb_forall in *; intros x Hx; apply Hpost; now apply in_rev|].
    split; [|rewrite rev_involutive; exact Hh2].
    (* the head of [rev core] is the head of [lstrip t] unless core is empty *)
    destruct (rev core) as [|c rc] eqn:Erc; [exact I|].
    rewrite El in Hh1. cbn [app] in Hh1. exact Hh1.
  Qed.
End Facts.

(* ---------------------------------------------------------------------------- *)
(** * The key regex as a language *)

(** Denotation of the pattern, written as it reads: a segment is a head character
    followed by tail characters; a key is one or more segments joined by slashes. *)
Definition segment_lang (s : text) : Prop :=
  exists c r, s = c :: r /\ is_head c = true /\ Forall (fun x => is_tail x = true) r.
Definition key_lang (k : text) : Prop :=
  exists segs, segs <> [] /\ Forall segment_lang segs /\ k = join [SLASH] segs.

Lemma valid_segment_spec s : valid_segment s = true <-> segment_lang s.
Proof.
  unfold segment_lang. destruct s as [|c r]; cbn [valid_segment].
  - split; [discriminate|]. intros [c [r [E _]]]. discriminate.
  - rewrite andb_true_iff, forallb_forall, <- Forall_forall. split.
    + intros [Hc Hr]. exists c, r. repeat split; assumption.
    + intros [c' [r' [E [Hc Hr]]]]. injection E as -> ->. split; assumption.
Qed.

Lemma tail_not_slash x : is_tail x = true -> x <> SLASH.
Proof. intros H ->. vm_compute in H. discriminate. Qed.

Lemma segment_no_slash s : segment_lang s -> ~ In SLASH s.
Proof.
  intros [c [r [-> [Hc Hr]]]] [E|Hin].
  - subst c. vm_compute in Hc. discriminate.
  - rewrite Forall_forall in Hr. apply (tail_not_slash _ (Hr _ Hin)). reflexivity.
Qed.

Lemma split_on_no_sep_id c t : ~ In c t -> split_on c t = [t].
Proof.
  induction t as [|x r IH]; intros H; [reflexivity|].
  cbn [split_on]. destruct (N.eqb_spec x c) as [E|_]; [exfalso; apply H; now left|].
  rewrite IH; [reflexivity|]. intros Hin. apply H. now right.
Qed.

Lemma split_on_app_sep c a t : ~ In c a -> split_on c (a ++ c :: t) = a :: split_on c t.
Proof.
  induction a as [|x a IH]; intros H.
  - cbn [app split_on]. now rewrite N.eqb_refl.
  - cbn [app split_on]. destruct (N.eqb_spec x c) as [E|_]; [exfalso; apply H; now left|].
    rewrite IH; [reflexivity|]. intros Hin. apply H. now right.
Qed.

Lemma split_join segs :
  segs <> [] -> Forall (fun s => ~ In SLASH s) segs -> split_on SLASH (join [SLASH] segs) = segs.
Proof.
  induction segs as [|s r IH]; intros Hne Hall; [contradiction|].
  inversion Hall as [|? ? Hs Hr]; subst.
  destruct r as [|s2 r2].
  - cbn [join]. now apply split_on_no_sep_id.
  - change (join [SLASH] (s :: s2 :: r2)) with (s ++ [SLASH] ++ join [SLASH] (s2 :: r2)).
    cbn [app]. rewrite split_on_app_sep by exact Hs. f_equal. apply IH; [discriminate|exact Hr].
Qed.

Lemma split_on_nonnil c t : split_on c t <> [].
Proof.
  destruct t as [|x r]; cbn; [discriminate|].
  destruct (N.eqb x c); [discriminate|]. destruct (split_on c r); discriminate.
Qed.

Lemma join_cons2 sep a b r : join sep (a :: b :: r) = (a ++ sep ++ join sep (b :: r))%list.
Proof. reflexivity. Qed.

Lemma join_split_id c t : join [c] (split_on c t) = t.
Proof.
  induction t as [|x r IH]; [reflexivity|].
  cbn [split_on]. destruct (N.eqb_spec x c) as [->|Hne].
  - pose proof (split_on_nonnil c r) as Hn.
    destruct (split_on c r) as [|h tl] eqn:E; [contradiction|].
    rewrite join_cons2. cbn. f_equal. exact IH.
  - pose proof (split_on_nonnil c r) as Hn.
    destruct (split_on c r) as [|h tl] eqn:E; [contradiction|].
    destruct tl as [|h2 tl2].
    + cbn in *. now rewrite IH.
    + rewrite join_cons2 in *. cbn. f_equal. exact IH.
Qed.

(** [key_regex_spec]: the boolean key test decides the language of the pattern. *)
Lemma key_regex_spec k : valid_key k = true <-> key_lang k.
Proof.
  unfold valid_key, key_lang. split.
  - intros H. exists (split_on SLASH k). split; [apply split_on_nonnil|]. split.
    + rewrite Forall_forall. rewrite forallb_forall in H. intros s Hs.
      apply valid_segment_spec. now apply H.
    + symmetry. apply join_split_id.
  - intros [segs [Hne [Hall ->]]]. rewrite split_join.
    + rewrite forallb_forall. rewrite Forall_forall in Hall. intros s Hs.
      apply valid_segment_spec. now apply Hall.
    + exact Hne.
    + rewrite Forall_forall in *. intros s Hs. apply segment_no_slash. now apply Hall.
Qed.

(** The key of a path whose components are all valid segments is valid, and a path
    with a component that is not a valid segment (blank, dash, non-ASCII, leading
    digit ...) has an invalid key — for components without a slash. *)
Lemma key_of_valid p :
  p <> [] -> Forall (fun c => ~ In SLASH c) p ->
  valid_key (key_of p) = forallb valid_segment p.
Proof. intros Hne Hall. unfold valid_key, key_of. now rewrite split_join. Qed.
