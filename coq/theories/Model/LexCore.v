(** C19 — shared parts of the string-literal lexers: a lexer is a one-pass scanner
    [step : state -> char -> option (state * emitted values)] over the source text of
    the literal ([None] = lexical error or a construct the model does not cover; the
    models are conservative: whenever a lexer returns [Some v] the language denotes
    [v]). Executable definitions only. *)
From Coq Require Import List NArith Bool.
From Acg Require Import Base.Str.
Import ListNotations.
Open Scope N_scope.

Section Run.
  Variable St : Type.
  Variable step : St -> N -> option (St * text).

  Fixpoint run (st : St) (inp : text) : option (St * text) :=
    match inp with
    | [] => Some (st, [])
    | c :: r =>
        match step st c with
        | None => None
        | Some (st', out) =>
            match run st' r with
            | None => None
            | Some (st'', out') => Some (st'', out ++ out')
            end
        end
    end.
End Run.
Arguments run {St} step st inp.

Definition hex_val (c : N) : option N :=
  if (48 <=? c) && (c <=? 57) then Some (c - 48)
  else if (97 <=? c) && (c <=? 102) then Some (c - 87)
  else if (65 <=? c) && (c <=? 70) then Some (c - 55)
  else None.

Definition oct_val (c : N) : option N :=
  if (48 <=? c) && (c <=? 55) then Some (c - 48) else None.

Definition is_digit (c : N) : bool := (48 <=? c) && (c <=? 57).

Definition surrogate (c : N) : bool := (55296 <=? c) && (c <=? 57343).

(** A character that can occur in a UTF-8 encoded source file. *)
Definition source_char (c : N) : bool := (c <=? 1114111) && negb (surrogate c).

(** UTF-16 code units of a code point / of a text (lone surrogates are kept). *)
Definition utf16_cp (c : N) : text :=
  if c <? 65536 then [c]
  else [55296 + (c - 65536) / 1024; 56320 + (c - 65536) mod 1024].

Definition utf16 (s : text) : text := flat_map utf16_cp s.

(** Prefix matcher used for fixed keywords. *)
Fixpoint strip_prefix (p t : text) : option text :=
  match p, t with
  | [], _ => Some t
  | x :: p', y :: t' => if x =? y then strip_prefix p' t' else None
  | _ :: _, [] => None
  end.
