"""C23 — Model caching is opt-in and transparent (run.load_model, main.Parameters, main.main,
main.execute)."""
from __future__ import annotations

import concurrent.futures
import hashlib
import os
import re
from typing import Any, Dict, List, Tuple

from harness import lib
from harness.gen import cache as gen
from harness.lib import coq_bool, coq_list, coq_n, coq_pair, coq_text

META = {
    "title": "Model caching is opt-in and transparent",
    "design_ref": "§4 C23",
    "level_text": (
        "Coq theorems over a Gallina model of run.load_model on a file-system map, for all front "
        "ends / hash functions / picklers (Section variables with stated hypotheses): without the "
        "option nothing is touched; over every history of runs and edits each run returns the "
        "uncached result and the cache invariant is kept; errors are never cached; an entry is "
        "only reused for the identical text. The theorems are composed with the data flow of the "
        "flag main.main -> Parameters.__init__ -> execute -> load_model, re-translated from the "
        "source on every run (plumb : bool -> bool, proved the identity). The model is tied to the "
        "real load_model by histories of real runs under an audit hook (events, results, directory "
        "listings compared inside Coq), and the property is run directly on full command-line runs "
        "(cached vs uncached output trees, stdout, stderr, exit status; writes outside the output "
        "directory)."
    ),
    "level_note": (
        "Trusted/corresponded, not proved: pickle fidelity of the symbol table and asttokens objects "
        "(every cache entry is unpickled and compared with the fresh objects through a canonical "
        "fingerprint that resolves the derived *_id_set attributes); sha256 collision freedom; the "
        "hand-written model agrees with load_model beyond the sampled histories."
    ),
    "technique": "Coq proof (invariant over histories) + translated flag plumbing + in-Coq correspondence of audited real runs",
}
GEN = ["GenCacheFlag"]
MODEL = ["Model/Cache", "Gen/GenCacheFlag"]
TRUSTED = [
    "Model/Cache.v is a hand-written model of run.load_model (correspondence-checked on audited runs)",
    "harness/translate/cacheflag.py (flag data flow) via Python's ast",
    "sys.addaudithook reports every open/mkdir/rename/remove of the interpreter",
    "hashlib.sha256 has no collision on the texts used; pickle.load(pickle.dump(x)) fidelity is "
    "checked per entry by fingerprint, not proved",
]
RULE = ("case = history of 2..6 runs (text, flag) over 1..4 generated meta-model texts (valid: 70% with "
        "an inheritance chain of depth 3..4 + a diamond + constrained-primitive chain + constant set, "
        "30% two-level hierarchy; or broken in 5 ways) sharing one temp directory; results are compared "
        "by structure fingerprint AND by the answers to every public query of the symbol table "
        "(enumerated by reflection); "
        "non-trivial = the history contains a real cache hit or a cached write; distinct by the "
        "sequence of (text hash, flag). CLI scenarios: same histories through main.main for "
        "targets typescript (asks is_subclass_of) / jsonschema / python.")

SNIPPETS = {
    "jsonschema": {"schema_base.json": '{\n  "$schema": "https://json-schema.org/draft/2019-09/schema",\n'
                                       '  "title": "DummyForTest",\n  "type": "object"\n}\n'},
    "python": {"qualified_module_name.txt": "dummy"},
    # the TypeScript generator (tests/_generate_types_casts_spec.py, ..._type_matches_spec.py) asks
    # Class.is_subclass_of: its output depends on the derived id-sets rebuilt on unpickling
    "typescript": {"package_documentation.txt": "Provide SDK with deep class hierarchy.\n",
                   "package_identifier.txt": "@dummy-works/deep-hierarchy\n"},
}

HEADER = """From Coq Require Import List NArith Bool Arith.
From Acg Require Import Base.Str Model.Cache.
Import ListNotations.
Open Scope N_scope.
Inductive obs := OOpenR (n : text) | OOpenW (n : text) | OMkdir | ORename (a b : text)
               | OUnlink (n : text) | OOther (k : N).
Definition obs_eqb (a b : obs) : bool :=
  match a, b with
  | OOpenR x, OOpenR y | OOpenW x, OOpenW y | OUnlink x, OUnlink y => text_eqb x y
  | OMkdir, OMkdir => true
  | ORename x1 x2, ORename y1 y2 => text_eqb x1 y1 && text_eqb x2 y2
  | OOther x, OOther y => N.eqb x y
  | _, _ => false
  end.
(* a case: table text-id -> (sha hex, result class, result id); observed uuids; history
   (flag, text-id); observed per run ((class, id), events, names in the cache directory) *)
Definition case := (list (N * (text * (N * N))) * list text * list (bool * N)
                    * list ((N * N) * list obs * list text))%type.
Fixpoint tlookup (k : N) (l : list (N * (text * (N * N)))) : option (text * (N * N)) :=
  match l with [] => None | (k', v) :: r => if N.eqb k k' then Some v else tlookup k r end.
Definition mk_parse tbl (t : text) : result N N :=
  match t with
  | [k] => match tlookup k tbl with
           | Some (_, (0, i)) => ROk i
           | Some (_, (1, i)) => RErr i
           | _ => RCrash ParseCrash
           end
  | _ => RCrash ParseCrash
  end.
Definition mk_sha tbl (t : text) : text :=
  match t with [k] => match tlookup k tbl with Some (h, _) => h | None => [] end | _ => [] end.
Definition pk (m : N) : bytes := [m].
Definition unpk (c : bytes) : option N := match c with [m] => Some m | _ => None end.
Definition enc (r : result N N) : N * N :=
  match r with ROk i => (0, i) | RErr e => (1, e) | RCrash _ => (2, 0) end.
Definition to_obs (e : fsev) : list obs :=
  match e with
  | EvOpenR p => [OOpenR (render p)]
  | EvMkdir => [OMkdir]
  | EvOpenW p => [OOpenW (render p)]
  | EvRename a b => [ORename (render a) (render b)]
  | EvUnlink p => [OUnlink (render p)]
  | _ => []   (* exists / read / write / close are not audit events *)
  end.
Definition subset (a b : list text) : bool := forallb (fun x => mem_text x b) a.
Definition run_ok tbl uuids (w : world) (ft : bool * N) (o : (N * N) * list obs * list text)
  : bool * world :=
  let '(flag, k) := ft in
  let '(ores, oev, onames) := o in
  let '(r, w', tr) := load_model N N (mk_parse tbl) (mk_sha tbl) pk unpk
                                 (fun i => nth i uuids []) flag [k] w in
  let names := map (fun pc => render (fst pc)) (files w') in
  ((N.eqb (fst (enc r)) (fst ores) && N.eqb (snd (enc r)) (snd ores)
    && list_eqb obs_eqb (flat_map to_obs tr) oev
    && subset names onames && subset onames names), w').
Fixpoint hist_ok tbl uuids (w : world) (h : list (bool * N))
                 (os : list ((N * N) * list obs * list text)) : bool :=
  match h, os with
  | [], [] => true
  | ft :: h', o :: os' =>
      let '(ok, w') := run_ok tbl uuids w ft o in ok && hist_ok tbl uuids w' h' os'
  | _, _ => false
  end.
Definition case_ok (c : case) : bool :=
  let '(tbl, uuids, h, os) := c in hist_ok tbl uuids empty_world h os.
Fixpoint bad_from (i : nat) (cs : list case) : list nat :=
  match cs with
  | [] => []
  | c :: r => if case_ok c then bad_from (S i) r else i :: bad_from (S i) r
  end.
Definition bad := bad_from 0.
"""

WRITE_EVENTS = {"open_w", "os.mkdir", "os.rename", "os.remove", "os.rmdir", "os.truncate", "os.link",
                "os.symlink", "os.chmod", "os.chown", "os.utime", "shutil.rmtree", "shutil.move",
                "shutil.copyfile", "shutil.copytree", "tempfile.mkstemp", "tempfile.mkdtemp"}
TMP_RE = re.compile(r"^model-([0-9a-f]{64})\.(.+)\.tmp$")


def sha_hex(text: str) -> str:
    return hashlib.sha256(text.encode()).hexdigest()


def under(path: str, base: str) -> bool:
    return path == base or path.startswith(base.rstrip("/") + "/")


def abstract_events(events: List[List[str]], tmp: str, version: str,
                    allowed_write_roots: Tuple[str, ...] = ()) -> List[Tuple]:
    """Map raw audit events to observations: ('openr', name) ('openw', name) ('mkdir',)
    ('rename', a, b) ('unlink', name) for the cache directory; ('other', code, detail) for
    anything else under TMPDIR (1: file create/remove = tempdir probe, 2: directory listing,
    4: other) and for writes anywhere else (3) unless under an allowed root."""
    cdir = os.path.join(tmp, f"aas-core-codegen-{version}")
    out = []
    for ev in events:
        name, paths = ev[0], ev[1:]
        if name == "hook-error":
            out.append(("other", 9, ev))
            continue
        if not paths:
            continue
        p = paths[0]
        if under(p, tmp):
            indir = os.path.dirname(p) == cdir
            if name == "os.mkdir" and p == cdir:
                out.append(("mkdir",))
            elif name == "open_r" and indir:
                out.append(("openr", os.path.basename(p)))
            elif name == "open_w" and indir:
                out.append(("openw", os.path.basename(p)))
            elif name == "os.remove" and indir:
                out.append(("unlink", os.path.basename(p)))
            elif (name == "os.rename" and indir and len(paths) > 1
                  and os.path.dirname(paths[1]) == cdir):
                out.append(("rename", os.path.basename(p), os.path.basename(paths[1])))
            elif name in ("open_w", "os.remove") and os.path.dirname(p) == tmp.rstrip("/"):
                out.append(("other", 1, ev))
            elif name in ("os.listdir", "os.scandir"):
                out.append(("other", 2, ev))
            else:
                out.append(("other", 4, ev))
        elif name in WRITE_EVENTS and not any(under(p, r) for r in allowed_write_roots):
            out.append(("other", 3, ev))
    return out


def coq_obs(o: Tuple) -> str:
    k = o[0]
    if k == "mkdir":
        return "OMkdir"
    if k == "openr":
        return f"OOpenR {coq_text(o[1])}"
    if k == "openw":
        return f"OOpenW {coq_text(o[1])}"
    if k == "unlink":
        return f"OUnlink {coq_text(o[1])}"
    if k == "rename":
        return f"ORename {coq_text(o[1])} {coq_text(o[2])}"
    return f"OOther {o[1]}"


def parallel_impl(script: str, key: str, items: List[Any], chunk: int, extra: Dict[str, Any] = None,
                  workers: int = 6, timeout: int = 1500) -> List[Any]:
    """Run an adapter on chunks of `items` in parallel; returns (version, flat results)."""
    chunks = [items[i:i + chunk] for i in range(0, len(items), chunk)]
    if not chunks:
        return None, []

    def one(ch):
        payload = {key: ch}
        payload.update(extra or {})
        return lib.impl_call(script, payload, timeout=timeout)
    with concurrent.futures.ThreadPoolExecutor(max_workers=workers) as ex:
        outs = list(ex.map(one, chunks))
    flat = []
    for o in outs:
        flat += o[key]
    return outs[0]["version"], flat


class Ids:
    def __init__(self):
        self.d: Dict[str, int] = {}

    def get(self, k: str) -> int:
        if k not in self.d:
            self.d[k] = len(self.d) + 1
        return self.d[k]


def enc_result(res: Dict[str, Any], fps: Ids, msgs: Ids) -> Tuple[int, int]:
    if res["class"] == "ok":
        return 0, fps.get(res["fp"])
    if res["class"] == "err":
        return 1, msgs.get(res["msg"])
    return 2, 0


def corpus_histories() -> List[List[Tuple[str, bool]]]:
    import random
    rng = random.Random(23)
    a = gen.deep_model(rng, tag="corpus-a")   # inheritance chain of depth >= 3 and a diamond
    b = gen.edit_model(random.Random(1), a)
    bad = gen.break_model(random.Random(2), a)
    return [
        [(a, False), (a, False)],                      # witness of the cache_model=True defect
        [(a, True), (a, True), (a, False)],            # cold, warm, uncached
        [(a, True), (b, True), (a, True), (b, True)],  # edit between runs, both cached
        [(bad, True), (bad, True), (a, True)],         # errors never cached
        [(a, False), (a, True), (a + "\n", True), (a, True)],
    ]


def streams(ctx: lib.Ctx) -> None:
    rng = ctx.rng
    hists = corpus_histories()
    hists += [gen.history(rng) for _ in range(ctx.n(10, 160))]

    # ------------------------------------------------------------------ references
    texts: List[str] = []
    for h in hists:
        for t, _ in h:
            if t not in texts:
                texts.append(t)
    ref_hists = [[(t, False)] for t in texts]
    all_h = ref_hists + hists
    version, outs = parallel_impl("cache_hist.py", "histories",
                                  [[[t, f] for t, f in h] for h in all_h], chunk=8, workers=8,
                                  extra={"isolation": "inproc", "fork_first": 1})
    ref_out = outs[:len(ref_hists)]
    h_out = outs[len(ref_hists):]
    fps, msgs = Ids(), Ids()
    ref: Dict[str, Dict[str, Any]] = {}
    for t, o in zip(texts, ref_out):
        ref[t] = o["runs"][0]["result"]
    text_id = {t: i + 1 for i, t in enumerate(texts)}
    by_hash = {sha_hex(t): t for t in texts}

    def how_hist(h, note=""):
        return ("run.load_model(model_path, cache_model) in separate processes sharing one fresh TMPDIR, "
                "for the runs (text, flag) of `input` in order" + note)

    # ------------------------------------------------------------------ oracle on histories
    def oracle_history(h, o, stream):
        tmp = o["tmp"]
        seen_flagged = set()
        before = {}
        hit_count = 0
        for idx, ((t, flag), r) in enumerate(zip(h, o["runs"])):
            obs = abstract_events(r["events"], tmp, version)
            res = r["result"]
            inp = {"history": [[sha_hex(x)[:12], f] for x, f in h[:idx + 1]], "run": idx,
                   "texts": {sha_hex(x)[:12]: x for x, _ in h[:idx + 1]}}
            if not flag:
                cache_ev = [e for e in obs if e[0] != "other"]
                other_ev = [e for e in obs if e[0] == "other"]
                if cache_ev or r["listing"] != before:
                    ctx.impl_failure(
                        "noflag-cache-touched",
                        "a run WITHOUT cache_model read or wrote the model cache "
                        f"(events {cache_ev[:4]}, temp dir after the run: {sorted(r['listing'])[:3]})",
                        inp, {"events": obs[:8], "listing": r["listing"]}, stream, how_hist(h))
                elif other_ev:
                    code = other_ev[0][1]
                    ctx.impl_failure(
                        "noflag-tempdir-probe" if code == 1 else f"noflag-tempdir-access-{code}",
                        "a run WITHOUT cache_model wrote outside the output directory: "
                        f"{other_ev[0][2]} (tempfile.gettempdir() probes the directory by creating "
                        "and removing a file)" if code == 1 else
                        f"a run WITHOUT cache_model accessed the temp directory: {other_ev[0][2]}",
                        inp, {"events": [e[2] for e in other_ev[:4]]}, stream, how_hist(h))
            # transparency: same result as the uncached reference of the same text
            want = ref[t]
            same = (res["class"] == want["class"] and res.get("fp") == want.get("fp")
                    and res.get("msg") == want.get("msg"))
            if not same:
                ctx.impl_failure(
                    "cached-result-differs" if flag else "uncached-run-not-deterministic",
                    f"run {idx} (flag={flag}) returned {res} but an uncached run of the same text "
                    f"returns {want}", inp, {"got": res, "want": want}, stream, how_hist(h))
            if "dangling" in str(res.get("fp", "")):
                ctx.impl_failure("dangling-id-set", "an *_id_set of the returned symbol table holds an "
                                 "id that denotes no object of the table", inp, res, stream, how_hist(h))
            hit = any(e[0] == "openr" for e in obs)
            if hit:
                hit_count += 1
                if t not in seen_flagged:
                    ctx.impl_failure(
                        "foreign-entry-reused",
                        f"run {idx} read a cache entry although no earlier cached run had this text",
                        inp, {"events": obs[:6]}, stream, how_hist(h))
            if flag and res["class"] == "ok":
                seen_flagged.add(t)
            before = r["listing"]
        # final entries: every one unpickles to the fresh symbol table of the text with that hash
        for name, fp in o["entries"].items():
            m = re.match(r"^model-([0-9a-f]{64})\.pickle$", name)
            inp = {"history": [[sha_hex(x)[:12], f] for x, f in h],
                   "texts": {sha_hex(x)[:12]: x for x, _ in h}}
            if not m:
                if TMP_RE.match(name):
                    ctx.impl_failure("tmp-left-behind", f"temporary file {name} left after complete runs",
                                     inp, o["entries"], stream, how_hist(h))
                continue
            t = by_hash.get(m.group(1))
            if t is None:
                ctx.impl_failure("entry-for-unknown-text", f"cache entry {name} matches no text of the "
                                 "history (key is not the content hash)", inp, o["entries"], stream, how_hist(h))
            elif ref[t]["class"] != "ok":
                ctx.impl_failure("error-cached", f"cache entry {name} exists for a text whose load fails",
                                 inp, o["entries"], stream, how_hist(h))
            elif fp != ref[t]["fp"]:
                ctx.impl_failure("unpickled-differs", f"cache entry {name} unpickles to {fp}, the fresh "
                                 f"symbol table has {ref[t]['fp']}", inp, o["entries"], stream, how_hist(h))
        return hit_count

    nontrivial = []
    hits_total = 0
    for h, o in zip(all_h, outs):
        hits = oracle_history(h, o, "history")
        hits_total += hits
        if hits or any(f for _, f in h):
            nontrivial.append(tuple((sha_hex(t)[:10], f) for t, f in h))

    # ------------------------------------------------------------------ correspondence in Coq
    coq_cases = []
    for h, o in zip(all_h, outs):
        hs_texts = []
        for t, _ in h:
            if t not in hs_texts:
                hs_texts.append(t)
        tbl = []
        for t in hs_texts:
            c, i = enc_result(ref[t], fps, msgs)
            tbl.append(coq_pair(coq_n(text_id[t]), coq_pair(coq_text(sha_hex(t)), coq_pair(coq_n(c), coq_n(i)))))
        uuids: List[str] = []
        observed = []
        for (t, f), r in zip(h, o["runs"]):
            obs = abstract_events(r["events"], o["tmp"], version)
            if f:
                # with the option, tempfile.gettempdir() may probe the directory (third party)
                obs = [e for e in obs if not (e[0] == "other" and e[1] == 1)]
            for e in obs:
                if e[0] == "openw":
                    m = TMP_RE.match(e[1])
                    if m and m.group(2) not in uuids:
                        uuids.append(m.group(2))
            c, i = enc_result(r["result"], fps, msgs)
            prefix = f"aas-core-codegen-{version}/"
            names = [k[len(prefix):] for k in r["listing"] if k.startswith(prefix) and not k.endswith("/")]
            stray = [k for k in r["listing"] if not k.startswith(prefix) and k != prefix]
            names += ["<stray>" + k for k in stray]
            observed.append(coq_pair(coq_pair(coq_n(c), coq_n(i)),
                                     coq_list(coq_obs(e) for e in obs),
                                     coq_list(coq_text(n) for n in names)))
        coq_cases.append(coq_pair(coq_list(tbl), coq_list(coq_text(u) for u in uuids),
                                  coq_list(coq_pair(coq_bool(f), coq_n(text_id[t])) for t, f in h),
                                  coq_list(observed)))
    bad, _log = lib.run_cases(ctx.work, "hist", HEADER, "case", "bad", coq_cases, shard=60)
    for i in bad[:10]:
        h, o = all_h[i], outs[i]
        ctx.corr_break("history", {"history": [[sha_hex(t)[:12], f] for t, f in h],
                                   "texts": {sha_hex(t)[:12]: t for t, _ in h}},
                       "Model/Cache.v load_model over the history (results, audit-visible events, "
                       "directory listing after each run)",
                       [{"result": r["result"], "events": abstract_events(r["events"], o["tmp"], version)[:10],
                         "listing": sorted(r["listing"])} for r in o["runs"]])
    n_runs = sum(len(h) for h in all_h)
    ctx.count("history", n_runs, nontrivial_keys=nontrivial, validated=n_runs,
              histories=len(all_h), distinct_texts=len(texts),
              erroneous_texts=sum(1 for t in texts if ref[t]["class"] != "ok"),
              cache_hits=hits_total, flagged_runs=sum(1 for h in all_h for _, f in h if f))
    ctx.sample({"history": [[sha_hex(t)[:12], f] for t, f in hists[1]], "first_text": hists[1][0][0]})

    # ------------------------------------------------------------------ full CLI runs
    n_cli = ctx.n(5, 40)
    scen = []
    for k in range(n_cli):
        # k = 0: corpus history 1 = (deep model: cold, warm, uncached) through the TypeScript target
        h = hists[(k + 1) % len(hists)] if k < len(hists) else gen.history(rng)
        target = ("typescript", "jsonschema", "python", "typescript", "jsonschema")[k % 5]
        scen.append({"target": target, "snippets": SNIPPETS[target], "runs": [[t, f] for t, f in h[:4]]})
    # uncached reference of every (text, target): a single run without the option, fresh TMPDIR
    ref_keys = []
    for s in scen:
        for t, _ in s["runs"]:
            if (t, s["target"]) not in ref_keys:
                ref_keys.append((t, s["target"]))
    ref_scen = [{"target": tg, "snippets": SNIPPETS[tg], "runs": [[t, False]]} for t, tg in ref_keys]
    _, cli_out = parallel_impl("cache_cli.py", "scenarios", ref_scen + scen, chunk=4, workers=8,
                              extra={"isolation": "inproc", "fork_first": 1})
    cli_ref = {k: o["runs"][0] for k, o in zip(ref_keys, cli_out[:len(ref_scen)])}

    def view(r):
        return {"rc": r["rc"], "stdout": r["stdout"], "stderr": r["stderr"], "tree": r["tree"]}

    cli_runs = 0
    cli_nontrivial = []
    for s, o in zip(ref_scen + scen, cli_out):
        before = {}
        for idx, ((t, flag), r) in enumerate(zip(s["runs"], o["runs"])):
            cli_runs += 1
            inp = {"target": s["target"], "run": idx,
                   "runs": [[sha_hex(x)[:12], f] for x, f in s["runs"][:idx + 1]],
                   "texts": {sha_hex(x)[:12]: x for x, _ in s["runs"][:idx + 1]},
                   "snippets": s["snippets"]}
            how = ("python -m aas_core_codegen --model_path M --snippets_dir S --output_dir O --target "
                   f"{s['target']}" + " [--cache_model]; runs of `input.runs` in order, one TMPDIR")
            obs = abstract_events(r["events"], o["tmp"], version, allowed_write_roots=(r["out"],))
            if not flag:
                cache_ev = [e for e in obs if e[0] != "other"]
                other = [e for e in obs if e[0] == "other"]
                if cache_ev or r["listing"] != before:
                    ctx.impl_failure(
                        "noflag-cache-touched",
                        "a command-line run WITHOUT --cache_model read or wrote the model cache "
                        f"(events {cache_ev[:4]}; temp dir after the run: {sorted(r['listing'])[:3]})",
                        inp, {"events": obs[:8], "listing": r["listing"]}, "cli", how)
                elif other:
                    code = other[0][1]
                    ctx.impl_failure(
                        "noflag-tempdir-probe" if code == 1 else f"noflag-write-outside-output-{code}",
                        f"a command-line run WITHOUT --cache_model wrote outside the output directory: {other[0][2]}",
                        inp, {"events": [e[2] for e in other[:4]]}, "cli", how)
            else:
                outside = [e for e in obs if e[0] == "other" and e[1] == 3]
                if outside:
                    ctx.impl_failure("flag-write-outside-output-and-cache",
                                     f"a cached run wrote outside the output and cache directories: {outside[0][2]}",
                                     inp, {"events": [e[2] for e in outside[:4]]}, "cli", how)
            want = cli_ref[(t, s["target"])]
            if view(r) != view(want):
                diff = [k for k in ("rc", "stdout", "stderr", "tree") if r[k] != want[k]]
                ctx.impl_failure(
                    "cli-cached-output-differs" if flag else "cli-uncached-not-deterministic",
                    f"run {idx} (--cache_model={flag}) differs from the uncached run in {diff}",
                    inp, {"got": {k: r[k] for k in diff}, "want": {k: want[k] for k in diff}}, "cli", how)
            if flag and any(e[0] == "openr" for e in obs):
                cli_nontrivial.append((s["target"], sha_hex(t)[:10], idx))
            before = r["listing"]
    ctx.count("cli", cli_runs, nontrivial_keys=cli_nontrivial, validated=0,
              scenarios=len(scen), references=len(ref_scen), warm_cli_runs=len(cli_nontrivial),
              rc_nonzero=sum(1 for o in cli_out for r in o["runs"] if r["rc"] != 0))

    # ------------------------------------------------------------------ broken obligations: witness
    if ctx.proof_breaks:
        try:
            ans = lib.coq_eval(ctx.work, "plumbwit",
                               "From Coq Require Import List Bool.\nFrom Acg Require Import Gen.GenCacheFlag.\n"
                               "Import ListNotations.\n",
                               "filter (fun b : bool => negb (eqb (plumb b) b)) [false; true]")
        except Exception as e:  # noqa
            ans = f"(could not evaluate: {e})"
        wit = " ".join(ans.split())
        ctx.coverage["plumb_witness"] = wit
        for f in ctx.impl_failures:
            if f["key"] == "noflag-cache-touched":
                f["what"] += f" | Coq: plumb b <> b for b in {wit}"

    # keep one failure per key (the first = smallest history: references and corpus run first)
    seen = set()
    uniq = []
    for f in ctx.impl_failures:
        if f["key"] not in seen:
            seen.add(f["key"])
            uniq.append(f)
    ctx.impl_failures = uniq
