(** Executable model of the case-conversion functions of [aas_core_codegen/naming.py]
    and of every target's [naming.py] (cpp, csharp, golang, java, python, typescript,
    xsd), restricted to what Python does on ASCII text. Meta-model identifiers match
    [[a-zA-Z_][a-zA-Z_0-9]*] (common.IDENTIFIER_RE), hence are ASCII; on code points
    >= 128 the model leaves characters unchanged and is NOT claimed faithful.

    Every [Identifier(...)] construction of the code re-checks the regex through an
    icontract pre-condition, so a conversion whose result is not an identifier (for
    example [capitalized_camel_case("_") = ""]) raises ViolationError: [Crash Violation].

    No proofs in this file. *)
From Coq Require Import List NArith Bool.
From Coq Require Strings.String.
Import Coq.Strings.String.StringSyntax.
From Acg Require Import Base.Outcome Base.Str.
Import ListNotations.
Open Scope N_scope.

(** Result of a modelled function: value, reported errors (their number), or crash. *)
Definition res (A : Type) : Type := outcome A nat.

(** * Characters *)
Definition US : N := 95.                                  (* "_" *)
Definition is_upper_c (c : N) : bool := (65 <=? c) && (c <=? 90).
Definition is_lower_c (c : N) : bool := (97 <=? c) && (c <=? 122).
Definition is_digit_c (c : N) : bool := (48 <=? c) && (c <=? 57).
Definition is_ident_start (c : N) : bool := is_upper_c c || is_lower_c c || N.eqb c US.
Definition is_ident_char (c : N) : bool := is_ident_start c || is_digit_c c.
Definition lower_c (c : N) : N := if is_upper_c c then c + 32 else c.
Definition upper_c (c : N) : N := if is_lower_c c then c - 32 else c.

(** [str.lower()], [str.upper()], [str.capitalize()] on ASCII. *)
Definition lower (t : text) : text := map lower_c t.
Definition upper (t : text) : text := map upper_c t.
Definition capitalize (t : text) : text :=
  match t with
  | [] => []
  | c :: r => upper_c c :: lower r
  end.

(** [IDENTIFIER_RE.fullmatch]. *)
Definition is_identifier (t : text) : bool :=
  match t with
  | [] => false
  | c :: r => is_ident_start c && forallb is_ident_char r
  end.

(** [Identifier(value)] — icontract [@require] on the regex. *)
Definition mk_ident (t : text) : res text :=
  if is_identifier t then Ok t else Crash Violation.

Definition parts_of (t : text) : list text := split_on US t.
Definition is_empty (t : text) : bool := match t with [] => true | _ => false end.

(** [identifier[0].isupper()] used in pre-conditions: IndexError on the empty text. *)
Definition require_first_isupper (t : text) : res unit :=
  match t with
  | [] => Crash IndexError
  | c :: _ => if is_upper_c c then Ok tt else Crash Violation
  end.

(** * aas_core_codegen/naming.py *)
Definition lower_snake_case (i : text) : res text :=
  mk_ident (join [US] (map lower (parts_of i))).

Definition upper_snake_case (i : text) : res text :=
  mk_ident (join [US] (map upper (parts_of i))).

Definition lower_camel_case (i : text) : res text :=
  match parts_of i with
  | [] => Crash AssertionError           (* assert len(parts) > 0; split never returns [] *)
  | [p] => mk_ident (lower p)
  | p :: rest => mk_ident (lower p ++ concat (map capitalize rest))
  end.

Definition capitalized_camel_case (i : text) : res text :=
  mk_ident (concat (map capitalize (parts_of i))).

Definition json_property := lower_camel_case.

Definition json_model_type (i : text) : res text :=
  do _ <- require_first_isupper i;
  do r <- capitalized_camel_case i;
  (* @ensure "_" not in result, no quotes/backslash in result *)
  if memN US r || memN 34 r || memN 39 r || memN 92 r then Crash Violation else Ok r.

Definition xml_class_name (i : text) : res text :=
  match i with
  | [] => Crash IndexError
  | c :: _ => if N.eqb (upper_c c) c then lower_camel_case i else Crash Violation
  end.

Definition xml_property := lower_camel_case.

(** [Identifier(f"{prefix}{x}")] and [Identifier(f"{x}{suffix}")]. *)
Definition prefixed (p : text) (r : res text) : res text :=
  do x <- r; mk_ident (p ++ x).
Definition suffixed (r : res text) (s : text) : res text :=
  do x <- r; mk_ident (x ++ s).

(** * cpp/naming.py *)
Definition cpp_interface_name (i : text) := prefixed (s2l "I") (capitalized_camel_case i).
Definition cpp_enum_name := capitalized_camel_case.
Definition cpp_enum_literal_name (i : text) := prefixed (s2l "k") (capitalized_camel_case i).
Definition cpp_class_name := capitalized_camel_case.
Definition cpp_getter_name := lower_snake_case.
Definition cpp_mutable_getter_name (i : text) : res text :=
  do x <- mk_ident (s2l "mutable_" ++ i); lower_snake_case x.
Definition cpp_setter_name (i : text) : res text :=
  do x <- mk_ident (s2l "set_" ++ i); lower_snake_case x.
Definition cpp_private_property_name (i : text) := suffixed (lower_snake_case i) [US].
Definition cpp_method_name := capitalized_camel_case.
Definition cpp_function_name := capitalized_camel_case.
Definition cpp_argument_name := lower_snake_case.
Definition cpp_variable_name := lower_snake_case.
Definition cpp_constant_name (i : text) := prefixed (s2l "k") (capitalized_camel_case i).

(** * csharp/naming.py *)
Definition csharp_interface_name (i : text) := prefixed (s2l "I") (capitalized_camel_case i).
Definition csharp_enum_name := capitalized_camel_case.
Definition csharp_enum_literal_name := capitalized_camel_case.
Definition csharp_class_name := capitalized_camel_case.
Definition csharp_property_name := capitalized_camel_case.
Definition csharp_private_property_name (i : text) := prefixed [US] (lower_camel_case i).
Definition csharp_private_method_name (i : text) := prefixed [US] (lower_camel_case i).
Definition csharp_method_name := capitalized_camel_case.
Definition csharp_argument_name := lower_camel_case.
Definition csharp_variable_name := lower_camel_case.

(** * golang/naming.py *)
Definition go_capitalize_or_leave (p : text) : res text :=
  match p with
  | [] => Crash Violation                       (* @require len(identifier_part) > 0 *)
  | c :: _ =>
      if memN US p then Crash Violation         (* @require "_" not in identifier_part *)
      else if is_upper_c c then Ok p else Ok (capitalize p)
  end.

Fixpoint mapM {A B} (f : A -> res B) (l : list A) : res (list B) :=
  match l with
  | [] => Ok []
  | x :: r => do y <- f x; do ys <- mapM f r; Ok (y :: ys)
  end.

Definition go_capital_camel_case (i : text) : res text :=
  do ps <- mapM go_capitalize_or_leave (filter (fun p => negb (is_empty p)) (parts_of i));
  mk_ident (concat ps).

Definition go_lower_camel_case (i : text) : res text :=
  match parts_of i with
  | [] => Crash AssertionError                  (* assert part is not None *)
  | p :: rest =>
      do ps <- mapM go_capitalize_or_leave rest;
      mk_ident (lower p ++ concat ps)
  end.

Definition go_interface_name (i : text) := prefixed (s2l "I") (go_capital_camel_case i).
Definition go_enum_name := go_capital_camel_case.
Definition go_enum_literal_name (e l : text) : res text :=
  do a <- go_capital_camel_case e; do b <- go_capital_camel_case l; mk_ident (a ++ b).
Definition go_private_struct_name := go_lower_camel_case.
Definition go_struct_name := go_capital_camel_case.
Definition go_getter_name := go_capital_camel_case.
Definition go_setter_name (i : text) : res text :=
  do x <- mk_ident (s2l "set_" ++ i); go_capital_camel_case x.
Definition go_property_name := go_capital_camel_case.
Definition go_type_special (i : text) : res text :=
  if text_eqb i (s2l "type") then mk_ident (s2l "typE") else go_lower_camel_case i.
Definition go_private_property_name := go_type_special.
Definition go_private_method_name := go_lower_camel_case.
Definition go_method_name := go_capital_camel_case.
Definition go_function_name := go_capital_camel_case.
Definition go_private_function_name := go_lower_camel_case.
Definition go_argument_name := go_type_special.
Definition go_variable_name := go_type_special.
Definition go_constant_name := go_capital_camel_case.
Definition go_private_constant_name := go_lower_camel_case.

(** * java/naming.py *)
Definition java_interface_name (i : text) := prefixed (s2l "I") (capitalized_camel_case i).
Definition java_enum_name := capitalized_camel_case.
Definition java_enum_literal_name := upper_snake_case.
Definition java_class_name := capitalized_camel_case.
Definition java_property_name := lower_camel_case.
Definition java_private_property_name := lower_camel_case.
Definition java_private_method_name := lower_camel_case.
Definition java_method_name := lower_camel_case.
Definition java_argument_name := lower_camel_case.
Definition java_variable_name := lower_camel_case.
Definition java_getter_name (i : text) := prefixed (s2l "get") (capitalized_camel_case i).
Definition java_setter_name (i : text) := prefixed (s2l "set") (capitalized_camel_case i).

(** * python/naming.py *)
Definition py_keep_or_capitalize (p : text) : text :=
  if text_eqb (upper p) p then p else capitalize p.
Definition py_enum_name (i : text) : res text :=
  do _ <- require_first_isupper i;
  mk_ident (concat (map py_keep_or_capitalize (parts_of i))).
Definition py_class_name := py_enum_name.
Definition py_enum_literal_name := upper_snake_case.
Definition py_private_constant_name (i : text) := prefixed [US] (upper_snake_case i).
Definition py_constant_name := upper_snake_case.
Definition py_private_class_name (i : text) : res text :=
  do _ <- require_first_isupper i;
  mk_ident ([US] ++ concat (map py_keep_or_capitalize (parts_of i))).
Definition py_property_name := lower_snake_case.
Definition py_private_property_name (i : text) := prefixed [US] (lower_snake_case i).
Definition py_private_method_name (i : text) := prefixed [US] (lower_snake_case i).
Definition py_private_function_name (i : text) := prefixed [US] (lower_snake_case i).
Definition py_function_name := lower_snake_case.
Definition py_method_name := lower_snake_case.
Definition py_argument_name := lower_snake_case.
Definition py_variable_name := lower_snake_case.

(** * typescript/naming.py *)
Definition ts_enum_name (i : text) : res text :=
  do _ <- require_first_isupper i; capitalized_camel_case i.
Definition ts_class_name := ts_enum_name.
Definition ts_enum_literal_name := capitalized_camel_case.
Definition ts_constant_name (i : text) : res text :=
  mk_ident (join [US] (map upper (parts_of i))).
Definition ts_interface_name (i : text) : res text :=
  do _ <- require_first_isupper i; prefixed (s2l "I") (capitalized_camel_case i).
Definition ts_property_name := lower_camel_case.
Definition ts_function_name := lower_camel_case.
Definition ts_method_name := lower_camel_case.
Definition ts_argument_name := lower_camel_case.
Definition ts_variable_name := lower_camel_case.

(** * xsd/naming.py *)
Definition xsd_base (i : text) : res text :=
  match parts_of i with
  | [] => Crash AssertionError
  | p :: rest => Ok (lower p ++ concat (map capitalize rest))
  end.
Definition xsd_type_name (i : text) : res text := do b <- xsd_base i; mk_ident (b ++ s2l "_t").
Definition xsd_group_name (i : text) : res text := do b <- xsd_base i; mk_ident b.
Definition xsd_choice_group_name (i : text) : res text :=
  do b <- xsd_base i; mk_ident (b ++ s2l "_choice").

(** * Table of all modelled one-argument naming functions (used by the
      correspondence check and by [naming_ascii_closed]). The keys are
      "<module>.<function>" of the Python code. *)
Definition naming_table : list (text * (text -> res text)) :=
  [ (s2l "naming.lower_snake_case", lower_snake_case);
    (s2l "naming.upper_snake_case", upper_snake_case);
    (s2l "naming.lower_camel_case", lower_camel_case);
    (s2l "naming.capitalized_camel_case", capitalized_camel_case);
    (s2l "naming.json_property", json_property);
    (s2l "naming.json_model_type", json_model_type);
    (s2l "naming.xml_class_name", xml_class_name);
    (s2l "naming.xml_property", xml_property);
    (s2l "cpp.interface_name", cpp_interface_name);
    (s2l "cpp.enum_name", cpp_enum_name);
    (s2l "cpp.enum_literal_name", cpp_enum_literal_name);
    (s2l "cpp.class_name", cpp_class_name);
    (s2l "cpp.getter_name", cpp_getter_name);
    (s2l "cpp.mutable_getter_name", cpp_mutable_getter_name);
    (s2l "cpp.setter_name", cpp_setter_name);
    (s2l "cpp.private_property_name", cpp_private_property_name);
    (s2l "cpp.method_name", cpp_method_name);
    (s2l "cpp.function_name", cpp_function_name);
    (s2l "cpp.argument_name", cpp_argument_name);
    (s2l "cpp.variable_name", cpp_variable_name);
    (s2l "cpp.constant_name", cpp_constant_name);
    (s2l "csharp.interface_name", csharp_interface_name);
    (s2l "csharp.enum_name", csharp_enum_name);
    (s2l "csharp.enum_literal_name", csharp_enum_literal_name);
    (s2l "csharp.class_name", csharp_class_name);
    (s2l "csharp.property_name", csharp_property_name);
    (s2l "csharp.private_property_name", csharp_private_property_name);
    (s2l "csharp.private_method_name", csharp_private_method_name);
    (s2l "csharp.method_name", csharp_method_name);
    (s2l "csharp.argument_name", csharp_argument_name);
    (s2l "csharp.variable_name", csharp_variable_name);
    (s2l "golang.capital_camel_case", go_capital_camel_case);
    (s2l "golang._lower_camel_case", go_lower_camel_case);
    (s2l "golang.interface_name", go_interface_name);
    (s2l "golang.enum_name", go_enum_name);
    (s2l "golang.private_struct_name", go_private_struct_name);
    (s2l "golang.struct_name", go_struct_name);
    (s2l "golang.getter_name", go_getter_name);
    (s2l "golang.setter_name", go_setter_name);
    (s2l "golang.property_name", go_property_name);
    (s2l "golang.private_property_name", go_private_property_name);
    (s2l "golang.private_method_name", go_private_method_name);
    (s2l "golang.method_name", go_method_name);
    (s2l "golang.function_name", go_function_name);
    (s2l "golang.private_function_name", go_private_function_name);
    (s2l "golang.argument_name", go_argument_name);
    (s2l "golang.variable_name", go_variable_name);
    (s2l "golang.constant_name", go_constant_name);
    (s2l "golang.private_constant_name", go_private_constant_name);
    (s2l "java.interface_name", java_interface_name);
    (s2l "java.enum_name", java_enum_name);
    (s2l "java.enum_literal_name", java_enum_literal_name);
    (s2l "java.class_name", java_class_name);
    (s2l "java.property_name", java_property_name);
    (s2l "java.private_property_name", java_private_property_name);
    (s2l "java.private_method_name", java_private_method_name);
    (s2l "java.method_name", java_method_name);
    (s2l "java.argument_name", java_argument_name);
    (s2l "java.variable_name", java_variable_name);
    (s2l "java.getter_name", java_getter_name);
    (s2l "java.setter_name", java_setter_name);
    (s2l "python.enum_name", py_enum_name);
    (s2l "python.class_name", py_class_name);
    (s2l "python.enum_literal_name", py_enum_literal_name);
    (s2l "python.private_constant_name", py_private_constant_name);
    (s2l "python.constant_name", py_constant_name);
    (s2l "python.private_class_name", py_private_class_name);
    (s2l "python.property_name", py_property_name);
    (s2l "python.private_property_name", py_private_property_name);
    (s2l "python.private_method_name", py_private_method_name);
    (s2l "python.private_function_name", py_private_function_name);
    (s2l "python.function_name", py_function_name);
    (s2l "python.method_name", py_method_name);
    (s2l "python.argument_name", py_argument_name);
    (s2l "python.variable_name", py_variable_name);
    (s2l "typescript.enum_name", ts_enum_name);
    (s2l "typescript.class_name", ts_class_name);
    (s2l "typescript.enum_literal_name", ts_enum_literal_name);
    (s2l "typescript.constant_name", ts_constant_name);
    (s2l "typescript.interface_name", ts_interface_name);
    (s2l "typescript.property_name", ts_property_name);
    (s2l "typescript.function_name", ts_function_name);
    (s2l "typescript.method_name", ts_method_name);
    (s2l "typescript.argument_name", ts_argument_name);
    (s2l "typescript.variable_name", ts_variable_name);
    (s2l "xsd.type_name", xsd_type_name);
    (s2l "xsd.group_name", xsd_group_name);
    (s2l "xsd.choice_group_name", xsd_choice_group_name) ].

Fixpoint lookup_naming (k : text) (tbl : list (text * (text -> res text)))
  : option (text -> res text) :=
  match tbl with
  | [] => None
  | (k', f) :: r => if text_eqb k k' then Some f else lookup_naming k r
  end.
