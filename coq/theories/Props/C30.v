(** C30 — Generated constants and enumerations match the meta-model.

    Theorems over the model [Model/SdkSpecConst.v] of the constant-subset resolution pass of
    the front end and of the enumeration text maps the generated SDK contains. The generated
    SDK itself (constants.py, stringification.py, types.py) is tied to these specifications by
    the correspondence streams of harness/props/c30.py; primitive constant literals are
    checked by the direct oracle there (their escaping is C19's theorem). Only statements,
    [exact]s and [Print Assumptions] here. *)
From Coq Require Import List NArith ZArith Bool Relations.
From Coq Require Strings.String.
Import Coq.Strings.String.StringSyntax.
From Acg Require Import Base.Str Base.Outcome Model.SdkSpecConst Proofs.SdkSpecConstFacts.
Import ListNotations.

(** The resolution pass never raises: in particular the two icontract post-conditions
    ("every subset is a true subset", "all the subsets resolved") cannot fire. *)
Theorem C30_resolve_total : forall table, is_crash (resolve_all table) = false.
Proof. exact resolve_all_no_crash. Qed.
Print Assumptions C30_resolve_total.

(** Accepted ⇒ for every declaration [S superset_of T]: T is a constant set of the same
    kind and every literal of T is (Python-equal to) a listed literal of S. *)
Theorem C30_subsets_checked_direct : forall table s t,
  accepted table = true -> declared table s t ->
  In t table /\ ckind_eqb (k_kind s) (k_kind t) = true /\ contained t s.
Proof. exact subsets_checked_direct. Qed.
Print Assumptions C30_subsets_checked_direct.

(** ... and transitively along chains of declarations of any length (cycles included). *)
Theorem C30_subsets_checked : forall table s t,
  accepted table = true ->
  clos_refl_trans const (declared table) s t ->
  forall l, In l (k_lits t) -> mem_lit l (k_lits s) = true.
Proof. exact subsets_checked. Qed.
Print Assumptions C30_subsets_checked.

(** "Every constant set contains exactly its listed literals plus those of the sets it is
    declared a superset of": for an accepted meta-model that union, followed to any depth,
    is the set of listed literals — which is what the generator writes. *)
Theorem C30_closure_is_listed : forall table, accepted table = true ->
  forall fuel s, In s table -> is_set (k_kind s) = true ->
  set_eq_lits (closure_lits fuel table s) (k_lits s) = true.
Proof. exact closure_is_listed. Qed.
Print Assumptions C30_closure_is_listed.

(** Enumeration literal -> text -> literal is the identity, and any other text yields no
    literal. [NoDup values] is what the front end demands of an enumeration. *)
Theorem C30_enum_roundtrip : forall (lits : list eliteral),
  NoDup (map snd lits) ->
  (forall l, In l lits -> from_str lits (to_str l) = Some l) /\
  (forall s, ~ In s (map snd lits) -> from_str lits s = None).
Proof. exact enum_roundtrip. Qed.
Print Assumptions C30_enum_roundtrip.

Theorem C30_from_str_sound : forall lits s l,
  from_str lits s = Some l -> In l lits /\ to_str l = s.
Proof. exact from_str_sound. Qed.
Print Assumptions C30_from_str_sound.

(** Non-vacuity. A chain C ⊇ B ⊇ A (with a bool in an int set and a forward reference) is
    accepted and the closure of C is its listed literals; dropping one literal from C, a
    subset of another type, or an unknown name are refused. *)
Definition ex_a := mkConst (s2l "A") (KSetPrim (s2l "int")) [LInt 1; LBool false] [].
Definition ex_b := mkConst (s2l "B") (KSetPrim (s2l "int")) [LInt 0; LInt 2; LBool true] [s2l "A"].
Definition ex_c := mkConst (s2l "C") (KSetPrim (s2l "int")) [LInt 3; LInt 2; LInt 1; LInt 0] [s2l "B"].
Definition ex_c_bad := mkConst (s2l "C") (KSetPrim (s2l "int")) [LInt 3; LInt 2; LInt 1] [s2l "B"].
Definition ex_s := mkConst (s2l "S") (KSetPrim (s2l "str")) [LStr (s2l "x")] [s2l "A"].
Definition ex_u := mkConst (s2l "U") (KSetPrim (s2l "int")) [LInt 1] [s2l "Nowhere"].
Definition ex_p := mkConst (s2l "P") KPrimitive [] [].

Example C30_nonvacuous :
  accepted [ex_c; ex_p; ex_b; ex_a] = true
  /\ set_eq_lits (closure_lits 4 [ex_c; ex_p; ex_b; ex_a] ex_c) (k_lits ex_c) = true
  /\ length (closure_lits 4 [ex_c; ex_p; ex_b; ex_a] ex_c) = 9%nat
  /\ accepted [ex_c_bad; ex_b; ex_a] = false
  /\ accepted [ex_s; ex_a] = false
  /\ accepted [ex_u] = false
  /\ accepted [mkConst (s2l "Q") (KSetPrim (s2l "int")) [LInt 1] [s2l "P"]; ex_p] = false.
Proof. vm_compute. repeat split; reflexivity. Qed.
Print Assumptions C30_nonvacuous.

Example C30_enum_nonvacuous :
  let lits := [(s2l "Red", s2l "r"); (s2l "Green", s2l ""); (s2l "Blue", s2l "b b")] in
  from_str lits (s2l "") = Some (s2l "Green", s2l "")
  /\ from_str lits (s2l "R") = None
  /\ from_str [(s2l "A", s2l "x"); (s2l "B", s2l "x")] (s2l "x") = Some (s2l "B", s2l "x").
Proof. vm_compute. repeat split; reflexivity. Qed.
Print Assumptions C30_enum_nonvacuous.
