"""C06: conversion of mmgen's abstract meta-models into terms of Model/Rules.v, and
additional single-rule mutation operators (site-exhaustive where that is cheap).

Nothing in here knows how the front end decides; a mutant only *names* the rule it is
meant to break (``Mutant.rule``), the verdict comes from the Coq checker ``rulesb``.
"""
from __future__ import annotations

import copy
import random
from typing import Any, Callable, Dict, Iterable, List, Optional, Sequence, Tuple

from harness.gen import metamodel as mmg
from harness.gen.metamodel import (Class, ConstantPrimitive, Doc, EnumLiteral, Enumeration, Invariant, Method,
                                   MetaModel, Mutant, Property, TList, TOpt, TOur, TPrim, VerificationFunction)


# =====================================================================================
# Coq printers
# =====================================================================================
def ctext(s: str) -> str:
    """A text (list of code points): via a Coq string literal when ASCII-printable."""
    if all(32 <= ord(c) < 127 for c in s):
        return '(s2l "' + s.replace('"', '""') + '")'
    return "[" + ";".join(str(ord(c)) for c in s) + "]"


class Interner:
    """Every distinct string becomes one Coq definition (``Definition s<k> : text``), so that
    the thousands of mutant terms of a run mention names only by reference (this cuts the
    time coqc needs to parse and type-check the cases files by an order of magnitude)."""

    def __init__(self) -> None:
        self.names: Dict[str, str] = {}

    def __call__(self, s: str) -> str:
        name = self.names.get(s)
        if name is None:
            name = f"s{len(self.names)}"
            self.names[s] = name
        return name

    def header(self) -> str:
        return "\n".join(f"Definition {n} : text := {ctext(s)}." for s, n in self.names.items()) + "\n"


def clist(items: Iterable[str]) -> str:
    return "[" + "; ".join(items) + "]"


def cty(t: Any, ctext: Callable[[str], str] = ctext) -> str:
    if isinstance(t, TPrim):
        return f"(TPrim {ctext(t.name)})"
    if isinstance(t, TOur):
        return f"(TOur {ctext(t.name)})"
    if isinstance(t, TList):
        return f"(TList {cty(t.items, ctext)})"
    if isinstance(t, TOpt):
        return f"(TOpt {cty(t.value, ctext)})"
    raise TypeError(t)


def _refs_of(doc: Optional[Doc], ctx: Optional[str], sig: Optional[List[str]],
             ctext: Callable[[str], str] = ctext) -> List[str]:
    out: List[str] = []
    if doc is None:
        return out
    for role, target in doc.refs:
        if role == "class":
            out.append(f"RType {ctext(target)}")
        elif role == "const":
            out.append(f"RConst {ctext(target)}")
        elif role == "constraintref":
            out.append(f"RConstraint {ctext(target)}")
        elif role == "paramref":
            s = "None" if sig is None else f"(Some {clist(ctext(a) for a in sig)})"
            out.append(f"RParam {ctext(target)} {s}")
        elif role == "attr":
            parts = target.split(".")
            if len(parts) == 1:
                owner = "None" if ctx is None else f"(Some {ctext(ctx)})"
                out.append(f"RAttr {owner} {ctext(parts[0])}")
            elif len(parts) == 2:
                out.append(f"RAttr (Some {ctext(parts[0])}) {ctext(parts[1])}")
            else:  # the front end does not resolve longer paths
                out.append(f"RAttr None {ctext(target)}")
        else:
            raise ValueError(f"unknown documentation role {role!r}")
    return out


def _constraints_of(doc: Optional[Doc]) -> List[str]:
    return [] if doc is None else [ident for ident, _ in doc.constraints]


def mm_to_coq(mm: MetaModel, ctext: Callable[[str], str] = ctext) -> str:
    """The abstract meta-model as a term of type ``Rules.mm``; ``ctext`` prints a string
    (directly, or through an ``Interner``)."""
    _ty = lambda t: cty(t, ctext)  # noqa: E731
    _refs = lambda d, c, sg: _refs_of(d, c, sg, ctext)  # noqa: E731
    refs: List[str] = []
    cids: List[str] = []
    refs += _refs(mm.doc, None, None)
    cids += _constraints_of(mm.doc)
    enums = []
    for e in mm.enumerations:
        enums.append(f"mkEnum {ctext(e.name)} {clist(ctext(l.name) for l in e.literals)}")
        refs += _refs(e.doc, e.name, None)
        cids += _constraints_of(e.doc)
        for lit in e.literals:
            refs += _refs(lit.doc, e.name, None)
    cprims = []
    for cp in mm.constrained_primitives:
        cprims.append(f"mkCprim {ctext(cp.name)} {clist(ctext(b) for b in cp.bases)} "
                      f"{clist(ctext(i.description) for i in cp.invariants)}")
        refs += _refs(cp.doc, cp.name, None)
        cids += _constraints_of(cp.doc)
    classes = []
    for c in mm.classes:
        ctor = mmg.ctor_of(mm, c)
        if ctor is None:
            cctor = "None"
        else:
            args = []
            for a in ctor.args:
                d = "NoDefault" if a.default is None else ("DefaultNone" if a.default.strip() == "None"
                                                           else "DefaultOther")
                args.append(f"mkArg {ctext(a.name)} {_ty(a.type)} {d}")
            cctor = f"(Some {clist(args)})"
        props = clist(f"mkProp {ctext(p.name)} {_ty(p.type)}" for p in c.properties)
        classes.append(f"mkCls {ctext(c.name)} {clist(ctext(b) for b in c.bases)} {props} "
                       f"{clist(ctext(m.name) for m in c.methods)} "
                       f"{clist(ctext(i.description) for i in c.invariants)} {cctor}")
        refs += _refs(c.doc, c.name, None)
        cids += _constraints_of(c.doc)
        for p in c.properties:
            refs += _refs(p.doc, c.name, None)
            cids += _constraints_of(p.doc)
        for m in c.methods:
            refs += _refs(m.doc, c.name, [])
    consts = []
    for k in mm.constants:
        consts.append(ctext(k.name))
        refs += _refs(k.doc, None, None)
    funs = []
    for f in mm.verification_functions:
        pat = "None" if f.kind != "pattern" or f.pattern is None else f"(Some {ctext(f.pattern)})"
        funs.append(f"mkFun {ctext(f.name)} {pat}")
        refs += _refs(f.doc, None, [n for n, _ in f.args])
    return (f"(mkMM {clist(enums)}\n {clist(cprims)}\n {clist(classes)}\n {clist(consts)}\n {clist(funs)}\n "
            f"{clist(ctext(i) for i in cids)}\n {clist(refs)})")


# =====================================================================================
# Additional mutation operators. Each returns a list of mutants (one per site / variant).
# =====================================================================================
def _finish(rule: str, mm: MetaModel, note: str) -> Mutant:
    return Mutant(rule=rule, mm=mm, text=mmg.render_source(mm), note=note)


def _fresh(mm: MetaModel, rng: random.Random, prefix: str) -> str:
    return mmg._fresh_word(mm, rng, prefix)  # noqa: shared helper of the generator


def _case_variant(name: str, rng: random.Random) -> str:
    r = rng.random()
    if r < 0.5:
        return name
    if r < 0.8:
        return name[:1].upper() + name[1:]
    return name.upper()


def _leafs(mm: MetaModel) -> List[Class]:
    with_kids = {b for c in mm.classes for b in c.bases}
    return [c for c in mm.classes if c.name not in with_kids and not c.is_implementation_specific]


def op_reserved(mm0: MetaModel, rng: random.Random, reserved: Dict[str, Any], per_kind: int = 2) -> List[Mutant]:
    """A reserved name at every kind of site, names drawn from the *translated* lists."""
    out: List[Mutant] = []
    rt, rm = reserved["type_names"], reserved["member_names"]
    w = rng.choice(mmg._safe_words())

    def type_names() -> List[str]:
        names = [_case_variant(rng.choice(rt), rng) for _ in range(per_kind)]
        names.append(rng.choice(reserved["type_prefixes"]) + w.capitalize())
        return names

    def member_names(prefixes: Sequence[str]) -> List[str]:
        names = [_case_variant(rng.choice(rm), rng) for _ in range(per_kind)]
        p = rng.choice(list(prefixes))
        names.append(rng.choice([p + "_" + w, p.capitalize() + w.capitalize()]))
        return names

    for name in type_names():
        mm = copy.deepcopy(mm0)
        if name in mm.our_type_names():
            continue
        kind = rng.choice(["class", "enum"])
        if kind == "class":
            mm.classes.append(Class(name=name, doc=Doc("Represent something reserved.")))
        else:
            mm.enumerations.append(Enumeration(name=name, literals=[EnumLiteral("Some_literal", "some-literal")],
                                               doc=Doc("Enumerate something reserved.")))
        out.append(_finish("reserved_type_name", mm, f"{kind} {name} has a reserved name"))
    leafs = _leafs(mm0)
    if leafs:
        for name in member_names(reserved["prop_prefixes"]):
            mm = copy.deepcopy(mm0)
            c = mm.find_class(rng.choice(leafs).name)
            if any(p.name == name for p, _ in mmg.stacked_properties(mm, c)):
                continue
            c.properties.append(Property(name, TOpt(TPrim("str"))))
            out.append(_finish("reserved_property_name", mm, f"property {c.name}.{name} has a reserved name"))
        over = reserved["over_prefix"]
        extra = [rng.choice([f"{over}_{w}_{s}" for s in reserved["over_suffixes"]]
                            + [f"{over.capitalize()}{w.capitalize()}{s.title().replace('_', '')}"
                               for s in reserved["over_suffixes"]])]
        for name in member_names(reserved["method_prefixes"]) + extra:
            mm = copy.deepcopy(mm0)
            c = mm.find_class(rng.choice(leafs).name)
            if any(m.name == name for m in c.methods):
                continue
            c.methods.append(Method(name, TPrim("bool"), Doc("Compute something.")))
            out.append(_finish("reserved_method_name", mm, f"method {c.name}.{name} has a reserved name"))
    for name in [_case_variant(rng.choice(rng.choice([rt, rm])), rng) for _ in range(per_kind)]:
        mm = copy.deepcopy(mm0)
        if mm.find_constant(name) is not None:
            continue
        mm.constants.insert(0, ConstantPrimitive(name, "str", "reserved"))
        out.append(_finish("reserved_constant_name", mm, f"constant {name} has a reserved name"))
    for name in [_case_variant(rng.choice(rng.choice([rt, rm])), rng) for _ in range(per_kind)]:
        mm = copy.deepcopy(mm0)
        if mm.find_function(name) is not None:
            continue
        mm.verification_functions.append(VerificationFunction(
            name=name, kind="pattern", args=[("text", TPrim("str"))], pattern="^x$", pattern_style=0))
        out.append(_finish("reserved_function_name", mm, f"verification function {name} has a reserved name"))
    return out


def op_duplicates(mm0: MetaModel, rng: random.Random) -> List[Mutant]:
    out: List[Mutant] = []
    if mm0.constants:
        mm = copy.deepcopy(mm0)
        k = rng.choice([c for c in mm.constants])
        mm.constants.insert(0, ConstantPrimitive(k.name, "str", "duplicate"))
        out.append(_finish("duplicate_constant_name", mm, f"constant {k.name} declared twice"))
    if mm0.verification_functions:
        mm = copy.deepcopy(mm0)
        f = rng.choice(mm.verification_functions)
        mm.verification_functions.append(VerificationFunction(
            name=f.name, kind="pattern", args=[("text", TPrim("str"))], pattern="^x$", pattern_style=0))
        out.append(_finish("duplicate_function_name", mm, f"verification function {f.name} declared twice"))
    leafs = _leafs(mm0)
    if leafs:
        mm = copy.deepcopy(mm0)
        c = mm.find_class(rng.choice(leafs).name)
        name = c.methods[0].name if c.methods else _fresh(mm, rng, "compute").lower()
        while sum(1 for m in c.methods if m.name == name) < 2:
            c.methods.append(Method(name, TPrim("bool"), Doc("Compute something.")))
        out.append(_finish("duplicate_method", mm, f"method {c.name}.{name} declared twice"))
    enums = [e for e in mm0.enumerations if e.literals]
    if enums:
        mm = copy.deepcopy(mm0)
        e = mm.find_enum(rng.choice(enums).name)
        lit = rng.choice(e.literals)
        e.literals.append(EnumLiteral(lit.name, lit.value + "-dup"))
        out.append(_finish("duplicate_enum_literal", mm, f"literal {e.name}.{lit.name} declared twice"))
    names = mm0.our_type_names()
    if names:
        mm = copy.deepcopy(mm0)
        name = rng.choice(names)
        mm.enumerations.append(Enumeration(name=name, literals=[EnumLiteral("Some_literal", "some-literal")],
                                           doc=Doc("Enumerate a duplicate.")))
        out.append(_finish("duplicate_type_name", mm, f"an enumeration with the name of the existing type {name}"))
    return out


def op_hierarchy(mm0: MetaModel, rng: random.Random) -> List[Mutant]:
    out: List[Mutant] = []
    # every class once as the start of a cycle through one of its descendants (or itself)
    tops = list(mm0.classes)
    rng.shuffle(tops)
    for top0 in tops[:4]:
        mm = copy.deepcopy(mm0)
        top = mm.find_class(top0.name)
        desc = mmg.descendants(mm, top)
        if desc:
            bottom = rng.choice(desc)
            top.bases.append(bottom.name)
            out.append(_finish("cyclic_base", mm, f"{top.name} inherits from its descendant {bottom.name}"))
        else:
            top.bases.append(top.name)
            out.append(_finish("cyclic_base", mm, f"{top.name} inherits from itself"))
    if mm0.classes and mm0.enumerations:
        mm = copy.deepcopy(mm0)
        c = rng.choice(mm.classes)
        e = rng.choice(mm.enumerations)
        c.bases.append(e.name)
        out.append(_finish("base_is_not_a_class", mm, f"{c.name} inherits from the enumeration {e.name}"))
    return out


def op_redeclared_method(mm0: MetaModel, rng: random.Random) -> List[Mutant]:
    """A method of a parent declared again in a child. Only single-inheritance chains are
    used so that the base line (method on the parent only) stays a valid model."""
    pairs = []
    for c in mm0.classes:
        if len(c.bases) == 1 and not c.is_implementation_specific:
            p = mm0.find_class(c.bases[0])
            if p is not None and len(p.bases) <= 1 and not p.is_implementation_specific:
                kids = [d for d in mmg.descendants(mm0, p)]
                if all(len(d.bases) == 1 for d in kids):
                    pairs.append((p.name, c.name))
    if not pairs:
        return []
    mm = copy.deepcopy(mm0)
    pn, cn = rng.choice(pairs)
    name = _fresh(mm, rng, "compute").lower()
    mm.find_class(pn).methods.append(Method(name, TPrim("bool"), Doc("Compute something.")))
    mm.find_class(cn).methods.append(Method(name, TPrim("bool"), Doc("Compute something again.")))
    return [_finish("redeclared_inherited_method", mm, f"{cn} re-declares the method {name} of {pn}")]


_DEFAULT_LITERAL = {"int": "1", "str": '""', "bool": "True", "float": "1.5"}


def op_ctor(mm0: MetaModel, rng: random.Random) -> List[Mutant]:
    out: List[Mutant] = []
    cands = mmg._leaf_classes_with_ctor(mm0)  # noqa
    rng.shuffle(cands)
    # optional argument with a default other than None
    for c0 in cands:
        mm = copy.deepcopy(mm0)
        c = mm.find_class(c0.name)
        ctor = mmg.derive_ctor(mm, c)
        sites = [a for a in ctor.args if isinstance(a.type, TOpt) and isinstance(a.type.value, TPrim)
                 and a.type.value.name in _DEFAULT_LITERAL]
        if not sites:
            continue
        a = rng.choice(sites)
        a.default = _DEFAULT_LITERAL[a.type.value.name]
        c.ctor_override = ctor
        out.append(_finish("optional_arg_default_not_none", mm,
                           f"constructor of {c.name}: {a.name} defaults to {a.default}"))
        break
    # required property, optional argument
    for c0 in cands:
        mm = copy.deepcopy(mm0)
        c = mm.find_class(c0.name)
        ctor = mmg.derive_ctor(mm, c)
        sites = [i for i, a in enumerate(ctor.args) if not isinstance(a.type, TOpt)]
        if not sites:
            continue
        i = sites[-1]  # the last required one, so that the argument list stays valid Python
        ctor.args[i].type = TOpt(ctor.args[i].type)
        ctor.args[i].default = "None"
        c.ctor_override = ctor
        out.append(_finish("ctor_arg_optionalised", mm,
                           f"constructor of {c.name}: argument {ctor.args[i].name} made optional"))
        break
    # every adjacent pair of same-group arguments swapped (site-exhaustive on one class)
    for c0 in cands[:2]:
        ctor0 = mmg.derive_ctor(mm0, c0)
        for i in range(len(ctor0.args) - 1):
            if (ctor0.args[i].default is None) != (ctor0.args[i + 1].default is None):
                continue
            mm = copy.deepcopy(mm0)
            c = mm.find_class(c0.name)
            ctor = mmg.derive_ctor(mm, c)
            ctor.args[i], ctor.args[i + 1] = ctor.args[i + 1], ctor.args[i]
            c.ctor_override = ctor
            out.append(_finish("ctor_arg_reordered", mm,
                               f"constructor of {c.name}: {ctor.args[i].name} and {ctor.args[i + 1].name} swapped"))
    return out


def _wraps(t: Any) -> List[Tuple[str, Any]]:
    """Unsupported shapes derived from the type of a property."""
    inner = mmg.beneath_optional(t)
    base = inner.items if isinstance(inner, TList) else inner
    opt = isinstance(t, TOpt)

    def keep(x: Any) -> Any:
        return TOpt(x) if opt else x

    return [
        ("nested_optional", TOpt(TOpt(inner))),
        ("list_of_optional", keep(TList(TOpt(base)))),
        ("deep_list_of_optional", keep(TList(TList(TOpt(base))))),
        ("deep_nested_optional", keep(TList(TList(TOpt(TOpt(base)))))),
        ("list_of_nested_optional", keep(TList(TOpt(TOpt(base))))),
    ]


def op_shapes(mm0: MetaModel, rng: random.Random, max_sites: int = 2) -> List[Mutant]:
    out: List[Mutant] = []
    sites = [(c.name, i) for c in mm0.classes if not c.is_implementation_specific
             for i, _ in enumerate(c.properties)]
    rng.shuffle(sites)
    for cname, i in sites[:max_sites]:
        for rule, new in _wraps(mm0.find_class(cname).properties[i].type):
            mm = copy.deepcopy(mm0)
            p = mm.find_class(cname).properties[i]
            old = p.type
            p.type = new
            # keep the invariants of the base line out of the picture: they were typed for the old shape
            out.append(_finish(rule, mm, f"{cname}.{p.name}: {mmg.type_str(old)} -> {mmg.type_str(new)}"))
    return out


def op_invariants(mm0: MetaModel, rng: random.Random) -> List[Mutant]:
    out: List[Mutant] = []
    # same description in a class and in one of its ancestors
    pairs = []
    for c in mm0.classes:
        for a in mmg.ancestors(mm0, c):
            if a.invariants:
                pairs.append((c.name, a.name))
    far = [(c.name, a.name) for c in mm0.classes for a in mmg.ancestors(mm0, c)
           if a.invariants and a.name not in c.bases]
    for choice in ([rng.choice(pairs)] if pairs else []) + ([rng.choice(far)] if far else []):
        mm = copy.deepcopy(mm0)
        cn, an = choice
        inv = rng.choice(mm.find_class(an).invariants)
        mm.find_class(cn).invariants.append(
            Invariant(inv.description, inv.body, inv.form, dict(inv.meta), inv.source_override))
        out.append(_finish("duplicate_inherited_invariant_description", mm,
                           f"{cn} repeats the description {inv.description!r} of its ancestor {an}"))
    cp_pairs = [(cp.name, b) for cp in mm0.constrained_primitives for b in cp.bases
                if mm0.find_cprim(b) is not None and mm0.find_cprim(b).invariants]
    if cp_pairs:
        mm = copy.deepcopy(mm0)
        cn, bn = rng.choice(cp_pairs)
        inv = rng.choice(mm.find_cprim(bn).invariants)
        mm.find_cprim(cn).invariants.append(
            Invariant(inv.description, inv.body, inv.form, dict(inv.meta), inv.source_override))
        out.append(_finish("duplicate_inherited_invariant_description", mm,
                           f"{cn} repeats the description {inv.description!r} of its base {bn}"))
    # every holder once: the first description repeated at the end
    holders = [("class", c.name) for c in mm0.classes if c.invariants] + \
              [("cprim", c.name) for c in mm0.constrained_primitives if c.invariants]
    rng.shuffle(holders)
    for kind, name in holders[:3]:
        mm = copy.deepcopy(mm0)
        h = mm.find_class(name) if kind == "class" else mm.find_cprim(name)
        inv = h.invariants[0]
        h.invariants.append(Invariant(inv.description, inv.body, inv.form, dict(inv.meta), inv.source_override))
        out.append(_finish("duplicate_invariant_description", mm, f"{name}: {inv.description!r} used twice"))
    return out


def _doc_sites(mm: MetaModel) -> List[Tuple[str, Callable[[MetaModel], Any]]]:
    """(label, getter of the documented thing) for every thing that can carry a docstring."""
    sites: List[Tuple[str, Callable[[MetaModel], Any]]] = []
    for i, c in enumerate(mm.classes):
        sites.append((f"class:{c.name}", lambda m, i=i: m.classes[i]))
        for j, p in enumerate(c.properties):
            sites.append((f"property:{c.name}.{p.name}", lambda m, i=i, j=j: m.classes[i].properties[j]))
    for i, e in enumerate(mm.enumerations):
        sites.append((f"enum:{e.name}", lambda m, i=i: m.enumerations[i]))
    for i, cp in enumerate(mm.constrained_primitives):
        sites.append((f"cprim:{cp.name}", lambda m, i=i: m.constrained_primitives[i]))
    for i, f in enumerate(mm.verification_functions):
        sites.append((f"function:{f.name}", lambda m, i=i: m.verification_functions[i]))
    return sites


def op_doc_refs(mm0: MetaModel, rng: random.Random, n: int = 6) -> List[Mutant]:
    out: List[Mutant] = []
    sites = _doc_sites(mm0)
    if not sites:
        return out
    for _ in range(n):
        label, get = rng.choice(sites)
        mm = copy.deepcopy(mm0)
        thing = get(mm)
        if thing.doc is None:
            lead = {"class": "Represent", "property": "Hold", "enum": "Enumerate", "cprim": "Constrain",
                    "function": "Check"}[label.split(":")[0]]
            thing.doc = Doc(f"{lead} something.")
        ghost = _fresh(mm, rng, "Ghost")
        kind = label.split(":")[0]
        variants: List[Tuple[str, str, str]] = [
            ("class", ghost, "dangling_class_reference"),
            ("const", ghost, "dangling_constant_reference"),
            ("constraintref", "GHOST-" + ghost, "dangling_constraint_reference"),
            ("attr", f"{ghost}.{ghost.lower()}", "dangling_attribute_reference"),
        ]
        if mm.classes:
            variants.append(("attr", f"{rng.choice(mm.classes).name}.{ghost.lower()}", "dangling_attribute_reference"))
        if mm.enumerations:
            variants.append(("attr", f"{rng.choice(mm.enumerations).name}.{ghost}", "dangling_literal_reference"))
        if mm.constrained_primitives:
            variants.append(("attr", f"{rng.choice(mm.constrained_primitives).name}.{ghost.lower()}",
                             "attribute_of_constrained_primitive"))
        if kind in ("class", "property", "enum"):
            variants.append(("attr", ghost.lower(), "dangling_attribute_reference"))
        if kind == "function":
            variants.append(("attr", ghost.lower(), "attribute_reference_without_context"))
            variants.append(("paramref", ghost.lower(), "dangling_parameter_reference"))
        else:
            variants.append(("paramref", ghost.lower(), "parameter_reference_outside_signature"))
        role, target, rule = rng.choice(variants)
        thing.doc.refs.append((role, target))
        thing.doc.remarks.append(f"See :{role}:`{target}` for more.")
        out.append(_finish(rule, mm, f"{label}: docstring refers to :{role}:`{target}`"))
    return out


def op_patterns(mm0: MetaModel, rng: random.Random) -> List[Mutant]:
    """Every pattern function: without ``^``, without ``$``, empty."""
    out: List[Mutant] = []
    idx = [i for i, f in enumerate(mm0.verification_functions) if f.kind == "pattern" and f.pattern]
    if not idx:
        m = mmg.mutate(mm0, rng, "pattern_without_anchor")
        return [m] if m is not None else []
    for i in idx:
        old = mm0.verification_functions[i].pattern
        for rule, new in (("pattern_without_caret", old[1:] if old.startswith("^") else None),
                          ("pattern_without_dollar", old[:-1] if old.endswith("$") else None),
                          ("empty_pattern", "")):
            if new is None or (new == "" and rule != "empty_pattern"):
                continue
            mm = copy.deepcopy(mm0)
            f = mm.verification_functions[i]
            f.pattern = new
            f.pattern_style = rng.choice([0, 1])
            out.append(_finish(rule, mm, f"{f.name}: {old!r} -> {new!r}"))
    return out



# -------------------------------------------------------------------------------------
# Self-contained inheritance gadgets (fresh classes appended to the model): the rules about
# *stacked* members and invariants need particular hierarchy shapes (two unrelated parents,
# grandparent, diamond) that a random model does not always contain. Every family comes
# with its control (rule "valid_control:…", predicted to satisfy the rules).
# -------------------------------------------------------------------------------------
def _g_class(name: str, bases: Sequence[str] = (), prop: Optional[str] = None, desc: Optional[str] = None,
             inv_prop: Optional[str] = None, method: Optional[str] = None, abstract: bool = True) -> Class:
    invs = []
    if desc is not None:
        target = inv_prop if inv_prop is not None else prop
        invs.append(Invariant(desc, mmg.Const(True), "custom", {}, f"len(self.{target}) > 0"))
    return Class(name=name, is_abstract=abstract, bases=list(bases),
                 properties=[Property(prop, TPrim("str"))] if prop else [], invariants=invs,
                 methods=[Method(method, TPrim("bool"), Doc("Compute something."))] if method else [],
                 with_model_type=True if abstract and not bases else None,
                 doc=Doc(f"Represent the gadget {name.lower().replace('_', ' ')}."))


def op_inheritance_gadgets(mm0: MetaModel, rng: random.Random) -> List[Mutant]:
    out: List[Mutant] = []
    base = _fresh(mm0, rng, "Ghost")
    A, B, C, D = (f"{base}_{x}" for x in "abcd")
    pw = _fresh(mm0, rng, "ghost").lower()
    px, py = pw + "_x", pw + "_y"
    m1, m2 = "compute_" + pw, "render_" + pw
    da, db = f"Gadget {base}: the first shall hold", f"Gadget {base}: the second shall hold"

    def emit(rule: str, classes: List[Class], note: str) -> None:
        mm = copy.deepcopy(mm0)
        mm.classes.extend(classes)
        out.append(_finish(rule, mm, note))

    def single_arg_ctor(parents: Sequence[str], arg: str) -> mmg.Ctor:
        return mmg.Ctor(args=[mmg.CtorArg(arg, TPrim("str"), None)],
                        body=[("super", p, [arg]) for p in parents])

    # --- two unrelated parents -----------------------------------------------------
    def two(pa: str, pb: str, desc_a: str, desc_b: str, ma: Optional[str], mb: Optional[str]) -> List[Class]:
        child = _g_class(C, bases=[A, B], abstract=False)
        if pa == pb:
            child.ctor_override = single_arg_ctor([A, B], pa)
        return [_g_class(A, prop=pa, desc=desc_a, method=ma), _g_class(B, prop=pb, desc=desc_b, method=mb), child]

    emit("valid_control:two_unrelated_parents", two(px, py, da, db, m1, m2),
         f"control: {C} inherits from the unrelated {A} and {B} (different members and descriptions)")
    emit("invariant_description_from_two_parents", two(px, py, da, da, None, None),
         f"{C} inherits invariants with the same description {da!r} from the unrelated parents {A} and {B}")
    emit("property_from_two_parents", two(px, px, da, db, None, None),
         f"{C} inherits a property {px} from each of the unrelated parents {A} and {B}")
    emit("method_from_two_parents", two(px, py, da, db, m1, m1),
         f"{C} inherits a method {m1} from each of the unrelated parents {A} and {B}")

    # --- grandparent / parent / child chain ---------------------------------------------
    def chain(child_desc: Optional[str], child_prop: Optional[str], child_method: Optional[str],
              mid_desc: Optional[str] = None) -> List[Class]:
        top = _g_class(A, prop=px, desc=da, method=m1)
        mid = _g_class(B, bases=[A], desc=mid_desc, inv_prop=px)
        bottom = _g_class(C, bases=[B], prop=child_prop, desc=child_desc, inv_prop=px, method=child_method,
                          abstract=False)
        if child_prop == px:
            bottom.ctor_override = mmg.Ctor(args=[mmg.CtorArg(px, TPrim("str"), None)],
                                            body=[("super", B, [px]), ("assign", px, px)])
        return [top, mid, bottom]

    emit("valid_control:grandparent_chain", chain(db, py, m2),
         f"control: {C} < {B} < {A} with different members and descriptions")
    emit("invariant_description_of_grandparent", chain(da, None, None),
         f"{C} repeats the description {da!r} of its grandparent {A}")
    emit("invariant_description_of_parent", chain(db, None, None, mid_desc=db),
         f"{C} repeats the description {db!r} of its parent {B}")
    emit("redeclared_property_of_grandparent", chain(None, px, None),
         f"{C} re-declares the property {px} of its grandparent {A}")
    emit("redeclared_method_of_grandparent", chain(None, None, m1),
         f"{C} re-declares the method {m1} of its grandparent {A}")

    # --- diamond -----------------------------------------------------------------
    def diamond(left_desc: Optional[str], right_desc: Optional[str], top_method: Optional[str] = None) -> List[Class]:
        return [_g_class(A, prop=px, desc=da, method=top_method),
                _g_class(B, bases=[A], desc=left_desc, inv_prop=px),
                _g_class(C, bases=[A], desc=right_desc, inv_prop=px),
                _g_class(D, bases=[B, C], abstract=False)]

    emit("valid_control:diamond", diamond(None, db),
         f"control: the invariant and the property of {A} reach {D} along two paths (counted once)")
    emit("invariant_description_from_two_related_parents", diamond(db, db),
         f"{D} inherits different invariants with the same description {db!r} from {B} and {C}")
    emit("method_along_two_paths", diamond(None, None, top_method=m1),
         f"{D} inherits the method {m1} of {A} along two paths")
    return out



# -------------------------------------------------------------------------------------
# Name clashes across all pairs of kinds of top-level names
# -------------------------------------------------------------------------------------
_KINDS = ("class", "enumeration", "constrained_primitive", "constant", "constant_set", "function")


def _names_of_kind(mm: MetaModel, kind: str) -> List[str]:
    if kind == "class":
        return [c.name for c in mm.classes]
    if kind == "enumeration":
        return [e.name for e in mm.enumerations]
    if kind == "constrained_primitive":
        return [c.name for c in mm.constrained_primitives]
    if kind == "constant":
        return [c.name for c in mm.constants if isinstance(c, ConstantPrimitive)]
    if kind == "constant_set":
        return [c.name for c in mm.constants if isinstance(c, mmg.ConstantSet)]
    return [f.name for f in mm.verification_functions]


def _add_of_kind(mm: MetaModel, kind: str, name: str) -> None:
    if kind == "class":
        mm.classes.append(Class(name=name, doc=Doc("Represent a clash.")))
    elif kind == "enumeration":
        mm.enumerations.append(Enumeration(name=name, literals=[EnumLiteral("Some_literal", "some-literal")],
                                           doc=Doc("Enumerate a clash.")))
    elif kind == "constrained_primitive":
        mm.constrained_primitives.append(mmg.ConstrainedPrimitive(name=name, constrainee="str",
                                                                  doc=Doc("Constrain a clash.")))
    elif kind == "constant":
        mm.constants.append(ConstantPrimitive(name, "str", "clash"))
    elif kind == "constant_set":
        mm.constants.append(mmg.ConstantSet(name, "str", ["clash"]))
    else:
        mm.verification_functions.append(VerificationFunction(
            name=name, kind="pattern", args=[("text", TPrim("str"))], pattern="^x$", pattern_style=0))


def op_cross_kind_names(mm0: MetaModel, rng: random.Random) -> List[Mutant]:
    """Every unordered pair of kinds: a new thing of one kind named like an existing thing of
    the other kind (both orientations when possible, one chosen at random). With the control:
    one fresh thing of every kind, all differently named."""
    out: List[Mutant] = []
    mm = copy.deepcopy(mm0)
    base = _fresh(mm, rng, "Fresh")
    for k in _KINDS:
        _add_of_kind(mm, k, f"{base}_{k}")
    out.append(_finish("valid_control:fresh_thing_of_every_kind", mm, "control: one more thing of every kind"))
    host = mm   # the control has a thing of every kind, so every pair of kinds has a site in every model
    for i, ka in enumerate(_KINDS):
        for kb in _KINDS[i + 1:]:
            existing, added = rng.choice([(ka, kb), (kb, ka)])
            name = rng.choice(_names_of_kind(host, existing))
            mm = copy.deepcopy(host)
            _add_of_kind(mm, added, name)
            out.append(_finish(f"name_clash:{min(ka, kb)}+{max(ka, kb)}", mm,
                               f"a new {added} is named like the existing {existing} {name}"))
    return out


# -------------------------------------------------------------------------------------
# Constructor argument type versus property type, every shape
# -------------------------------------------------------------------------------------
def _retypings(t: Any) -> List[Tuple[str, Any]]:
    out: List[Tuple[str, Any]] = []
    if isinstance(t, TOpt):
        out.append(("optional_property_mandatory_argument", t.value))
        if isinstance(t.value, TList):
            out.append(("optional_list_property_list_argument", t.value))
            out.append(("optional_list_item_changed", TOpt(TList(mmg._other_type(t.value.items)))))  # noqa
        else:
            out.append(("optional_base_changed", TOpt(mmg._other_type(t.value))))  # noqa
    else:
        out.append(("mandatory_property_optional_argument", TOpt(t)))
        if isinstance(t, TList):
            out.append(("list_property_item_argument", t.items))
            out.append(("list_property_optional_list_argument", TOpt(t)))
            out.append(("list_item_changed", TList(mmg._other_type(t.items))))  # noqa
        else:
            out.append(("scalar_property_list_argument", TList(t)))
            out.append(("base_changed", mmg._other_type(t)))  # noqa
    seen = set()
    uniq = []
    for rule, new in out:
        if (rule, new) not in seen and new != t:
            seen.add((rule, new))
            uniq.append((rule, new))
    return uniq


def _retyped_ctor(mm: MetaModel, c: Class, arg_name: str, new_type: Any) -> mmg.Ctor:
    """The derived constructor with one argument re-typed; the default follows the new type and the
    arguments are put back into the order of the properties within the two groups, so that the
    mutant breaks only the type rule (and stays valid Python)."""
    ctor = mmg.derive_ctor(mm, c)
    order = {p.name: i for i, (p, _) in enumerate(mmg.stacked_properties(mm, c))}
    for a in ctor.args:
        if a.name == arg_name:
            a.type = new_type
            a.default = "None" if isinstance(new_type, TOpt) else None
    req = sorted([a for a in ctor.args if a.default is None], key=lambda a: order[a.name])
    opt = sorted([a for a in ctor.args if a.default is not None], key=lambda a: order[a.name])
    ctor.args[:] = req + opt
    return ctor


def op_ctor_types(mm0: MetaModel, rng: random.Random) -> List[Mutant]:
    out: List[Mutant] = []
    # a gadget class with a property of every shape, so that every re-typing has a site in every model
    base = _fresh(mm0, rng, "Shapes")
    item, holder = f"{base}_item", f"{base}_holder"
    w = _fresh(mm0, rng, "shape").lower()
    gadget = [
        Class(name=item, properties=[Property(w + "_amount", TPrim("int"))], doc=Doc("Represent an item.")),
        Class(name=holder, doc=Doc("Represent a holder of every shape."), properties=[
            Property(w + "_a", TPrim("str")), Property(w + "_b", TOpt(TPrim("str"))),
            Property(w + "_c", TList(TOur(item))), Property(w + "_d", TOpt(TList(TOur(item)))),
            Property(w + "_e", TOur(item)), Property(w + "_f", TOpt(TOur(item)))]),
    ]
    host = copy.deepcopy(mm0)
    host.classes.extend(gadget)
    out.append(_finish("valid_control:properties_of_every_shape", host, f"control: {holder} with a property of every shape"))
    for p in gadget[1].properties:
        for rule, new in _retypings(p.type):
            mm = copy.deepcopy(host)
            c = mm.find_class(holder)
            c.ctor_override = _retyped_ctor(mm, c, p.name, new)
            out.append(_finish(f"ctor_type:{rule}", mm,
                               f"constructor of {holder}: {p.name}: {mmg.type_str(new)} for the property typed "
                               f"{mmg.type_str(p.type)}"))
    # the same on one generated leaf class (own properties)
    cands = [c for c in mmg._leaf_classes_with_ctor(mm0) if c.properties]  # noqa
    if cands:
        c0 = rng.choice(cands)
        for p in c0.properties:
            options = _retypings(p.type)
            rule, new = rng.choice(options)
            mm = copy.deepcopy(mm0)
            c = mm.find_class(c0.name)
            c.ctor_override = _retyped_ctor(mm, c, p.name, new)
            out.append(_finish(f"ctor_type:{rule}", mm,
                               f"constructor of {c.name}: {p.name}: {mmg.type_str(new)} for the property typed "
                               f"{mmg.type_str(p.type)}"))
    return out


def all_mutants(mm: MetaModel, rng: random.Random, reserved: Dict[str, Any], repeats: int = 2) -> List[Mutant]:
    """mmgen's 18 operators (``repeats`` random sites each) plus the operators above;
    duplicates (same text) removed, the valid text itself never returned."""
    out: List[Mutant] = []
    for rule in mmg.MUTATIONS:
        for _ in range(repeats):
            m = mmg.mutate(mm, random.Random(rng.getrandbits(64)), rule)
            if m is not None:
                out.append(m)
    sub = lambda: random.Random(rng.getrandbits(64))  # noqa: E731
    out += op_reserved(mm, sub(), reserved)
    out += op_duplicates(mm, sub())
    out += op_hierarchy(mm, sub())
    out += op_redeclared_method(mm, sub())
    out += op_ctor(mm, sub())
    out += op_shapes(mm, sub())
    out += op_invariants(mm, sub())
    out += op_doc_refs(mm, sub())
    out += op_patterns(mm, sub())
    out += op_inheritance_gadgets(mm, sub())
    out += op_cross_kind_names(mm, sub())
    out += op_ctor_types(mm, sub())
    base = mmg.render_source(mm)
    seen = {base}
    uniq = []
    for m in out:
        if m.text in seen:
            continue
        seen.add(m.text)
        uniq.append(m)
    return uniq
