(** Induction principle for the nested expression type of [Model/Tree.v]. *)
From Coq Require Import List NArith ZArith Bool.
From Acg Require Import Base.Str Model.Tree.
Import ListNotations.

Definition gen_all (P : expr -> Prop) (g : gen expr) : Prop :=
  match g with ForEach i => P i | ForRange a b => P a /\ P b end.

Definition jpart_all (P : expr -> Prop) (p : jpart expr) : Prop :=
  match p with JLit _ => True | JFmt e => P e end.

Section ExprInd.
  Variable P : expr -> Prop.
  Hypothesis HMember : forall i n, P i -> P (Member i n).
  Hypothesis HName : forall x, P (Name x).
  Hypothesis HConstant : forall c, P (Constant c).
  Hypothesis HIndex : forall c i, P c -> P i -> P (Index c i).
  Hypothesis HComparison : forall op l r, P l -> P r -> P (Comparison op l r).
  Hypothesis HIsIn : forall m c, P m -> P c -> P (IsIn m c).
  Hypothesis HIsNone : forall v, P v -> P (IsNone v).
  Hypothesis HIsNotNone : forall v, P v -> P (IsNotNone v).
  Hypothesis HNot : forall e, P e -> P (Not e).
  Hypothesis HAnd : forall vs, Forall P vs -> P (And vs).
  Hypothesis HOr : forall vs, Forall P vs -> P (Or vs).
  Hypothesis HImplication : forall a c, P a -> P c -> P (Implication a c).
  Hypothesis HFunctionCall : forall f args, Forall P args -> P (FunctionCall f args).
  Hypothesis HMethodCall : forall i m args, P i -> Forall P args -> P (MethodCall i m args).
  Hypothesis HAdd : forall l r, P l -> P r -> P (Add l r).
  Hypothesis HSub : forall l r, P l -> P r -> P (Sub l r).
  Hypothesis HAny : forall x g c, gen_all P g -> P c -> P (Any x g c).
  Hypothesis HAll : forall x g c, gen_all P g -> P c -> P (All x g c).
  Hypothesis HJoinedStr : forall ps, Forall (jpart_all P) ps -> P (JoinedStr ps).

  Fixpoint expr_ind' (e : expr) : P e :=
    let list_ind' :=
      fix go (l : list expr) : Forall P l :=
        match l with
        | [] => Forall_nil P
        | x :: r => Forall_cons x (expr_ind' x) (go r)
        end in
    let gen_ind' (g : gen expr) : gen_all P g :=
      match g return gen_all P g with
      | ForEach i => expr_ind' i
      | ForRange a b => conj (expr_ind' a) (expr_ind' b)
      end in
    match e return P e with
    | Member i n => HMember i n (expr_ind' i)
    | Name x => HName x
    | Constant c => HConstant c
    | Index c i => HIndex c i (expr_ind' c) (expr_ind' i)
    | Comparison op l r => HComparison op l r (expr_ind' l) (expr_ind' r)
    | IsIn m c => HIsIn m c (expr_ind' m) (expr_ind' c)
    | IsNone v => HIsNone v (expr_ind' v)
    | IsNotNone v => HIsNotNone v (expr_ind' v)
    | Not a => HNot a (expr_ind' a)
    | And vs => HAnd vs (list_ind' vs)
    | Or vs => HOr vs (list_ind' vs)
    | Implication a c => HImplication a c (expr_ind' a) (expr_ind' c)
    | FunctionCall f args => HFunctionCall f args (list_ind' args)
    | MethodCall i m args => HMethodCall i m args (expr_ind' i) (list_ind' args)
    | Add l r => HAdd l r (expr_ind' l) (expr_ind' r)
    | Sub l r => HSub l r (expr_ind' l) (expr_ind' r)
    | Any x g c => HAny x g c (gen_ind' g) (expr_ind' c)
    | All x g c => HAll x g c (gen_ind' g) (expr_ind' c)
    | JoinedStr ps =>
        HJoinedStr ps
          ((fix go (l : list (jpart expr)) : Forall (jpart_all P) l :=
              match l with
              | [] => Forall_nil _
              | p :: r =>
                  Forall_cons p
                    (match p return jpart_all P p with
                     | JLit _ => I
                     | JFmt a => expr_ind' a
                     end) (go r)
              end) ps)
    end.
End ExprInd.
