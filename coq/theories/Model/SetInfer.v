(** Model of [infer_for_schema/_set.py] and of the two [_inline._merge_set_of_*]
    functions (C15). Fixed code: a guarded membership is recognised only when the
    guard tests the member property; repeated literals of a set count once. Executable definitions only. *)
From Coq Require Import List NArith ZArith Bool.
From Acg Require Import Base.Str Base.Outcome Model.InferExpr Model.PatternInfer.
Import ListNotations.

Inductive prim : Type := PBool | PInt | PFloat | PStr | PBytes.
Definition prim_eqb (a b : prim) : bool :=
  match a, b with
  | PBool, PBool | PInt, PInt | PFloat, PFloat | PStr, PStr | PBytes, PBytes => true
  | _, _ => false
  end.

(** Literal values of constant sets (str and int are generated). *)
Inductive lit : Type := LStr (t : text) | LInt (z : Z).
Definition lit_eqb (a b : lit) : bool :=
  match a, b with
  | LStr x, LStr y => text_eqb x y
  | LInt x, LInt y => Z.eqb x y
  | _, _ => false
  end.

(** [symbol_table.constants_by_name] entries. *)
Inductive constant : Type :=
| CPrimConst
| CSetPrim (a : prim) (ls : list lit)
| CSetEnum (enum : text) (ls : list text).

(** What [_set.py] asks about the type of a property (beneath [Optional]):
    [try_primitive_type] and "is an [OurTypeAnnotation] of enumeration E". *)
Record ptinfo : Type := mk_ptinfo { pt_prim : option prim; pt_enum : option text }.

(** [_match_prop_in_named_container]: [self.p in Name]. *)
Definition match_prop_in_named (e : expr) : option (text * text) :=
  match e with
  | EIsIn m (EName c) =>
      match try_property m with Some p => Some (p, c) | None => None end
  | _ => None
  end.

Definition set_matches_of_invariant (body : expr) : list (text * text) :=
  let collect (node : expr) :=
    match node with
    | EAnd vs => flat_map (fun v => opt_to_list (match_prop_in_named v)) vs
    | _ => opt_to_list (match_prop_in_named node)
    end in
  match try_conditional_on_prop body with
  | Some (g, csq) => filter (fun m => text_eqb (fst m) g) (collect csq)
  | None => collect body
  end.

(** [_IntersectionOf...Literals] (fixed code: a value repeated inside one observed set is
    counted once): keep the literals of the first set that occur in every observed set. *)
Definition intersect {A} (eqb : A -> A -> bool) (first : list A) (rest : list (list A))
  : list A :=
  filter (fun v =>
            Nat.eqb (fold_left (fun acc l => if existsb (eqb v) l then S acc else acc)
                               rest 0%nat)
                    (length rest)) first.

Definition intersect_all {A} (eqb : A -> A -> bool) (sets : list (list A)) : list A :=
  match sets with
  | [] => []            (* precondition [len(constraints) >= 1]; never called so *)
  | f :: r => intersect eqb f r
  end.

Fixpoint dedup_by {A} (eqb : A -> A -> bool) (seen l : list A) : list A :=
  match l with
  | [] => []
  | x :: r =>
      if existsb (eqb x) seen then dedup_by eqb seen r
      else x :: dedup_by eqb (x :: seen) r
  end.

(** [_merge_set_of_*] (fixed code: a value is counted once per set): the values seen in
    both sets, in the order of the histogram ([that] first). *)
Definition merge_lits {A} (eqb : A -> A -> bool) (that other : list A) : list A :=
  filter (fun v => Nat.eqb ((if existsb (eqb v) that then 1 else 0)
                            + (if existsb (eqb v) other then 1 else 0)) 2)%nat
         (dedup_by eqb [] (that ++ other)).

Record set_acc : Type := mk_set_acc {
  sa_prim : list (text * (prim * list (list lit)));
  sa_enum : list (text * (text * list (list text)));
  sa_errs : nat }.

Definition set_step (ptypes : list (text * ptinfo)) (consts : list (text * constant))
           (acc : set_acc) (m : text * text) : set_acc :=
  let '(p, cname) := m in
  match alookup p ptypes with
  | None => mk_set_acc (sa_prim acc) (sa_enum acc) (S (sa_errs acc))
  | Some ti =>
      match alookup cname consts with
      | None | Some CPrimConst => acc
      | Some (CSetPrim a ls) =>
          if option_eqb prim_eqb (pt_prim ti) (Some a) then
            mk_set_acc
              (aset p (a, match alookup p (sa_prim acc) with
                          | Some (_, l) => l ++ [ls] | None => [ls] end) (sa_prim acc))
              (sa_enum acc) (sa_errs acc)
          else mk_set_acc (sa_prim acc) (sa_enum acc) (S (sa_errs acc))
      | Some (CSetEnum en ls) =>
          if option_eqb text_eqb (pt_enum ti) (Some en) then
            mk_set_acc (sa_prim acc)
              (aset p (en, match alookup p (sa_enum acc) with
                           | Some (_, l) => l ++ [ls] | None => [ls] end) (sa_enum acc))
              (sa_errs acc)
          else mk_set_acc (sa_prim acc) (sa_enum acc) (S (sa_errs acc))
      end
  end.

(** [infer_set_constraints_by_property_from_invariants]: per property the
    intersected primitive set and enumeration-literal set, or the number of errors. *)
Definition infer_sets (ptypes : list (text * ptinfo)) (consts : list (text * constant))
           (invs : list expr)
  : outcome (list (text * (prim * list lit)) * list (text * (text * list text))) nat :=
  let acc := fold_left (set_step ptypes consts)
                       (flat_map set_matches_of_invariant invs) (mk_set_acc [] [] 0%nat) in
  match sa_errs acc with
  | S _ => Err (sa_errs acc)
  | O =>
      Ok (map (fun e => (fst e, (fst (snd e), intersect_all lit_eqb (snd (snd e)))))
              (sa_prim acc),
          map (fun e => (fst e, (fst (snd e), intersect_all text_eqb (snd (snd e)))))
              (sa_enum acc))
  end.
