"""Adapter (C24): the real run.load_model with os / io / pickle wrapped from outside (no
source change): records the sequence of file-system steps on the cache directory,
injects a fault at a chosen step (raise / os._exit / os._exit in the middle of a write),
and runs N concurrent processes released by a barrier.

stdin : {"jobs": [ {"kind": "seq", "runs": [{"text", "flag", "fault": null | [step, mode]}...]}
                 | {"kind": "conc", "texts": [...], "seed": int} ]}
stdout: {"version":…, "jobs": [...]}   (see `seq_job` / `conc_job`)
"""
import builtins
import errno
import io
import json
import os
import pathlib
import pickle
import random
import sys
import time

sys.path.insert(0, os.path.dirname(os.path.abspath(__file__)))
import cachelib  # noqa: E402

import aas_core_codegen  # noqa: E402
from aas_core_codegen import run  # noqa: E402

DIRNAME = f"aas-core-codegen-{aas_core_codegen.__version__}"


class InjectedFault(Exception):
    """Not an OSError on purpose: pathlib swallows some OSErrors (mkdir(exist_ok=True),
    exists()), an injected failure must escape like an unexpected exception."""


class Proxy:
    def __init__(self, real, name, writing, ctl):
        self._real, self._name, self._writing, self._ctl = real, name, writing, ctl

    def write(self, data):
        self._ctl.step("write", mid=(self._real, data))
        return self._real.write(data)

    def close(self):
        if self._writing and not self._real.closed:
            try:
                self._ctl.step("close:" + self._name)
            except InjectedFault:
                self._real.close()
                raise
        return self._real.close()

    def __enter__(self):
        return self

    def __exit__(self, *a):
        self.close()
        return False

    def __getattr__(self, k):
        return getattr(self._real, k)


class Ctl:
    def __init__(self, tmp, fault=None, jitter=None, log=None):
        self.log = os.open(log, os.O_WRONLY | os.O_CREAT | os.O_TRUNC) if log else None
        self.tmp = os.path.abspath(str(tmp))
        self.cdir = os.path.join(self.tmp, DIRNAME)
        self.steps = []
        self.fault = fault
        self.jitter = jitter

    def name_in_cache(self, p):
        try:
            s = os.path.abspath(os.fsdecode(p))
        except TypeError:
            return None
        if os.path.dirname(s) == self.cdir:
            return os.path.basename(s)
        return None

    def step(self, label, mid=None):
        idx = len(self.steps)
        if self.jitter is not None:
            r = self.jitter.random()
            if r < 0.4:
                os.sched_yield()
            elif r < 0.7:
                time.sleep(self.jitter.random() * 0.003)
        if self.fault is not None and self.fault[0] == idx:
            mode = self.fault[1]
            if mode == "raise":
                self.steps.append(label + "!raised")
                raise InjectedFault("injected fault")
            if mode == "exit_mid" and mid is not None:
                real, data = mid
                real.write(bytes(data)[:max(1, len(data) // 2)])
                real.flush()
            os._exit(77)
        self.steps.append(label)
        if self.log is not None:
            os.write(self.log, (label + "\n").encode())

    def install(self):
        ctl = self
        r_stat, r_mkdir, r_rename, r_replace = os.stat, os.mkdir, os.rename, os.replace
        r_unlink, r_remove, r_open, r_load = os.unlink, os.remove, io.open, pickle.load

        def stat(path, *a, **k):
            n = ctl.name_in_cache(path) if not isinstance(path, int) else None
            if n is not None:
                ctl.step("exists:" + n)
            return r_stat(path, *a, **k)

        def mkdir(path, *a, **k):
            if os.path.abspath(os.fsdecode(path)) == ctl.cdir:
                ctl.step("mkdir")
            return r_mkdir(path, *a, **k)

        def mk_rename(real):
            def rename(src, dst, *a, **k):
                a_, b_ = ctl.name_in_cache(src), ctl.name_in_cache(dst)
                if a_ is not None or b_ is not None:
                    ctl.step(f"rename:{a_}:{b_}")
                return real(src, dst, *a, **k)
            return rename

        def mk_unlink(real):
            def unlink(path, *a, **k):
                n = ctl.name_in_cache(path)
                if n is not None:
                    ctl.step("unlink:" + n)
                return real(path, *a, **k)
            return unlink

        def open_(file, mode="r", *a, **k):
            n = ctl.name_in_cache(file) if not isinstance(file, int) else None
            if n is None:
                return r_open(file, mode, *a, **k)
            writing = any(c in mode for c in "wax+")
            ctl.step(("openw:" if writing else "openr:") + n)
            return Proxy(r_open(file, mode, *a, **k), n, writing, ctl)

        def load(f, *a, **k):
            if isinstance(f, Proxy):
                ctl.step("load")
            return r_load(f, *a, **k)

        os.stat, os.mkdir = stat, mkdir
        os.rename, os.replace = mk_rename(r_rename), mk_rename(r_replace)
        os.unlink, os.remove = mk_unlink(r_unlink), mk_unlink(r_remove)
        io.open = open_
        builtins.open = open_
        pickle.load = load


def entries(tmp, refbytes):
    """name -> status for every file of the cache directory: for *.pickle 'ok:<fp>' or 'BAD:<exc>';
    for anything else 'prefix' / 'notprefix' / 'unknown' w.r.t. the complete pickle."""
    out = {}
    d = pathlib.Path(tmp) / DIRNAME
    if not d.exists():
        return out
    for p in sorted(d.iterdir()):
        if p.name.endswith(".pickle"):
            try:
                with p.open("rb") as f:
                    c = pickle.load(f)
                out[p.name] = "ok:" + cachelib.fingerprint((c.symbol_table, c.atok))[0]
            except BaseException as e:  # noqa
                out[p.name] = f"BAD:{type(e).__name__}"
        else:
            data = p.read_bytes()
            h = p.name.split(".")[0][len("model-"):]
            full = d / f"model-{h}.pickle"
            ref = full.read_bytes() if full.exists() else refbytes.get(h)
            out[p.name] = "unknown" if ref is None else ("prefix" if ref.startswith(data) else "notprefix")
    stray = [q.name for q in pathlib.Path(tmp).iterdir() if q.name != DIRNAME]
    for s in stray:
        out["<stray>" + s] = "stray"
    return out


def one(model, flag, tmp, fault, jitter_seed=None, log=None):
    ctl = Ctl(tmp, fault=tuple(fault) if fault else None, log=log,
              jitter=random.Random(jitter_seed) if jitter_seed is not None else None)
    ctl.install()
    res = cachelib.result_of(lambda: run.load_model(model, flag))
    return {"result": res, "steps": ctl.steps}


def seq_job(job, d):
    tmp = d / "tmp"
    tmp.mkdir(parents=True)
    model = d / "model.py"
    refbytes = {}
    runs = []
    for r in job["runs"]:
        model.write_text(r["text"], encoding="utf-8")
        log = d / "steps.log"
        c = cachelib.run_child(lambda: one(model, r["flag"], tmp, r.get("fault"), log=str(log)), tmpdir=tmp)
        out = c["data"] or {"result": {"class": "exit", "code": c["exit"]},
                            "steps": log.read_text().splitlines() if log.exists() else None}
        out["entries"] = entries(tmp, refbytes)
        runs.append(out)
    return {"runs": runs}


def conc_job(job, d):
    tmp = d / "tmp"
    tmp.mkdir(parents=True)
    n = len(job["texts"])
    models = []
    for i, t in enumerate(job["texts"]):
        m = d / f"model{i}.py"
        m.write_text(t, encoding="utf-8")
        models.append(m)
    go_r, go_w = os.pipe()
    pipes = []
    pids = []
    import gc
    gc.freeze()
    for i in range(n):
        r, w = os.pipe()
        pid = os.fork()
        if pid == 0:
            code = 0
            try:
                os.close(r)
                os.close(go_w)
                os.environ["TMPDIR"] = str(tmp)
                import tempfile
                tempfile.tempdir = None
                ctl = Ctl(tmp, jitter=random.Random(job["seed"] * 100 + i))
                ctl.install()
                os.read(go_r, 1)          # barrier: blocks until the parent closes go_w
                res = cachelib.result_of(lambda: run.load_model(models[i], True))
                with os.fdopen(w, "w") as f:
                    json.dump({"result": res, "steps": ctl.steps}, f)
            except BaseException:  # noqa
                import traceback
                traceback.print_exc()
                code = 70
            finally:
                os._exit(code)
        os.close(w)
        pipes.append(r)
        pids.append(pid)
    os.close(go_r)
    time.sleep(0.05)
    os.close(go_w)                         # release everybody at once
    outs = []
    for r, pid in zip(pipes, pids):
        with os.fdopen(r) as f:
            raw = f.read()
        _, st = os.waitpid(pid, 0)
        outs.append(json.loads(raw) if raw else {"result": {"class": "exit", "code": os.waitstatus_to_exitcode(st)},
                                                 "steps": None})
    return {"procs": outs, "entries": entries(tmp, {})}


def main():
    payload = json.load(sys.stdin)
    base = pathlib.Path.cwd()
    res = []
    for i, job in enumerate(payload["jobs"]):
        d = base / f"j{i}"
        d.mkdir()
        res.append(seq_job(job, d) if job["kind"] == "seq" else conc_job(job, d))
    json.dump({"version": aas_core_codegen.__version__, "jobs": res}, sys.stdout)


main()
