#!/bin/bash
# usage: commit_fix.sh <patch file> <message file> [pytest targets...]
# Applies the patch to /repo, runs the given tests, commits as given message (must start with "fix:").
set -e
patch=$1; msg=$2; shift 2
cd /repo
git diff --quiet || { echo "repo dirty"; exit 1; }
git apply --index "$patch" || { echo "PATCH DOES NOT APPLY: $patch"; exit 1; }
if [ $# -gt 0 ]; then
  if ! /venv/bin/python -m pytest -q -p no:cacheprovider -x "$@" > /verif/work/commit_fix.log 2>&1; then
    tail -15 /verif/work/commit_fix.log; git reset -q --hard HEAD; echo "TESTS FAILED, reverted"; exit 1
  fi
  tail -1 /verif/work/commit_fix.log
fi
head -1 "$msg" | grep -q '^fix:' || { echo "message must start with fix:"; git reset -q --hard HEAD; exit 1; }
git commit -q -F "$msg"
git log --oneline | head -1
