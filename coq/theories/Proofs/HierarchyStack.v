(** C05: the stacking / in-lining / interface / serialization passes as a whole
    (folds over the topological resp. declaration order). *)
From Coq Require Import List NArith Bool Arith Lia Permutation Relations.
From Acg Require Import Base.Str Base.Outcome Model.Hierarchy Proofs.HierarchyFacts.
Import ListNotations.
Open Scope nat_scope.

Lemma fold_o_app : forall (A B E : Type) (f : A -> B -> outcome A E) l1 l2 a,
  fold_o f (l1 ++ l2) a =
  match fold_o f l1 a with
  | Ok a' => fold_o f l2 a'
  | Err e => Err e
  | Crash k => Crash k
  end.
Proof.
  intros A B E f l1. induction l1 as [|b l1 IH]; intros l2 a; cbn [app fold_o]; [reflexivity|].
  destruct (f a b); [apply IH | reflexivity | reflexivity].
Qed.

Lemma lookup_init : forall (A : Type) (g : cls -> A) m c,
  NoDup (names m) -> In c m -> lookup (c_name c) (map (fun x => (c_name x, g x)) m) = Some (g c).
Proof.
  intros A g m c. induction m as [|x m IH]; cbn [names map lookup]; intros Hnd Hin; [contradiction|].
  inversion Hnd as [|? ? Hx Hnd']; subst.
  destruct Hin as [->|Hin].
  - rewrite text_eqb_refl. reflexivity.
  - destruct (text_eqb (c_name x) (c_name c)) eqn:E.
    + apply text_eqb_eq in E. exfalso. apply Hx. rewrite E. apply in_map. exact Hin.
    + apply IH; assumption.
Qed.

Lemma order_split : forall (order : list name) n, In n order -> NoDup order ->
  exists l1 l2, order = l1 ++ n :: l2 /\ ~ In n l1 /\ ~ In n l2.
Proof.
  intros order n Hin Hnd. destruct (in_split _ _ Hin) as [l1 [l2 E]]. exists l1, l2.
  split; [exact E|]. subst order. pose proof (NoDup_remove_2 _ _ _ Hnd) as H.
  split; intro Hx; apply H; apply in_or_app; [left | right]; exact Hx.
Qed.

Lemma flat_map_ext_In : forall (A B : Type) (f g : A -> list B) l,
  (forall a, In a l -> f a = g a) -> flat_map f l = flat_map g l.
Proof.
  intros A B f g l. induction l as [|a l IH]; intro H; cbn [flat_map]; [reflexivity|].
  rewrite (H a (or_introl eq_refl)), IH; [reflexivity|]. intros a' Ha'. apply H. right. exact Ha'.
Qed.

Lemma NoDup_app_l_not_r : forall (A : Type) (l1 l2 : list A) x,
  NoDup (l1 ++ l2) -> In x l1 -> ~ In x l2.
Proof.
  intros A l1. induction l1 as [|y l1 IH]; intros l2 x Hnd Hx; [contradiction|].
  cbn [app] in Hnd. inversion Hnd as [|? ? Hy Hnd']; subst.
  destruct Hx as [->|Hx].
  - intro H. apply Hy. apply in_or_app. right. exact H.
  - apply IH; assumption.
Qed.

(** * Stacking of properties and invariants *)
Section Stack.
  Variable prims : list name.
  Variable m : mm.
  Variable A : Type.
  Variable skip : name -> bool.

  Lemma stack_step_other : forall (st : list (name * list (ident A))) n k,
    k <> n -> lookup k (stack_step prims m skip st n) = lookup k st.
  Proof.
    intros st n k Hk. unfold stack_step. destruct (skip n); [reflexivity|].
    destruct (find_class m n); [|reflexivity]. apply lookup_update_other. congruence.
  Qed.

  Lemma stack_step_skip : forall (st : list (name * list (ident A))) n,
    skip n = true -> stack_step prims m skip st n = st.
  Proof. intros st n H. unfold stack_step. rewrite H. reflexivity. Qed.

  Lemma stack_fold_stable : forall l (st : list (name * list (ident A))) k,
    (In k l -> skip k = true) ->
    lookup k (fold_left (stack_step prims m skip) l st) = lookup k st.
  Proof.
    induction l as [|n l IH]; intros st k Hk; cbn [fold_left]; [reflexivity|].
    rewrite IH; [|intro H; apply Hk; right; exact H].
    destruct (list_eq_dec N.eq_dec k n) as [->|Hne].
    - rewrite stack_step_skip; [reflexivity | apply Hk; left; reflexivity].
    - apply stack_step_other. exact Hne.
  Qed.

  Variable own : cls -> list A.

  (** After the pass, the entry of every class that is not skipped is the de-duplicated
      concatenation of the FINAL entries of its bases (in the declared order of the
      bases) followed by its own items; a skipped class keeps its own items. *)
  Theorem stacked_fold_thm : wf prims m -> forall order, topo_sort prims m = Ok order ->
    forall c, In c m ->
      let final := stack_ids prims m skip own order in
      lk (c_name c) final =
      if skip (c_name c) then own_ids (c_name c) (own c)
      else dedup id_eqb (flat_map (fun b => lk b final) (class_bases prims c))
           ++ own_ids (c_name c) (own c).
  Proof.
    intros Hwf order Et c Hc final.
    destruct (topo_sort_ok prims m Hwf) as [o [Et' [Htopo Hperm]]].
    rewrite Et in Et'. injection Et' as <-.
    pose proof Hwf as [Hnd [Hbases _]].
    assert (Hndo : NoDup order).
    { eapply Permutation_NoDup; [apply Permutation_sym; exact Hperm | exact Hnd]. }
    set (n := c_name c).
    assert (Hinit : lookup n (map (fun x => (c_name x, own_ids (c_name x) (own x))) m)
                    = Some (own_ids n (own c))).
    { apply (lookup_init _ (fun x => own_ids (c_name x) (own x))); assumption. }
    destruct (skip n) eqn:Es.
    - unfold lk, final, stack_ids. rewrite stack_fold_stable; [|intros _; exact Es].
      rewrite Hinit. reflexivity.
    - assert (Hno : In n order).
      { eapply Permutation_in; [apply Permutation_sym; exact Hperm|]. unfold names. apply in_map. exact Hc. }
      destruct (order_split order n Hno Hndo) as [l1 [l2 [Eo [Hn1 Hn2]]]].
      pose proof (find_class_unique m c Hnd Hc) as Hfc. fold n in Hfc.
      unfold final, stack_ids. rewrite Eo, fold_left_app. cbn [fold_left].
      set (st1 := fold_left (stack_step prims m skip) l1 _).
      set (st2 := stack_step prims m skip st1 n).
      destruct (stacked_step_thm prims m A skip st1 n c Es Hfc) as [Hn Hother].
      fold st2 in Hn, Hother.
      assert (Hown : lk n st1 = own_ids n (own c)).
      { unfold lk, st1. rewrite stack_fold_stable; [|intro H; contradiction]. rewrite Hinit. reflexivity. }
      unfold lk at 1. rewrite stack_fold_stable; [|intro H; contradiction].
      rewrite Hn, Hown. f_equal. f_equal.
      apply flat_map_ext_In. intros b Hb.
      assert (Hb1 : In b l1).
      { eapply (topo_split prims m order Htopo l1 n l2 Eo). exists c. split; assumption. }
      assert (Hbn : b <> n). { intro E. subst b. contradiction. }
      assert (Hb2 : ~ In b l2).
      { rewrite Eo in Hndo. intro H.
        apply (NoDup_app_l_not_r _ l1 (n :: l2) b Hndo Hb1). right. exact H. }
      unfold lk. rewrite stack_fold_stable; [|intro H; contradiction].
      rewrite Hother; [reflexivity | exact Hbn].
  Qed.
End Stack.

(** * What an accepted model went through *)
Section Inv.
  Variable prims : list name.

  Definition ir_of (m : mm) (anc : amap) (smap : list (name * option (option bool)))
             (imap pmap mmap : list (name * list (ident name)))
             (kmap : list (name * list (ident stmt)))
             (ifm : list (name * option (list name))) (c : cls) : cls_ir :=
    let n := c_name c in
    let cp := is_cp prims m anc n in
    {| i_name := n;
       i_is_cp := cp;
       i_ancestors := ir_ancestors m anc n;
       i_descendants := ir_descendants anc n;
       i_concrete_descendants := if cp then [] else ir_concrete_descendants m anc n;
       i_props := map pair_owner (lk n pmap);
       i_invs := map pair_owner (lk n imap);
       i_methods := map pair_owner (lk n mmap);
       i_inlined := map (fun x => stmt_prop (id_val x)) (lk n kmap);
       i_iface := match lookup n ifm with Some (Some l) => Some l | _ => None end;
       i_wmt := if cp then None else Some (final_wmt smap n) |}.

  Ltac step H :=
    match type of H with
    | (if ?b then _ else _) = _ => let E := fresh "E" in destruct b eqn:E; try discriminate H
    | (match ?x with _ => _ end) = _ => let E := fresh "E" in destruct x eqn:E; try discriminate H
    | (let '(_, _) := ?x in _) = _ => let E := fresh "E" in destruct x eqn:E; try discriminate H
    end.

  Lemma translate_inv : forall m r, translate prims m = Ok r ->
    exists order anc smap mmap kmap ifm,
      parse_ok prims m = true
      /\ topo_sort prims m = Ok order
      /\ onto_ancestors prims m order = Ok anc
      /\ stack_serializations prims m anc order = (smap, false)
      /\ props_violation prims m anc (stack_properties prims m anc order) = false
      /\ stack_methods prims m anc order = (mmap, false)
      /\ stack_constructors prims m anc = Ok (kmap, false)
      /\ resolve_interfaces prims m anc order = Ok ifm
      /\ verify_initialized prims m anc (stack_properties prims m anc order) kmap = Ok false
      /\ r = {| r_classes := map (ir_of m anc smap (stack_invariants prims m order)
                                        (stack_properties prims m anc order) mmap kmap ifm) m;
                r_topo := order |}.
  Proof.
    intros m r H. unfold translate in H.
    repeat step H.
    injection H as <-.
    match goal with
    | Hor : _ || _ || _ = false |- _ =>
        apply orb_false_iff in Hor; destruct Hor as [Hor Hc];
        apply orb_false_iff in Hor; destruct Hor as [Hs Hm]
    end.
    subst.
    match goal with Hp : negb (parse_ok _ _) = false |- _ => apply negb_false_iff in Hp end.
    match goal with
    | Ht : topo_sort _ _ = Ok ?o, Ha : onto_ancestors _ _ _ = Ok ?an,
      Hse : stack_serializations _ _ _ _ = (?sm, false),
      Hme : stack_methods _ _ _ _ = (?mm0, false),
      Hk : stack_constructors _ _ _ = Ok (?km, false),
      Hi : resolve_interfaces _ _ _ _ = Ok ?im |- _ =>
        exists o, an, sm, mm0, km, im
    end.
    repeat split; try assumption; try reflexivity.
  Qed.
End Inv.

(** * Constructor in-lining as a whole *)
Section Ctor.
  Variable prims : list name.
  Variable m : mm.
  Variable anc : amap.

  Lemma inline_body_err_mono : forall c kmap body acc err inl,
    inline_body prims m anc c kmap body acc err = Ok (inl, false) -> err = false.
  Proof.
    intros c kmap body. induction body as [|s body IH]; intros acc err inl H; cbn [inline_body] in H.
    - injection H as _ H. exact H.
    - destruct (id_val s) as [sup|p].
      + destruct (find_class m sup); [|discriminate].
        destruct (is_cp prims m anc sup); [discriminate|].
        destruct (negb (mem_text sup (c_bases c))).
        * apply IH in H. discriminate.
        * destruct (negb (forallb _ _)); [discriminate|]. eapply IH. exact H.
      + eapply IH. exact H.
  Qed.

  Lemma ctor_step_err_mono : forall k e c k',
    ctor_step prims m anc (k, e) c = Ok (k', false) -> e = false.
  Proof.
    intros k e c k' H. unfold ctor_step in H.
    destruct (is_cp prims m anc (c_name c)); [injection H as _ H; exact H|].
    destruct (inline_body prims m anc c k _ [] e) as [[inls err1]| |] eqn:E; try discriminate.
    destruct (negb (forallb _ inls)); [discriminate|].
    injection H as _ H. apply orb_false_iff in H. destruct H as [H _]. subst err1.
    eapply inline_body_err_mono. exact E.
  Qed.

  Lemma ctor_step_other : forall k e c k' e',
    ctor_step prims m anc (k, e) c = Ok (k', e') ->
    forall n, n <> c_name c -> lookup n k' = lookup n k.
  Proof.
    intros k e c k' e' H n Hn. unfold ctor_step in H.
    destruct (is_cp prims m anc (c_name c)); [injection H as <- _; reflexivity|].
    destruct (inline_body prims m anc c k _ [] e) as [[inls err1]| |]; try discriminate.
    destruct (negb (forallb _ inls)); [discriminate|].
    injection H as <- _. apply lookup_update_other. congruence.
  Qed.

  Lemma ctor_fold : forall l st k',
    fold_o (ctor_step prims m anc) l st = Ok (k', false) ->
    snd st = false /\ forall n, ~ In n (names l) -> lookup n k' = lookup n (fst st).
  Proof.
    induction l as [|c l IH]; intros [k e] k' H; cbn [fold_o] in H.
    - injection H as <- <-. split; [reflexivity | intros; reflexivity].
    - destruct (ctor_step prims m anc (k, e) c) as [[k2 e2]| |] eqn:E; try discriminate.
      apply IH in H. cbn [fst snd] in H. destruct H as [He2 Hl]. subst e2. cbn [fst snd]. split.
      + eapply ctor_step_err_mono. exact E.
      + intros n Hn. cbn [names map In] in Hn. rewrite Hl; [|intro Hx; apply Hn; right; exact Hx].
        eapply ctor_step_other; [exact E|]. intro Hx. apply Hn. left. symmetry. exact Hx.
  Qed.

  (** After the constructor pass without a reported error: for every class, no call of a
      super-constructor is left and no property is assigned twice. *)
  Theorem ctor_fold_thm : forall kmap, NoDup (names m) ->
    stack_constructors prims m anc = Ok (kmap, false) ->
    forall c, In c m -> is_cp prims m anc (c_name c) = false ->
      forallb (fun x => is_assign (id_val x)) (lk (c_name c) kmap) = true
      /\ NoDup (map (fun x => stmt_prop (id_val x)) (lk (c_name c) kmap)).
  Proof.
    intros kmap Hnd H c Hc Hcp. unfold stack_constructors in H.
    destruct (in_split _ _ Hc) as [l1 [l2 Em]].
    assert (Hc2 : ~ In (c_name c) (names l2)).
    { rewrite Em in Hnd. unfold names in Hnd. rewrite map_app in Hnd. cbn [map] in Hnd.
      apply NoDup_remove_2 in Hnd. intro Hx. apply Hnd. apply in_or_app. right. exact Hx. }
    set (init := (map (fun c0 => (c_name c0, @nil (ident stmt))) m, false)) in H.
    assert (H' : fold_o (ctor_step prims m anc) (l1 ++ c :: l2) init = Ok (kmap, false)).
    { rewrite <- Em. exact H. }
    clear H. rename H' into H. rewrite fold_o_app in H.
    destruct (fold_o (ctor_step prims m anc) l1 init) as [[k1 e1]| |]; try discriminate.
    cbn [fold_o] in H.
    destruct (ctor_step prims m anc (k1, e1) c) as [[k2 e2]| |] eqn:E; try discriminate.
    apply ctor_fold in H. cbn [fst snd] in H. destruct H as [He2 Hl]. subst e2.
    unfold lk. rewrite (Hl _ Hc2). eapply ctor_step_thm; eassumption.
  Qed.

  (** [verify_initialized] reporting nothing: assigned properties and properties coincide. *)
  Lemma verify_initialized_ok : forall pmap kmap l e,
    fold_o (fun err c =>
              if is_cp prims m anc (c_name c) then Ok err else
              let ps := map id_val (lk (c_name c) pmap) in
              let assigned := map (fun x => stmt_prop (id_val x)) (lk (c_name c) kmap) in
              if negb (forallb (fun a => mem_text a ps) assigned) then @Crash bool name AssertionError
              else Ok (err || negb (forallb (fun p => mem_text p assigned) ps))) l e = Ok false ->
    e = false /\ forall c, In c l -> is_cp prims m anc (c_name c) = false ->
      forall p, In p (map (fun x => stmt_prop (id_val x)) (lk (c_name c) kmap))
                <-> In p (map id_val (lk (c_name c) pmap)).
  Proof.
    intros pmap kmap. induction l as [|c l IH]; intros e H; cbn [fold_o] in H.
    - injection H as ->. split; [reflexivity | intros c []].
    - destruct (is_cp prims m anc (c_name c)) eqn:Ecp.
      + apply IH in H. destruct H as [He Hl]. split; [exact He|].
        intros c' [<-|Hc'] Hcp'; [congruence | apply Hl; assumption].
      + cbv zeta in H.
        destruct (forallb (fun a => mem_text a (map id_val (lk (c_name c) pmap)))
                          (map (fun x => stmt_prop (id_val x)) (lk (c_name c) kmap))) eqn:E1;
          cbn [negb] in H; [|discriminate].
        apply IH in H. destruct H as [He Hl]. apply orb_false_iff in He. destruct He as [He E2].
        apply negb_false_iff in E2. split; [exact He|].
        intros c' [<-|Hc'] Hcp'; [|apply Hl; assumption].
        intro p. rewrite forallb_forall in E1, E2. split; intro Hp.
        * apply mem_text_In. apply E1. exact Hp.
        * apply mem_text_In. apply E2. exact Hp.
  Qed.
End Ctor.

(** * Interfaces *)
Lemma lookup_app_Some : forall (A : Type) (k : name) (st ext : list (name * A)) v,
  lookup k st = Some v -> lookup k (st ++ ext) = Some v.
Proof.
  intros A k st ext v. induction st as [|[k' v'] st IH]; cbn [app lookup]; intro H; [discriminate|].
  destruct (text_eqb k' k); [exact H | apply IH; exact H].
Qed.

Section Iface.
  Variable prims : list name.
  Variable m : mm.
  Variable anc : amap.

  Lemma iface_step_ext : forall st n st', iface_step prims m anc st n = Ok st' ->
    exists ext, st' = st ++ ext /\ forall k, In k (map fst ext) -> k = n.
  Proof.
    intros st n st' H. unfold iface_step in H.
    destruct (is_cp prims m anc n).
    { injection H as <-. exists []. rewrite app_nil_r. split; [reflexivity | intros k []]. }
    destruct (find_class m n) as [c|]; [|discriminate].
    destruct (c_abstract c || negb (is_nil (onto_descendants anc n))).
    - destruct (forallb _ (c_bases c)); [|discriminate]. injection H as <-.
      eexists. split; [reflexivity|]. intros k [<-|[]]. reflexivity.
    - injection H as <-. eexists. split; [reflexivity|]. intros k [<-|[]]. reflexivity.
  Qed.

  Lemma iface_fold_ext : forall l st st', fold_o (iface_step prims m anc) l st = Ok st' ->
    exists ext, st' = st ++ ext /\ incl (map fst ext) l.
  Proof.
    induction l as [|n l IH]; intros st st' H; cbn [fold_o] in H.
    - injection H as <-. exists []. rewrite app_nil_r. split; [reflexivity | intros k []].
    - destruct (iface_step prims m anc st n) as [st2| |] eqn:E; try discriminate.
      apply iface_step_ext in E. destruct E as [e1 [-> H1]].
      apply IH in H. destruct H as [e2 [-> H2]]. exists (e1 ++ e2). rewrite app_assoc.
      split; [reflexivity|]. intros k Hk. rewrite map_app in Hk. apply in_app_or in Hk.
      destruct Hk as [Hk|Hk]; [left; symmetry; apply H1; exact Hk | right; apply H2; exact Hk].
  Qed.

  (** After the interface pass every class (not a constrained primitive) has an interface
      exactly if it is abstract or has descendants; it inherits from the bases. *)
  Theorem iface_fold_thm : forall order ifm, NoDup order ->
    resolve_interfaces prims m anc order = Ok ifm ->
    forall n c, In n order -> is_cp prims m anc n = false -> find_class m n = Some c ->
      lookup n ifm = Some (if c_abstract c || negb (is_nil (onto_descendants anc n))
                           then Some (c_bases c) else None).
  Proof.
    intros order ifm Hnd H n c Hn Hcp Hc. unfold resolve_interfaces in H.
    destruct (order_split order n Hn Hnd) as [l1 [l2 [Eo [Hn1 Hn2]]]].
    rewrite Eo, fold_o_app in H.
    destruct (fold_o (iface_step prims m anc) l1 []) as [st1| |] eqn:E1; try discriminate.
    cbn [fold_o] in H.
    destruct (iface_step prims m anc st1 n) as [st2| |] eqn:E2; try discriminate.
    apply iface_fold_ext in E1. destruct E1 as [e1 [-> Hk1]]. cbn [app] in E2.
    apply iface_fold_ext in H. destruct H as [e2 [-> _]].
    apply lookup_app_Some. eapply iface_step_thm; try eassumption.
    intro Hx. apply Hn1. apply Hk1. exact Hx.
  Qed.
End Iface.

(** * with_model_type *)
Section Ser.
  Variable prims : list name.
  Variable m : mm.
  Variable anc : amap.

  Lemma ser_step_err_mono : forall st n, snd (ser_step prims m anc st n) = false -> snd st = false.
  Proof.
    intros [smap err] n H. unfold ser_step in H.
    destruct (is_cp prims m anc n); [exact H|].
    destruct (find_class m n) as [c|]; [|exact H].
    destruct (_ ++ _) as [|first rest]; [exact H|].
    destruct (forallb (Bool.eqb first) rest); cbn [snd] in H; [exact H | discriminate].
  Qed.

  Lemma ser_step_other : forall st n k, k <> n ->
    lookup k (fst (ser_step prims m anc st n)) = lookup k (fst st).
  Proof.
    intros [smap err] n k Hk. unfold ser_step.
    destruct (is_cp prims m anc n); [reflexivity|].
    destruct (find_class m n) as [c|]; [|reflexivity].
    destruct (_ ++ _) as [|first rest]; [reflexivity|].
    destruct (forallb (Bool.eqb first) rest); cbn [fst]; [|reflexivity].
    apply lookup_update_other. congruence.
  Qed.

  Lemma ser_fold : forall l st,
    snd (fold_left (ser_step prims m anc) l st) = false ->
    snd st = false /\ forall k, ~ In k l ->
      lookup k (fst (fold_left (ser_step prims m anc) l st)) = lookup k (fst st).
  Proof.
    induction l as [|n l IH]; intros st H; cbn [fold_left] in *.
    - split; [exact H | intros; reflexivity].
    - apply IH in H. destruct H as [H1 H2]. split.
      + eapply ser_step_err_mono. exact H1.
      + intros k Hk. rewrite H2; [|intro Hx; apply Hk; right; exact Hx].
        apply ser_step_other. intro Hx. apply Hk. left. symmetry. exact Hx.
  Qed.

  Definition sv (smap : list (name * option (option bool))) (x : name) : option bool :=
    match lookup x smap with Some (Some (Some v)) => Some v | _ => None end.
  Definition o2l (o : option bool) : list bool := match o with Some v => [v] | None => [] end.

  Lemma ser_step_eq : forall smap n c,
    is_cp prims m anc n = false -> find_class m n = Some c ->
    snd (ser_step prims m anc (smap, false) n) = false ->
    match flat_map (fun b => o2l (sv smap b)) (c_bases c) ++ o2l (sv smap n) with
    | [] => fst (ser_step prims m anc (smap, false) n) = smap
    | first :: rest =>
        (forall v, In v rest -> v = first)
        /\ fst (ser_step prims m anc (smap, false) n) = update n (Some (Some first)) smap
    end.
  Proof.
    intros smap n c Hcp Hc H. unfold ser_step in *. rewrite Hcp, Hc in *.
    assert (Eg : forall x, match lookup x smap with Some (Some (Some v)) => [v] | _ => [] end = o2l (sv smap x)).
    { intro x. unfold sv, o2l. destruct (lookup x smap) as [[[v|]|]|]; reflexivity. }
    assert (Esw : forall cur v, set_wmt cur v = Some (Some v)).
    { intros [[w|]|] v; reflexivity. }
    rewrite (flat_map_ext_In _ _ _ (fun b => o2l (sv smap b)) (c_bases c) (fun a _ => Eg a)) in *.
    rewrite Eg in *.
    destruct (flat_map (fun b => o2l (sv smap b)) (c_bases c) ++ o2l (sv smap n)) as [|first rest];
      [reflexivity|].
    destruct (forallb (Bool.eqb first) rest) eqn:E; cbn [fst snd] in *; [|discriminate].
    split; [|rewrite Esw; reflexivity]. intros v Hv. rewrite forallb_forall in E. specialize (E v Hv).
    apply eqb_prop in E. symmetry. exact E.
  Qed.
End Ser.

Section SerFold.
  Variable prims : list name.
  Variable m : mm.
  Variable anc : amap.

  Lemma not_cp_no_prim : forall c, In c m -> NoDup (names m) ->
    is_cp prims m anc (c_name c) = false -> class_bases prims c = c_bases c.
  Proof.
    intros c Hc Hnd Hcp. apply no_prim_bases. unfold is_cp in Hcp.
    apply orb_false_iff in Hcp. destruct Hcp as [Hcp _]. unfold is_initial_cp in Hcp.
    rewrite (find_class_unique m c Hnd Hc) in Hcp. exact Hcp.
  Qed.

  (** After the serialization pass without a reported error: the setting of a class is
      the common value of the settings of its bases (after propagation) and of its own
      declared setting; it stays unset iff none of them is set. *)
  Theorem model_type_fold_thm : wf prims m -> forall order smap,
    topo_sort prims m = Ok order ->
    stack_serializations prims m anc order = (smap, false) ->
    forall c, In c m -> is_cp prims m anc (c_name c) = false ->
      match flat_map (fun b => o2l (sv smap b)) (c_bases c) ++ o2l (decl_wmt c) with
      | [] => sv smap (c_name c) = None
      | first :: rest => sv smap (c_name c) = Some first /\ forall v, In v rest -> v = first
      end.
  Proof.
    intros Hwf order smap Et Hs c Hc Hcp.
    destruct (topo_sort_ok prims m Hwf) as [o [Et' [Htopo Hperm]]].
    rewrite Et in Et'. injection Et' as <-.
    pose proof Hwf as [Hnd [Hbases _]].
    assert (Hndo : NoDup order).
    { eapply Permutation_NoDup; [apply Permutation_sym; exact Hperm | exact Hnd]. }
    set (n := c_name c) in *.
    assert (Hno : In n order).
    { eapply Permutation_in; [apply Permutation_sym; exact Hperm|]. unfold names. apply in_map. exact Hc. }
    destruct (order_split order n Hno Hndo) as [l1 [l2 [Eo [Hn1 Hn2]]]].
    pose proof (find_class_unique m c Hnd Hc) as Hfc. fold n in Hfc.
    unfold stack_serializations in Hs. rewrite Eo, fold_left_app in Hs. cbn [fold_left] in Hs.
    set (init := (map (fun c0 => (c_name c0, c_wmt c0)) m, false)) in Hs.
    set (st1 := fold_left (ser_step prims m anc) l1 init) in Hs.
    set (st2 := ser_step prims m anc st1 n) in Hs.
    assert (Hfin : snd (fold_left (ser_step prims m anc) l2 st2) = false) by (rewrite Hs; reflexivity).
    destruct (ser_fold prims m anc l2 st2 Hfin) as [He2 Hl2]. rewrite Hs in Hl2. cbn [fst] in Hl2.
    assert (He1 : snd st1 = false) by (eapply ser_step_err_mono; exact He2).
    destruct (ser_fold prims m anc l1 init He1) as [_ Hl1]. fold st1 in Hl1.
    destruct st1 as [s1 e1] eqn:Est1. cbn [snd fst] in *. subst e1.
    assert (Hown : lookup n s1 = Some (c_wmt c)).
    { rewrite (Hl1 n Hn1). unfold init. cbn [fst].
      apply (lookup_init _ (fun x => c_wmt x)); assumption. }
    assert (Hbase : forall b, In b (c_bases c) -> sv smap b = sv s1 b).
    { intros b Hb. unfold sv.
      assert (Hb1 : In b l1).
      { eapply (topo_split prims m order Htopo l1 n l2 Eo). exists c. split; [exact Hfc|].
        rewrite (not_cp_no_prim c Hc Hnd Hcp). exact Hb. }
      assert (Hbn : b <> n). { intro E. subst b. contradiction. }
      assert (Hb2 : ~ In b l2).
      { rewrite Eo in Hndo. intro H.
        apply (NoDup_app_l_not_r _ l1 (n :: l2) b Hndo Hb1). right. exact H. }
      rewrite (Hl2 b Hb2). unfold st2. rewrite ser_step_other; [reflexivity | exact Hbn]. }
    assert (Hsvn : sv s1 n = decl_wmt c).
    { unfold sv, decl_wmt. rewrite Hown. destruct (c_wmt c) as [[w|]|]; reflexivity. }
    rewrite (flat_map_ext_In _ _ _ (fun b => o2l (sv s1 b)) (c_bases c)
               (fun b Hb => f_equal o2l (Hbase b Hb))).
    rewrite <- Hsvn.
    pose proof (ser_step_eq prims m anc s1 n c Hcp Hfc He2) as Heq. fold st2 in Heq.
    assert (Hn : lookup n smap = lookup n (fst st2)) by (apply Hl2; exact Hn2).
    destruct (flat_map (fun b => o2l (sv s1 b)) (c_bases c) ++ o2l (sv s1 n)) as [|first rest] eqn:Ew.
    - unfold sv at 1. rewrite Hn, Heq, Hown.
      apply app_eq_nil in Ew. destruct Ew as [_ Ew]. rewrite Hsvn in Ew.
      unfold decl_wmt in Ew. destruct (c_wmt c) as [[w|]|]; [discriminate | reflexivity | reflexivity].
    - destruct Heq as [Hall Heq]. split; [|exact Hall].
      unfold sv. rewrite Hn, Heq, lookup_update_same. reflexivity.
  Qed.

  (** The three readings of "propagated consistently down the hierarchy". *)
  Theorem model_type_consistent_thm : wf prims m -> forall order smap,
    topo_sort prims m = Ok order ->
    stack_serializations prims m anc order = (smap, false) ->
    forall c, In c m -> is_cp prims m anc (c_name c) = false ->
      (forall b v, In b (c_bases c) -> sv smap b = Some v -> sv smap (c_name c) = Some v)
      /\ (forall v, decl_wmt c = Some v -> sv smap (c_name c) = Some v)
      /\ (forall v, sv smap (c_name c) = Some v ->
            decl_wmt c = Some v \/ exists b, In b (c_bases c) /\ sv smap b = Some v).
  Proof.
    intros Hwf order smap Et Hs c Hc Hcp.
    pose proof (model_type_fold_thm Hwf order smap Et Hs c Hc Hcp) as H.
    set (L := flat_map (fun b => o2l (sv smap b)) (c_bases c) ++ o2l (decl_wmt c)) in H.
    assert (HL : forall v, In v L -> sv smap (c_name c) = Some v).
    { intros v Hv. destruct L as [|first rest]; [destruct Hv|].
      destruct H as [H1 H2]. destruct Hv as [<-|Hv]; [exact H1|]. rewrite (H2 v Hv). exact H1. }
    assert (HL2 : forall v, sv smap (c_name c) = Some v -> In v L).
    { intros v Hv. destruct L as [|first rest]; [congruence|].
      destruct H as [H1 _]. rewrite H1 in Hv. injection Hv as <-. left. reflexivity. }
    split; [|split].
    - intros b v Hb Hv. apply HL. unfold L. apply in_or_app. left.
      apply in_flat_map. exists b. split; [exact Hb|]. rewrite Hv. left. reflexivity.
    - intros v Hv. apply HL. unfold L. apply in_or_app. right. rewrite Hv. left. reflexivity.
    - intros v Hv. apply HL2 in Hv. unfold L in Hv. apply in_app_or in Hv. destruct Hv as [Hv|Hv].
      + right. apply in_flat_map in Hv. destruct Hv as [b [Hb Hv]]. exists b. split; [exact Hb|].
        destruct (sv smap b) as [w|]; [|destruct Hv]. destruct Hv as [<-|[]]. reflexivity.
      + left. destruct (decl_wmt c) as [w|]; [|destruct Hv]. destruct Hv as [<-|[]]. reflexivity.
  Qed.
End SerFold.

(** * Methods *)
Section Methods.
  Variable prims : list name.
  Variable m : mm.
  Variable anc : amap.

  (** [seen] holds exactly the names of the methods inherited so far, which are distinct *)
  Definition minv (seen : list name) (inh : list (ident name)) : Prop :=
    NoDup (map id_val inh) /\ forall q, In q seen <-> In q (map id_val inh).

  Lemma inherit_methods_spec : forall ms seen inh err inh' seen',
    inherit_methods ms seen inh err = (inh', seen', false) -> minv seen inh ->
    err = false /\ inh' = inh ++ ms /\ minv seen' inh'.
  Proof.
    induction ms as [|x ms IH]; intros seen inh err inh' seen' H Hinv; cbn [inherit_methods] in H.
    - injection H as <- <- <-. rewrite app_nil_r. auto.
    - destruct (mem_text (id_val x) seen) eqn:E.
      + apply IH in H; [|exact Hinv]. destruct H as [H _]. discriminate.
      + apply mem_text_false in E. destruct Hinv as [Hnd Hs].
        apply IH in H.
        * destruct H as [He [Hi Hm]]. split; [exact He|]. split; [|exact Hm].
          rewrite Hi, <- app_assoc. reflexivity.
        * split.
          -- rewrite map_app. cbn [map]. apply NoDup_snoc; [exact Hnd|].
             intro Hx. apply E. apply Hs. exact Hx.
          -- intro q. rewrite map_app. cbn [map In]. rewrite in_app_iff, Hs. cbn [In]. tauto.
  Qed.

  Lemma inherit_fold_spec : forall (mmap : list (name * list (ident name))) bs inh seen err inh' seen',
    fold_left (fun acc b =>
                 let '(inh, seen, e) := acc in
                 inherit_methods (match lookup b mmap with Some l => l | None => [] end) seen inh e)
              bs (inh, seen, err) = (inh', seen', false) ->
    minv seen inh ->
    err = false /\ inh' = inh ++ flat_map (fun b => lk b mmap) bs /\ minv seen' inh'.
  Proof.
    intros mmap. induction bs as [|b bs IH]; intros inh seen err inh' seen' H Hinv; cbn [fold_left] in H.
    - injection H as <- <- <-. cbn [flat_map]. rewrite app_nil_r. auto.
    - destruct (inherit_methods (match lookup b mmap with Some l => l | None => [] end) seen inh err)
        as [[inh1 seen1] e1] eqn:E.
      destruct (IH _ _ _ _ _ H) as [He1 [Hi Hm]].
      + destruct e1.
        * (* the error flag never goes back to false *)
          exfalso. clear - H IH.
          assert (Hmono : forall bs inh seen inh' seen',
                     fold_left (fun acc b =>
                        let '(inh, seen, e) := acc in
                        inherit_methods (match lookup b mmap with Some l => l | None => [] end) seen inh e)
                       bs (inh, seen, true) <> (inh', seen', false)).
          { clear. induction bs as [|b bs IHb]; intros inh seen inh' seen'; cbn [fold_left]; [congruence|].
            destruct (inherit_methods _ seen inh true) as [[i s] e] eqn:E.
            assert (e = true).
            { clear - E. revert seen inh i s e E.
              induction (match lookup b mmap with Some l => l | None => [] end) as [|x ms IHm];
                intros seen inh i s e E; cbn [inherit_methods] in E.
              - injection E as _ _ <-. reflexivity.
              - destruct (mem_text (id_val x) seen); eapply IHm; exact E. }
            subst e. apply IHb. }
          eapply Hmono. exact H.
        * destruct (inherit_methods_spec _ _ _ _ _ _ E Hinv) as [_ [_ Hm1]]. exact Hm1.
      + subst e1. destruct (inherit_methods_spec _ _ _ _ _ _ E Hinv) as [He [Hi1 _]].
        split; [exact He|]. split; [|exact Hm]. rewrite Hi, Hi1, <- app_assoc. reflexivity.
  Qed.

  Lemma methods_step_err_mono : forall st n, snd (methods_step prims m anc st n) = false -> snd st = false.
  Proof.
    intros [mmap err] n H. unfold methods_step in H.
    destruct (is_cp prims m anc n); [exact H|].
    destruct (find_class m n) as [c|]; [|exact H].
    destruct (fold_left _ (c_bases c) ([], [], err)) as [[inh seen] err1] eqn:E.
    destruct (existsb _ _); cbn [snd] in H; [discriminate|]. subst err1.
    apply inherit_fold_spec in E; [destruct E as [E _]; exact E|].
    split; [constructor | intro q; tauto].
  Qed.

  Lemma methods_step_other : forall st n k, k <> n ->
    lookup k (fst (methods_step prims m anc st n)) = lookup k (fst st).
  Proof.
    intros [mmap err] n k Hk. unfold methods_step.
    destruct (is_cp prims m anc n); [reflexivity|].
    destruct (find_class m n) as [c|]; [|reflexivity].
    destruct (fold_left _ (c_bases c) ([], [], err)) as [[inh seen] err1].
    destruct (existsb _ _); cbn [fst]; [reflexivity|]. apply lookup_update_other. congruence.
  Qed.

  Lemma methods_fold : forall l st,
    snd (fold_left (methods_step prims m anc) l st) = false ->
    snd st = false /\ forall k, ~ In k l ->
      lookup k (fst (fold_left (methods_step prims m anc) l st)) = lookup k (fst st).
  Proof.
    induction l as [|n l IH]; intros st H; cbn [fold_left] in *.
    - split; [exact H | intros; reflexivity].
    - apply IH in H. destruct H as [H1 H2]. split.
      + eapply methods_step_err_mono. exact H1.
      + intros k Hk. rewrite H2; [|intro Hx; apply Hk; right; exact Hx].
        apply methods_step_other. intro Hx. apply Hk. left. symmetry. exact Hx.
  Qed.

  Lemma methods_step_eq : forall mmap n c,
    is_cp prims m anc n = false -> find_class m n = Some c ->
    snd (methods_step prims m anc (mmap, false) n) = false ->
    let inh := flat_map (fun b => lk b mmap) (c_bases c) in
    lookup n (fst (methods_step prims m anc (mmap, false) n)) = Some (inh ++ lk n mmap)
    /\ NoDup (map id_val inh)
    /\ forall x, In x (lk n mmap) -> ~ In (id_val x) (map id_val inh).
  Proof.
    intros mmap n c Hcp Hc H inh0. unfold methods_step in *. rewrite Hcp, Hc in *.
    destruct (fold_left _ (c_bases c) ([], [], false)) as [[inh seen] err1] eqn:E.
    fold (lk n mmap) in *.
    destruct (existsb (fun x => mem_text (id_val x) seen) (lk n mmap)) eqn:Ex; cbn [fst snd] in *;
      [discriminate|].
    subst err1. apply inherit_fold_spec in E; [|split; [constructor | intro q; tauto]].
    destruct E as [_ [Hi [Hnd Hs]]]. cbn [app] in Hi. subst inh. fold inh0 in Hnd, Hs |- *.
    split; [apply lookup_update_same|]. split; [exact Hnd|].
    intros x Hx Hin. apply Hs in Hin.
    assert (existsb (fun x0 => mem_text (id_val x0) seen) (lk n mmap) = true).
    { apply existsb_exists. exists x. split; [exact Hx | apply mem_text_In; exact Hin]. }
    congruence.
  Qed.

  (** After the methods pass without a reported error: the methods of a class are those of
      its bases (final lists, in the declared order of the bases; their names are pairwise
      distinct, so nothing had to be de-duplicated) followed by its own, whose names differ
      from the inherited ones. *)
  Theorem methods_fold_thm : wf prims m -> forall order mmap,
    topo_sort prims m = Ok order ->
    stack_methods prims m anc order = (mmap, false) ->
    forall c, In c m -> is_cp prims m anc (c_name c) = false ->
      let inh := flat_map (fun b => lk b mmap) (c_bases c) in
      lk (c_name c) mmap = inh ++ own_ids (c_name c) (c_methods c)
      /\ NoDup (map id_val inh)
      /\ forall x, In x (own_ids (c_name c) (c_methods c)) -> ~ In (id_val x) (map id_val inh).
  Proof.
    intros Hwf order mmap Et Hs c Hc Hcp.
    destruct (topo_sort_ok prims m Hwf) as [o [Et' [Htopo Hperm]]].
    rewrite Et in Et'. injection Et' as <-.
    pose proof Hwf as [Hnd [Hbases _]].
    assert (Hndo : NoDup order).
    { eapply Permutation_NoDup; [apply Permutation_sym; exact Hperm | exact Hnd]. }
    set (n := c_name c) in *.
    assert (Hno : In n order).
    { eapply Permutation_in; [apply Permutation_sym; exact Hperm|]. unfold names. apply in_map. exact Hc. }
    destruct (order_split order n Hno Hndo) as [l1 [l2 [Eo [Hn1 Hn2]]]].
    pose proof (find_class_unique m c Hnd Hc) as Hfc. fold n in Hfc.
    unfold stack_methods in Hs. rewrite Eo, fold_left_app in Hs. cbn [fold_left] in Hs.
    set (init := (map (fun c0 => (c_name c0, own_ids (c_name c0) (c_methods c0))) m, false)) in Hs.
    set (st1 := fold_left (methods_step prims m anc) l1 init) in Hs.
    set (st2 := methods_step prims m anc st1 n) in Hs.
    assert (Hfin : snd (fold_left (methods_step prims m anc) l2 st2) = false) by (rewrite Hs; reflexivity).
    destruct (methods_fold l2 st2 Hfin) as [He2 Hl2]. rewrite Hs in Hl2. cbn [fst] in Hl2.
    assert (He1 : snd st1 = false) by (eapply methods_step_err_mono; exact He2).
    destruct (methods_fold l1 init He1) as [_ Hl1]. fold st1 in Hl1.
    destruct st1 as [s1 e1] eqn:Est1. cbn [snd fst] in *. subst e1.
    assert (Hown : lk n s1 = own_ids n (c_methods c)).
    { unfold lk. rewrite (Hl1 n Hn1). unfold init. cbn [fst].
      pose proof (lookup_init _ (fun x => own_ids (c_name x) (c_methods x)) m c Hnd Hc) as Hi0.
      fold n in Hi0. cbv beta in Hi0. rewrite Hi0. reflexivity. }
    assert (Hbase : forall b, In b (c_bases c) -> lk b mmap = lk b s1).
    { intros b Hb. unfold lk.
      assert (Hb1 : In b l1).
      { eapply (topo_split prims m order Htopo l1 n l2 Eo). exists c. split; [exact Hfc|].
        rewrite (not_cp_no_prim prims m anc c Hc Hnd Hcp). exact Hb. }
      assert (Hbn : b <> n). { intro E. subst b. contradiction. }
      assert (Hb2 : ~ In b l2).
      { rewrite Eo in Hndo. intro H.
        apply (NoDup_app_l_not_r _ l1 (n :: l2) b Hndo Hb1). right. exact H. }
      rewrite (Hl2 b Hb2). unfold st2. rewrite methods_step_other; [reflexivity | exact Hbn]. }
    pose proof (methods_step_eq s1 n c Hcp Hfc He2) as Heq. cbv zeta in Heq. fold st2 in Heq.
    rewrite Hown in Heq.
    rewrite (flat_map_ext_In _ _ _ (fun b => lk b s1) (c_bases c) Hbase).
    destruct Heq as [H1 [H2 H3]]. split; [|split; assumption].
    unfold lk at 1. rewrite (Hl2 n Hn2), H1. reflexivity.
  Qed.
End Methods.

(** * End to end: what [translate] guarantees for an accepted, well-formed hierarchy *)
Definition class_ir (r : ir) (n : name) : option cls_ir :=
  find (fun ci => text_eqb (i_name ci) n) (r_classes r).

Lemma find_map_name : forall (f : cls -> cls_ir) m c,
  (forall x, i_name (f x) = c_name x) -> NoDup (names m) -> In c m ->
  find (fun ci => text_eqb (i_name ci) (c_name c)) (map f m) = Some (f c).
Proof.
  intros f m c Hf. induction m as [|x m IH]; cbn [names map find]; intros Hnd Hin; [contradiction|].
  inversion Hnd as [|? ? Hx Hnd']; subst. rewrite Hf.
  destruct Hin as [->|Hin].
  - rewrite text_eqb_refl. reflexivity.
  - destruct (text_eqb (c_name x) (c_name c)) eqn:E.
    + apply text_eqb_eq in E. exfalso. apply Hx. rewrite E. apply in_map. exact Hin.
    + apply IH; assumption.
Qed.

Lemma map_fst_pair_owner : forall l : list (ident name), map fst (map pair_owner l) = map id_val l.
Proof. intro l. rewrite map_map. apply map_ext. intro x. reflexivity. Qed.

Lemma dedup_nil_iff : forall l, dedup text_eqb l = [] <-> l = [].
Proof.
  intro l. split; intro H; [|subst; reflexivity].
  destruct l as [|x l]; [reflexivity|]. exfalso.
  assert (Hx : In x (dedup text_eqb (x :: l))) by (apply dedup_In; left; reflexivity).
  rewrite H in Hx. destruct Hx.
Qed.

Section E2E.
  Variable prims : list name.

  Theorem properties_stacked_e2e : forall m r, translate prims m = Ok r -> wf prims m ->
    exists pmap imap : list (name * list (ident name)),
      forall c, In c m ->
        exists ci, class_ir r (c_name c) = Some ci
          /\ i_props ci = map pair_owner (lk (c_name c) pmap)
          /\ i_invs ci = map pair_owner (lk (c_name c) imap)
          /\ lk (c_name c) imap
             = dedup id_eqb (flat_map (fun b => lk b imap) (class_bases prims c))
               ++ own_ids (c_name c) (c_invs c)
          /\ (i_is_cp ci = false ->
                lk (c_name c) pmap
                = dedup id_eqb (flat_map (fun b => lk b pmap) (class_bases prims c))
                  ++ own_ids (c_name c) (c_props c)
                /\ NoDup (map fst (i_props ci))).
  Proof.
    intros m r H Hwf.
    destruct (translate_inv prims m r H)
      as [order [anc [smap [mmap [kmap [ifm [Hp [Et [Ea [Hs [Hpv [Hm [Hk [Hi [Hv ->]]]]]]]]]]]]]]].
    pose proof Hwf as [Hnd _].
    exists (stack_properties prims m anc order), (stack_invariants prims m order).
    intros c Hc. eexists. split.
    { unfold class_ir. cbn [r_classes]. apply find_map_name; [intro x; reflexivity | exact Hnd | exact Hc]. }
    cbn [ir_of i_props i_invs i_is_cp]. split; [reflexivity|]. split; [reflexivity|]. split.
    - apply (stacked_fold_thm prims m name (fun _ => false) c_invs Hwf order Et c Hc).
    - intro Hcp. split.
      + pose proof (stacked_fold_thm prims m name (is_cp prims m anc) c_props Hwf order Et c Hc) as Hx.
        cbv zeta in Hx. rewrite Hcp in Hx. exact Hx.
      + rewrite map_fst_pair_owner. eapply props_nodup_thm; eassumption.
  Qed.

  Theorem ctor_inlined_e2e : forall m r, translate prims m = Ok r -> wf prims m ->
    forall c, In c m ->
      exists ci, class_ir r (c_name c) = Some ci
        /\ (i_is_cp ci = false ->
              NoDup (i_inlined ci)
              /\ (forall p, In p (i_inlined ci) <-> In p (map fst (i_props ci)))
              /\ exists stmts : list (ident stmt),
                   i_inlined ci = map (fun x => stmt_prop (id_val x)) stmts
                   /\ forallb (fun x => is_assign (id_val x)) stmts = true).
  Proof.
    intros m r H Hwf c Hc.
    destruct (translate_inv prims m r H)
      as [order [anc [smap [mmap [kmap [ifm [Hp [Et [Ea [Hs [Hpv [Hm [Hk [Hi [Hv ->]]]]]]]]]]]]]]].
    pose proof Hwf as [Hnd _].
    eexists. split.
    { unfold class_ir. cbn [r_classes]. apply find_map_name; [intro x; reflexivity | exact Hnd | exact Hc]. }
    cbn [ir_of i_props i_inlined i_is_cp]. intro Hcp.
    destruct (ctor_fold_thm prims m anc kmap Hnd Hk c Hc Hcp) as [Hassign Hnodup].
    unfold verify_initialized in Hv. apply verify_initialized_ok in Hv. destruct Hv as [_ Hv].
    split; [exact Hnodup|]. split.
    - intro p. rewrite map_fst_pair_owner. apply Hv; assumption.
    - exists (lk (c_name c) kmap). split; [reflexivity | exact Hassign].
  Qed.

  Theorem interface_iff_e2e : forall m r, translate prims m = Ok r -> wf prims m ->
    forall c, In c m ->
      exists ci, class_ir r (c_name c) = Some ci
        /\ (i_is_cp ci = false ->
              (i_iface ci <> None <-> c_abstract c = true \/ i_descendants ci <> [])
              /\ forall l, i_iface ci = Some l -> l = c_bases c).
  Proof.
    intros m r H Hwf c Hc.
    destruct (translate_inv prims m r H)
      as [order [anc [smap [mmap [kmap [ifm [Hp [Et [Ea [Hs [Hpv [Hm [Hk [Hi [Hv ->]]]]]]]]]]]]]]].
    pose proof Hwf as [Hnd _].
    destruct (topo_sort_ok prims m Hwf) as [o [Et' [Htopo Hperm]]].
    rewrite Et in Et'. injection Et' as <-.
    assert (Hndo : NoDup order).
    { eapply Permutation_NoDup; [apply Permutation_sym; exact Hperm | exact Hnd]. }
    assert (Hno : In (c_name c) order).
    { eapply Permutation_in; [apply Permutation_sym; exact Hperm|]. unfold names. apply in_map. exact Hc. }
    eexists. split.
    { unfold class_ir. cbn [r_classes]. apply find_map_name; [intro x; reflexivity | exact Hnd | exact Hc]. }
    cbn [ir_of i_iface i_descendants i_is_cp]. intro Hcp.
    rewrite (iface_fold_thm prims m anc order ifm Hndo Hi (c_name c) c Hno Hcp
               (find_class_unique m c Hnd Hc)).
    unfold ir_descendants.
    destruct (c_abstract c) eqn:Eabs; cbn [orb].
    - split; [|intros l E; injection E as <-; reflexivity].
      split; [intros _; left; reflexivity | intros _; discriminate].
    - destruct (onto_descendants anc (c_name c)) as [|d ds] eqn:Ed; cbn [is_nil negb].
      + split; [|intros l E; discriminate].
        split; [intro Hx; contradiction|]. intros [Hx|Hx]; [discriminate|].
        exfalso. apply Hx. reflexivity.
      + split; [|intros l E; injection E as <-; reflexivity].
        split; [|intros _; discriminate]. intros _. right. intro Hx.
        apply dedup_nil_iff in Hx. discriminate.
  Qed.

  Theorem model_type_consistent_e2e : forall m r, translate prims m = Ok r -> wf prims m ->
    exists setting : name -> option bool,
      forall c, In c m ->
        exists ci, class_ir r (c_name c) = Some ci
          /\ (i_is_cp ci = false ->
                i_wmt ci = Some (match setting (c_name c) with Some v => v | None => false end)
                /\ (forall b v, In b (c_bases c) -> setting b = Some v -> setting (c_name c) = Some v)
                /\ (forall v, decl_wmt c = Some v -> setting (c_name c) = Some v)
                /\ (forall v, setting (c_name c) = Some v ->
                      decl_wmt c = Some v \/ exists b, In b (c_bases c) /\ setting b = Some v)).
  Proof.
    intros m r H Hwf.
    destruct (translate_inv prims m r H)
      as [order [anc [smap [mmap [kmap [ifm [Hp [Et [Ea [Hs [Hpv [Hm [Hk [Hi [Hv ->]]]]]]]]]]]]]]].
    pose proof Hwf as [Hnd _].
    exists (sv smap). intros c Hc. eexists. split.
    { unfold class_ir. cbn [r_classes]. apply find_map_name; [intro x; reflexivity | exact Hnd | exact Hc]. }
    cbn [ir_of i_wmt i_is_cp]. intro Hcp. rewrite Hcp. split.
    - unfold final_wmt, sv. destruct (lookup (c_name c) smap) as [[[v|]|]|]; reflexivity.
    - apply (model_type_consistent_thm prims m anc Hwf order smap Et Hs c Hc Hcp).
  Qed.
End E2E.
