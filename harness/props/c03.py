"""C03 — Exit status and error-report contract (run.write_error_report, error_message,
main.execute and every <target>/main.py:execute)."""
from __future__ import annotations

import concurrent.futures
import itertools
import random
import re
import shutil

from harness import lib
from harness.gen import metamodel as mmg
from harness.gen import report as repgen
from harness.lib import coq_list, coq_option, coq_pair, coq_text

META = {
    "title": "Exit status and error-report contract",
    "design_ref": "§4 C03",
    "level_text": (
        "Coq theorems over (a) a Gallina model of write_error_report / textwrap.indent / "
        "error_message (layout of a report, one-line headline) and (b) the control-flow "
        "skeletons of main.execute and of all eight <target>/main.py:execute, re-translated "
        "from the sources on every run: a sound contract check (return 0 iff nothing on "
        "stderr; 0 only right after the 'Code generated to:' line; non-zero only after a "
        "write to stderr) holds of every skeleton, every headline constant is free of line "
        "breaks, every branch guarded by an error variable starts by reporting it. The report "
        "model is tied to the code by a correspondence stream evaluated inside Coq; the "
        "contract is also run on the real CLI (both entry points) on valid and invalid "
        "meta-models."
    ),
    "level_note": (
        "Partial: indentation of continuation lines is corresponded, not proved; 'every "
        "independent error is reported' is proved only for the plumbing of error lists (the "
        "rule code is opaque in the skeletons); smoke/main.py belongs to C28; run.load_model "
        "contributes only its headline constants."
    ),
    "technique": "Coq proof over regenerated control-flow skeletons + in-Coq correspondence "
                 "check of the report model + CLI oracle",
}
GEN = ["GenSkeletons", "GenPyWhitespace"]
MODEL = ["Model/Report", "Model/Skeleton", "Gen/GenPyWhitespace"]
TRUSTED = [
    "harness/translate/skeletons.py: Python ast -> skeleton (conditions non-deterministic, "
    "statements not touching stdout/stderr opaque; fails closed otherwise)",
    "Model/Report.v is a hand-written model of write_error_report/textwrap.indent/"
    "error_message (correspondence-checked)",
    "exceptions escaping execute are outside the trace semantics (C01/C02)",
]
RULE = ("report stream: (headline, errors) with multi-line / blank-leading / astral / CRLF / "
        "VT / LS texts, precondition violations included; nested errors up to depth 3; "
        "non-trivial = at least one error with two or more lines; CLI stream: valid and "
        "invalid meta-models x targets x entry points, and for every target a generated model "
        "with implementation-specific items run with all / all but one / all but another / all "
        "but both snippets; accumulation stream: a generated model x all pairs (and some "
        "triples) of 18 rule violations injected into independent declarations, single and "
        "combined, through the real front end")

HEADER = """From Coq Require Import List NArith ZArith Bool.
From Acg Require Import Base.Str Base.Outcome Model.Report Gen.GenPyWhitespace.
Import ListNotations.
Open Scope N_scope.
Inductive case :=
| CReport (m : text) (errs : list text) (impl : option text)
| CError (e : error) (impl : option text).
Definition impl_res (o : option text) : outcome text unit :=
  match o with Some t => Ok t | None => Crash Violation end.
Definition case_ok (c : case) : bool :=
  match c with
  | CReport m errs impl =>
      res_eqb (write_error_report py_line_boundaries py_whitespace m errs) (impl_res impl)
  | CError e impl =>
      res_eqb (Ok (error_message py_line_boundaries py_whitespace e)) (impl_res impl)
  end.
Fixpoint bad_from (i : nat) (cs : list case) : list nat :=
  match cs with
  | [] => []
  | c :: r => if case_ok c then bad_from (S i) r else i :: bad_from (S i) r
  end.
Definition bad := bad_from 0.
"""

PIECES = ["a", "Error in x", " ", "  lead", "\n", "\n", "\r\n", "\x0b", "\u2028", "*", ":", "😀",
          "é", "\t", "At line 1 and column 2: m", "\n  ", " \n"]


def text(rng, maxn=6):
    return "".join(rng.choice(PIECES) for _ in range(rng.randrange(0, maxn)))


def nested(rng, depth=0):
    if depth >= 3 or rng.random() < 0.4:
        return [text(rng, 4), rng.choice([None, []])]
    return [text(rng, 4), [nested(rng, depth + 1) for _ in range(rng.randrange(1, 4))]]


def coq_error(e):
    und = e[1] or []
    return f"(MkError [] {coq_text(e[0])} {coq_list(coq_error(u) for u in und)})"


def layout_fails(stderr: str, cli: bool = False):
    """The report layout of the property: one-line headline ending in ':' followed by
    '* '-bulleted, indented entries — or a single line."""
    lines = stderr.split("\n")
    if stderr.endswith("\n"):
        lines = lines[:-1]
    if cli and len(lines) == 1 and lines[0].endswith(":"):
        return "report-without-entries"
    if len(lines) <= 1:
        return None
    if not lines[0].endswith(":"):
        return "headline-not-one-line"
    if not lines[1].startswith("* "):
        return "headline-not-one-line" if lines[1].strip() == "" or not lines[1].startswith(" ") \
            else "entry-without-bullet"
    for ln in lines[1:]:
        if not (ln.startswith("* ") or ln.startswith("  ") or ln.strip() == ""):
            return "entry-line-not-indented"
    return None



AT_RE = re.compile(r"^At line -?\d+ and column -?\d+: ")
TARGETS = ["csharp", "cpp", "golang", "java", "jsonschema", "python", "typescript", "xsd"]
# Declared dependency of the front end (intermediate._verify): the check "constructor
# arguments and properties match" runs only if every property is initialised in its
# constructor; pairs of these two kinds of rules are not expected to be reported together.
GATING_RE = re.compile(r"is not properly initialized in the constructor")
GATED_RE = re.compile(r"^(The properties and constructor arguments do not coincide|The order of constructor "
                      r"arguments and properties|The constructor argument .* mismatch in type|No constructor "
                      r"has been specified)")


def report_lines(stderr):
    """(headline, set of entry lines without bullets, indentation and location prefix,
    number of bullets)."""
    if not stderr:
        return None, set(), 0
    lines = stderr.split("\n")
    head = lines[0]
    body = set()
    bullets = 0
    for ln in lines[1:]:
        if ln.startswith("* "):
            bullets += 1
            ln = ln[2:]
        ln = AT_RE.sub("", ln.strip())
        if ln:
            body.add(ln)
    return head, body, bullets


def generator_failure_cases(ctx, base):
    """For every target: a model with implementation-specific classes / methods /
    verification functions and the synthesised snippets (must succeed), then the same
    with one, another one, and both snippets missing. -> (cases, groups)"""
    rng = random.Random(ctx.rng.random())
    mm = None
    for _ in range(200):
        cand = mmg.random_metamodel(random.Random(rng.random()), "small")
        cl, me, fn = mmg._impl_specific(cand)
        if me or fn:
            mm = cand
            break
    if mm is None:
        raise lib.HarnessError("no meta-model with implementation-specific items generated")
    # second model: additionally a concrete leaf class marked implementation-specific (the
    # random generator never does that; several generators cannot cope with it, so it is
    # used for the schema targets and Python only and skipped where the full run fails)
    mm_b = mmg.loads(mmg.dumps(mm))
    with_kids = {b for c in mm_b.classes for b in c.bases}
    leaves = [c for c in mm_b.classes if c.name not in with_kids]
    if leaves:
        rng.choice(leaves).is_implementation_specific = True
    plan = [(mm, "a", TARGETS), (mm_b, "b", ["jsonschema", "xsd", "python"])]
    cases, groups = [], []
    for model, tag, targets in plan:
        mp = base / f"gen_model_{tag}.py"
        mp.write_text(mmg.render_source(model), encoding="utf-8")
        _generator_groups(rng, base, model, mp, tag, targets, cases, groups)
    return cases, groups


def _generator_groups(rng, base, mm, mp, tag, targets, cases, groups):
    for target in targets:
        snippets = mmg.synth_snippets(mm, target)
        keys = sorted(snippets)
        specific = [k for k in keys if "/" in k or k[:1].isupper()] or keys
        k1 = rng.choice(specific)
        same_dir = [k for k in specific if k != k1 and "/" in k and k.rsplit("/", 1)[0] == k1.rsplit("/", 1)[0]]
        rest = same_dir or [k for k in specific if k != k1] or [k for k in keys if k != k1]
        k2 = rng.choice(rest) if rest else None
        variants = [("full", set()), ("minus1", {k1})]
        if k2 is not None:
            variants += [("minus2", {k2}), ("minus12", {k1, k2})]
        group = {"target": target, "removed": [k1, k2], "idx": {},
                 "same_kind": bool(k2) and "/" in k1 and "/" in k2
                 and k1.rsplit("/", 1)[0] == k2.rsplit("/", 1)[0]}
        for vname, removed in variants:
            sd = base / f"snip-{tag}-{target}-{vname}"
            for k, v in snippets.items():
                if k in removed:
                    continue
                (sd / k).parent.mkdir(parents=True, exist_ok=True)
                (sd / k).write_text(v, encoding="utf-8")
            sd.mkdir(parents=True, exist_ok=True)
            out = base / f"out-gen-{tag}-{target}-{vname}"
            out.mkdir()
            group["idx"][vname] = len(cases)
            cases.append((f"generator-{tag}-{vname}/{target}/aas_core_codegen.main",
                          ["-m", "aas_core_codegen.main", "--model_path", str(mp), "--snippets_dir",
                           str(sd), "--output_dir", str(out), "--target", target], str(out)))
        groups.append(group)


def accumulation_models(ctx):
    """Base model x all pairs (and a few triples) of mutation rules on independent
    declarations. -> list of {"rules", "combined", "singles", "notes"}"""
    out = []
    rules = list(mmg.MUTATIONS)
    for b in range(ctx.n(1, 6)):
        mm0 = None
        for _ in range(50):
            cand = mmg.random_metamodel(random.Random(ctx.rng.random()), "small")
            if len(cand.classes) >= 6 and cand.verification_functions:
                mm0 = cand
                break
        if mm0 is None:
            continue
        combos = list(itertools.combinations(rules, 2))
        combos += [tuple(ctx.rng.sample(rules, 3)) for _ in range(ctx.n(8, 40))]
        for combo in combos:
            res = repgen.combine(mm0, random.Random(f"{ctx.seed}:{b}:{combo}"), list(combo))
            if res is None:
                continue
            combined, singles, notes = res
            out.append({"rules": list(combo), "combined": combined, "singles": singles,
                        "notes": notes, "base": b})
    return out


def frontend_batch(texts, parts=6):
    """Run the real front end on many texts, in a few parallel fresh processes."""
    chunks = [texts[i::parts] for i in range(parts)]
    with concurrent.futures.ThreadPoolExecutor(max_workers=parts) as ex:
        answers = list(ex.map(lambda ch: lib.impl_call("report.py", {"frontend": ch}, timeout=1700)["frontend"]
                              if ch else [], chunks))
    out = [None] * len(texts)
    for p, ans in enumerate(answers):
        for j, a in enumerate(ans):
            out[p + j * parts] = a
    return out


def accumulation_stream(ctx):
    models = accumulation_models(ctx)
    texts, index = [], {}
    for m in models:
        for t in [m["combined"], *m["singles"].values()]:
            if t not in index:
                index[t] = len(texts)
                texts.append(t)
    answers = frontend_batch(texts)

    def rep(t):
        a = answers[index[t]]
        return None if "exc" in a else report_lines(a["stderr"])

    # Which error lines are reported together (same pass of the front end)? An error is
    # identified by base model and its line without the location prefix; the lines shared
    # by all single reports of a combination are wrappers.
    together = {}
    observations = []
    for m in models:
        comb = rep(m["combined"])
        sing = {r: rep(t) for r, t in m["singles"].items()}
        if comb is None or any(v is None for v in sing.values()):
            continue        # a crash of the front end is C01's business
        if comb[0] is None or any(v[0] is None for v in sing.values()):
            continue        # a mutant that is accepted: nothing to compare
        wrappers = set.intersection(*[v[1] for v in sing.values()])
        own = {r: {(m["base"], ln) for ln in v[1] - wrappers} if v[0] == comb[0] else set()
               for r, v in sing.items()}
        present = {(m["base"], ln) for ln in comb[1]}
        observations.append((m, comb, sing, own, present))
        for r, o in itertools.permutations(m["rules"], 2):
            for x in own[r] & present:
                for y in own[o] & present:
                    together.setdefault(x, set()).add(y)
    n_checked = 0
    reported = set()
    for m, comb, sing, own, present in observations:
        for r, o in itertools.permutations(m["rules"], 2):
            for x in sorted(own[r] - present):
                for y in sorted(own[o] & present):
                    # x was dropped next to y. That is expected only if x belongs to a later
                    # pass than y; evidence for "same pass": a third error reported together
                    # with both of them.
                    if GATING_RE.search(y[1]) and GATED_RE.search(x[1]):
                        continue
                    n_checked += 1
                    common = (together.get(x, set()) & together.get(y, set())) - {x, y}
                    key = f"independent-error-dropped:{r}-next-to-{o}"
                    if not common or key in reported:
                        continue
                    reported.add(key)
                    ctx.impl_failure(
                        key, "an error reported for the single-violation model is missing from the "
                             "report of the model with both violations, although each of the two is "
                             "reported together with a third one (so all belong to one pass)",
                        {"rules": m["rules"], "notes": m["notes"], "combined_model": m["combined"],
                         "single_model_of_dropped_rule": m["singles"][r]},
                        {"dropped": x[1], "reported_next_to_it": y[1],
                         "both_reported_together_with": sorted(c[1] for c in common)[:2],
                         "combined_report": sorted(comb[1])[:12]},
                        "accumulation",
                        "write the model to m.py; PYTHONPATH=<repo> python -m aas_core_codegen.main "
                        "--model_path m.py --snippets_dir <empty dir> --output_dir out --target jsonschema")
    n_pairs = sum(1 for m in models if len(m["rules"]) == 2)
    ctx.count("accumulation", len(texts), nontrivial_keys=[repr(m["rules"]) + str(m["base"]) for m in models],
              validated=len(texts), combinations=len(models), pairs=n_pairs,
              reported_together_line_pairs=sum(len(v) for v in together.values()) // 2,
              drops_examined=n_checked)
    for m in models[:2]:
        ctx.sample({"rules": m["rules"], "notes": m["notes"]})


def cli_cases(ctx):
    """-> list of (label, argv, output_dir)"""
    base = ctx.work / "cli"
    if base.exists():
        shutil.rmtree(base)
    base.mkdir(parents=True)
    empty_snip = base / "empty_snippets"
    empty_snip.mkdir()
    models = {
        "method": ("class Something:\n    x: int\n\n    def __init__(self, x: int) -> None:\n"
                   "        self.x = x\n\n    def do_something(self) -> int:\n        return self.x\n\n\n"
                   "__version__ = \"V1\"\n__xml_namespace__ = \"https://example.com/1\"\n"),
        "syntax": "class A(:\n",
        "no_version": "class A:\n    x: int\n",
        "two_errors": ("class A(Enum):\n    x: int\n\n\nclass B(Unknown):\n    y: int\n\n\n"
                       "__version__ = \"V1\"\n__xml_namespace__ = \"https://example.com/1\"\n"),
        "plain": ("class Something:\n    x: int\n\n    def __init__(self, x: int) -> None:\n"
                  "        self.x = x\n\n\n__version__ = \"V1\"\n"
                  "__xml_namespace__ = \"https://example.com/1\"\n"),
    }
    cases = []
    td = lib.REPO / "dev" / "test_data"
    for label, src in models.items():
        mp = base / f"{label}.py"
        mp.write_text(src, encoding="utf-8")
        for target in (["python", "csharp", "jsonschema"] if label in ("method", "plain") else ["python"]):
            for entry in ("aas_core_codegen.main", "aas_core_codegen"):
                out = base / f"out-{label}-{target}-{entry.count('.')}"
                out.mkdir()
                cases.append((f"{label}/{target}/{entry}",
                              ["-m", entry, "--model_path", str(mp), "--snippets_dir", str(empty_snip),
                               "--output_dir", str(out), "--target", target], str(out)))
    for target in ("python", "jsonschema"):
        snip = td / "main" / target / "expected" / "enum" / "input" / "snippets"
        mp = td / "common_meta_models" / "enum.py"
        if snip.is_dir() and mp.is_file():
            out = base / f"out-golden-{target}"
            out.mkdir()
            cases.append((f"golden-enum/{target}/aas_core_codegen.main",
                          ["-m", "aas_core_codegen.main", "--model_path", str(mp), "--snippets_dir",
                           str(snip), "--output_dir", str(out), "--target", target], str(out)))
    gen_cases, groups = generator_failure_cases(ctx, base)
    offset = len(cases) + 1
    for g in groups:
        g["idx"] = {k: v + offset for k, v in g["idx"].items()}
    cases.append(("missing-model/python/aas_core_codegen.main",
                  ["-m", "aas_core_codegen.main", "--model_path", str(base / "nope.py"), "--snippets_dir",
                   str(empty_snip), "--output_dir", str(base / "o"), "--target", "python"], str(base / "o")))
    return cases + gen_cases, groups


def streams(ctx: lib.Ctx) -> None:
    reports = [["h", ["a\nb"]], ["h:", []], ["h", ["*x"]], ["h", [""]], ["h", [" \nfoo"]], ["", []],
               ["h", ["a\r\nb", "c\u2028d"]], ["h\n", ["x"]], ["h", ["x\n"]], ["*h", []]]
    for _ in range(ctx.n(600, 8000)):
        reports.append([text(ctx.rng, 4) or "h", [text(ctx.rng) for _ in range(ctx.rng.randrange(0, 4))]])
    errors = [["m", None], ["m", [["u", None]]], ["m", [["a\nb", [["c", []]]], [" ", None]]]]
    for _ in range(ctx.n(300, 4000)):
        errors.append(nested(ctx.rng))
    cli, groups = cli_cases(ctx)
    ans = lib.impl_call("report.py", {"reports": reports, "errors": errors,
                                      "cli": [argv for _, argv, _ in cli]}, timeout=1700)

    coq_cases, inputs, nontrivial = [], [], []
    shares = {"ok": 0, "violation": 0}
    for (m, errs), res in zip(reports, ans["reports"]):
        impl = res.get("ok")
        if impl is None and res.get("exc") != "ViolationError":
            ctx.impl_failure(f"write_error_report-raises-{res.get('exc')}", "unexpected exception",
                             {"message": m, "errors": errs}, res, "report")
        shares["ok" if impl is not None else "violation"] += 1
        if impl is not None:
            # the layout is judged on "\n"-separated lines: only texts whose line
            # boundaries are all "\n" (no CR, VT, FF, LS, ...) are judged
            exotic = any(c in "\r\x0b\x0c\x1c\x1d\x1e\x85\u2028\u2029" for c in m + "".join(errs))
            fail = layout_fails(impl) if ("\n" not in m and not exotic) else None
            if fail:
                ctx.impl_failure(f"report-{fail}", "report layout broken although the preconditions hold",
                                 {"message": m, "errors": errs}, impl, "report")
        coq_cases.append(f"CReport {coq_text(m)} {coq_list(coq_text(e) for e in errs)} "
                         f"{coq_option(None if impl is None else coq_text(impl))}")
        inputs.append({"message": m, "errors": errs, "impl": res})
        if any("\n" in e.strip("\n") for e in errs):
            nontrivial.append(repr((m, errs)))
    for e, res in zip(errors, ans["errors"]):
        impl = res.get("ok")
        coq_cases.append(f"CError {coq_error(e)} {coq_option(None if impl is None else coq_text(impl))}")
        inputs.append({"error": e, "impl": res})
        if e[1]:
            nontrivial.append(repr(e))
    bad, _log = lib.run_cases(ctx.work, "cases", HEADER, "case", "bad", coq_cases, shard=150)
    for i in bad[:10]:
        ctx.corr_break("report", inputs[i], "(see Model/Report.v)", inputs[i]["impl"])
    ctx.count("report", len(coq_cases), nontrivial_keys=nontrivial, validated=len(coq_cases), **shares)

    # the contract on the real CLI
    seen = set()
    for (label, argv, outdir), res in zip(cli, ans["cli"]):
        entry = label.split("/")[-1]
        key = None
        if (res["rc"] == 0) != (res["stderr"] == ""):
            key = f"exit-status-{'zero' if res['rc'] == 0 else 'nonzero'}-" \
                  f"{'with' if res['stderr'] else 'without'}-stderr:{entry}"
        elif res["rc"] == 0 and not res["stdout"].endswith(f"Code generated to: {outdir}\n"):
            key = "success-without-code-generated-line"
        elif res["rc"] != 0 and "Traceback (most recent call last)" in res["stderr"]:
            key = None      # crashes are C01/C02
        elif res["rc"] != 0:
            fail = layout_fails(res["stderr"], cli=True)
            key = fail
        if key and key not in seen:
            seen.add(key)
            ctx.impl_failure(key, f"CLI contract broken ({label})", {"argv": argv},
                             {k: v[-1500:] if isinstance(v, str) else v for k, v in res.items()},
                             "cli", f"PYTHONPATH={lib.REPO} {lib.PY} " + " ".join(argv))
        ctx.sample({"cli": label, "rc": res["rc"], "stderr_head": res["stderr"][:120]})
    # failures inside the generators: a known number of injected problems
    for g in groups:
        runs = {k: ans["cli"][i] for k, i in g["idx"].items()}
        t = g["target"]

        def fail(key, what, vname):
            if key not in seen:
                seen.add(key)
                label, argv, _ = cli[g["idx"][vname]]
                r = runs[vname]
                ctx.impl_failure(key, f"{what} ({label}; removed snippets {g['removed']})", {"argv": argv},
                                 {k: v[-1500:] if isinstance(v, str) else v for k, v in r.items()},
                                 "cli", f"PYTHONPATH={lib.REPO} {lib.PY} " + " ".join(argv))
        if "Traceback (most recent call last)" in "".join(r["stderr"] for r in runs.values()):
            continue
        if runs["full"]["rc"] != 0:
            continue        # the generated model is not accepted by this generator: C02's business
        reps = {k: report_lines(r["stderr"]) for k, r in runs.items()}
        for vname in ("minus1", "minus2", "minus12"):
            if vname not in runs:
                continue
            if runs[vname]["rc"] == 0:
                continue    # harness/gen synthesises a superset of the required snippets
            elif runs[vname]["stderr"].count("\n") > 1 and reps[vname][2] < 1:
                fail("report-without-entries", "report without any bullet", vname)
        if "minus12" in runs and runs["minus12"]["rc"] != 0:
            failing = [v for v in ("minus1", "minus2") if runs[v]["rc"] != 0]
            kept = [v for v in failing if reps[v][0] == reps["minus12"][0] and reps[v][1] <= reps["minus12"][1]]
            same_head = [v for v in failing if reps[v][0] == reps["minus12"][0]]
            if same_head and not kept:
                # whatever the order of the generator's steps, the problem it stops at is
                # one of the two injected ones
                fail(f"generator-error-dropped:{t}",
                     "none of the entries reported with one snippet missing is reported with both missing",
                     "minus12")
            elif g["same_kind"] and len(same_head) == 2 and len(kept) < 2 \
                    and reps["minus1"][1] != reps["minus2"][1]:
                # two snippets of the same kind (same sub-directory) are looked up by the
                # same generation step: both problems are reported together
                fail(f"generator-error-dropped:{t}",
                     "two missing snippets of the same kind, but only one of the two entries is reported",
                     "minus12")
    ctx.count("cli", len(cli), nontrivial_keys=[c[0] for c in cli], validated=len(cli),
              rc_zero=sum(1 for r in ans["cli"] if r["rc"] == 0))
    shutil.rmtree(ctx.work / "cli", ignore_errors=True)

    accumulation_stream(ctx)
