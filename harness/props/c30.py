"""C30 — Generated constants and enumerations match the meta-model."""
from __future__ import annotations

import math
from typing import Any, Dict, List, Tuple

from harness import lib
from harness.gen import metamodel as mmg
from harness.gen import sdk as sdkg
from harness.gen import sdkrun

META = {
    "title": "Generated constants and enumerations match the meta-model",
    "design_ref": "§4 C30",
    "level_text": (
        "Coq theorems, for all tables of constants and all enumerations, over (a) a Gallina "
        "model of the front end's superset_of resolution pass (never raises; accepted => every "
        "declared superset contains its subsets' literals, transitively; hence 'listed literals "
        "plus subsets' literals' = listed literals) and (b) the specification of the enumeration "
        "text maps (to_str/from_str round trip; other text -> no literal). The model (a) is "
        "run against the real front end on generated constant tables; the real generated Python "
        "SDK (real CLI, imported in a fresh process) is compared inside Coq with the "
        "specification (constant sets, from_str probes) and checked by a direct oracle "
        "(primitive constants value-exact, set contents, enum members, round trip)."
    ),
    "level_note": (
        "PARTIAL. Theorem half: resolution pass model + enum map specification. Corresponded "
        "half (not proved): that python/lib/_generate_constants.py, _generate_stringification.py "
        "and _generate_types.py emit code computing the specification (sampled meta-models); "
        "emission of primitive literals is not modelled here (C19 proves the escapers), it is "
        "only executed by the oracle."
    ),
    "technique": "Coq proof (induction over the resolution loop; closure by clos_refl_trans) + "
                 "in-Coq correspondence with the front end and with generated SDKs",
}
GEN: List[str] = []
MODEL = ["Model/SdkSpecConst"]
TRUSTED = [
    "Model/SdkSpecConst.v resolve_* is a hand-written model of intermediate/_translate.py "
    "_resolve_subsets_in_constant_set_of_* (correspondence-checked against the front end)",
    "the generated SDK computes the specification beyond the sampled meta-models",
    "harness/gen/metamodel.py render_source (meta-model text), harness/impl/cli.py, pysdk.py",
    "Python's set/dict/enum semantics as used by the generated constants/stringification modules",
]
RULE = ("case = one constant set or one enumeration of a generated meta-model (tables with "
        "superset_of chains <= 5, forward/self/cyclic references, bool-in-int sets, violations: "
        "missing literal, other type, unknown name, non-set target); non-trivial = the set has at "
        "least one declared subset or the table is refused / the enumeration has >= 2 literals; "
        "distinct by table content")

HEADER = """From Coq Require Import List NArith ZArith Bool.
From Acg Require Import Base.Str Base.Outcome Model.SdkSpecConst.
Import ListNotations.
Open Scope N_scope.
(* front end: (table, accepted?, resolved subset names per set when accepted) *)
Definition fe_case : Type := (list const * bool * list (text * list text))%type.
Definition names_eqb (a b : list (text * list text)) : bool :=
  list_eqb (fun x y => text_eqb (fst x) (fst y) && list_eqb text_eqb (snd x) (snd y)) a b.
Definition fe_ok (c : fe_case) : bool :=
  match c with
  | (table, acc, names) =>
      match resolve_all table with
      | Ok out => acc && names_eqb out names
      | Err _ => negb acc
      | Crash _ => false
      end
  end.
(* SDK constant set: (table, name, observed members) *)
Definition set_case : Type := (list const * text * list lit)%type.
Definition set_ok (c : set_case) : bool :=
  match c with
  | (table, n, observed) =>
      match find_const table n with
      | Some s => set_eq_lits observed (closure_lits (length table) table s)
                  && set_eq_lits observed (k_lits s)
                  && Nat.leb (length observed) (length (k_lits s))
      | None => false
      end
  end.
(* SDK enumeration: (literals, members observed as (name, value), probes with observed answer) *)
Definition enum_case : Type :=
  (list eliteral * list eliteral * list (text * option eliteral))%type.
Definition enum_ok (c : enum_case) : bool :=
  match c with
  | (lits, members, probes) =>
      list_eqb eliteral_eqb lits members
      && forallb (fun p => option_eqb eliteral_eqb (from_str lits (fst p)) (snd p)) probes
      && forallb (fun l => option_eqb eliteral_eqb (from_str lits (to_str l)) (Some l)) lits
  end.
Fixpoint bad_from {A} (ok : A -> bool) (i : nat) (cs : list A) : list nat :=
  match cs with
  | [] => []
  | c :: r => if ok c then bad_from ok (S i) r else i :: bad_from ok (S i) r
  end.
Definition bad_fe := bad_from fe_ok 0.
Definition bad_set := bad_from set_ok 0.
Definition bad_enum := bad_from enum_ok 0.
"""


# ---------------------------------------------------------------------------------------
# Coq printers
# ---------------------------------------------------------------------------------------
def cq_lit(v: Any, is_enum: bool) -> str:
    if is_enum:
        return f"(LEnum {sdkg.cq_text(v)})"
    if isinstance(v, bool):
        return f"(LBool {sdkg.cq_bool(v)})"
    if isinstance(v, int):
        return f"(LInt ({v})%Z)"
    if isinstance(v, str):
        return f"(LStr {sdkg.cq_text(v)})"
    raise TypeError(v)


def cq_enc_lit(e: Dict[str, Any]) -> str:
    if "e" in e:
        return f"(LEnum {sdkg.cq_text(e['l'])})"
    if "b" in e:
        return f"(LBool {sdkg.cq_bool(e['b'])})"
    if "i" in e:
        return f"(LInt ({e['i']})%Z)"
    if "s" in e:
        return f"(LStr {sdkg.cq_cps(e['s'])})"
    raise TypeError(e)


def cq_table(consts: List[Any]) -> str:
    items = []
    for k in consts:
        if isinstance(k, mmg.ConstantPrimitive):
            items.append(f"(mkConst {sdkg.cq_text(k.name)} KPrimitive [] [])")
            continue
        is_enum = k.items_type not in mmg.PRIMITIVES
        kind = (f"(KSetEnum {sdkg.cq_text(k.items_type)})" if is_enum
                else f"(KSetPrim {sdkg.cq_text(k.items_type)})")
        lits = sdkg.cq_list([cq_lit(v, is_enum) for v in k.values])
        subs = sdkg.cq_list([sdkg.cq_text(n) for n in k.superset_of])
        items.append(f"(mkConst {sdkg.cq_text(k.name)} {kind} {lits} {subs})")
    return sdkg.cq_list(items)


# ---------------------------------------------------------------------------------------
# Front-end stream: random tables of constants
# ---------------------------------------------------------------------------------------
def py_contains(sup: mmg.ConstantSet, sub: mmg.ConstantSet) -> bool:
    return all(any(v == w for w in sup.values) for v in sub.values)


def gen_table(rng, idx: int) -> Tuple[mmg.MetaModel, Dict[str, Any]]:
    mm = sdkg._mm()
    enums = [mmg.Enumeration("Colour", [mmg.EnumLiteral(n, n.lower()) for n in ["Red", "Green", "Blue", "Dark_red"]]),
             mmg.Enumeration("Shape", [mmg.EnumLiteral(n, n.lower()) for n in ["Red", "Square", "Round"]])]
    mm.enumerations = enums
    consts: List[Any] = []
    n = rng.randint(2, 7)
    names = [f"Set_{chr(97 + i)}" for i in range(n)]
    pools = {"str": ["p", "q", "r", "s", "", "x y", "P"], "int": [0, 1, 2, 3, 40, 2**40, True, False],
             "bool": [True, False], "Colour": ["Red", "Green", "Blue", "Dark_red"],
             "Shape": ["Red", "Square", "Round"]}
    family = rng.choice(["str", "int", "Colour", "mixed"])
    if rng.random() < 0.3:
        consts.append(mmg.ConstantPrimitive("Plain_number", "int", 1))
    plan = rng.choice(["valid", "valid", "missing", "type", "unknown", "nonset", "cycle", "self"])
    sets: List[mmg.ConstantSet] = []
    for i, name in enumerate(names):
        t = family if family != "mixed" else rng.choice(["str", "int", "Colour", "Shape", "bool"])
        same = [s for s in sets if s.items_type == t]
        subs = rng.sample(same, min(len(same), rng.choice([0, 1, 1, 2]))) if same else []
        values: List[Any] = []
        for sub in subs:
            for v in sub.values:
                if not any(v == w for w in values):
                    values.append(v)
        extra = [v for v in pools[t] if not any(v == w for w in values)]
        k = rng.randint(0 if values else 1, min(3, len(extra))) if extra else 0
        values += rng.sample(extra, k)
        if not values:
            values = [pools[t][0]]
        rng.shuffle(values)
        if rng.random() < 0.1 and t in ("str", "int", "bool"):
            # duplicate literal: accepted by the front end for primitive sets (a duplicate
            # enumeration literal makes the front end raise - C01's topic, not generated)
            values.append(values[0])
        sets.append(mmg.ConstantSet(name, t, values, superset_of=[s.name for s in subs]))
    info = {"plan": plan}
    with_subs = [s for s in sets if s.superset_of]
    if plan == "missing" and with_subs:
        s = rng.choice(with_subs)
        sub = next(x for x in sets if x.name == s.superset_of[0])
        victim = rng.choice(sub.values)
        s.values = [v for v in s.values if not v == victim] or [pools[s.items_type][-1]]
    elif plan == "type" and with_subs:
        s = rng.choice(with_subs)
        others = [x for x in sets if x.items_type != s.items_type]
        if others:
            s.superset_of = s.superset_of + [rng.choice(others).name]
        else:
            s.items_type = "int" if s.items_type != "int" else "str"
            s.values = [pools[s.items_type][0]]
    elif plan == "unknown" and sets:
        rng.choice(sets).superset_of.append("Set_nowhere")
    elif plan == "nonset" and sets:
        if not any(isinstance(c, mmg.ConstantPrimitive) for c in consts):
            consts.append(mmg.ConstantPrimitive("Plain_number", "int", 1))
        rng.choice(sets).superset_of.append("Plain_number")
    elif plan == "cycle" and with_subs:
        s = rng.choice(with_subs)
        sub = next(x for x in sets if x.name == s.superset_of[0])
        sub.superset_of = sub.superset_of + [s.name]      # valid only if the two are equal
        if rng.random() < 0.5:
            sub.values = list(s.values)
    elif plan == "self" and sets:
        s = rng.choice(sets)
        s.superset_of = s.superset_of + [s.name]
    order = list(sets)
    if rng.random() < 0.5:
        rng.shuffle(order)        # forward references
    mm.constants = consts + order
    return mm, info


def spec_verdict(consts: List[Any]) -> bool:
    """The property's own reading, independent of the Coq model: every declared subset
    exists, is a set of the same item type, and is contained."""
    by_name = {k.name: k for k in consts}
    for k in consts:
        if not isinstance(k, mmg.ConstantSet):
            continue
        for n in k.superset_of:
            t = by_name.get(n)
            if t is None or not isinstance(t, mmg.ConstantSet) or t.items_type != k.items_type:
                return False
            if not py_contains(k, t):
                return False
    return True


def stream_frontend(ctx: lib.Ctx) -> None:
    n = ctx.n(96, 1500)
    tables = [gen_table(ctx.rng, i) for i in range(n)]
    texts = [mmg.render_source(mm) for mm, _ in tables]
    chunks = [list(range(k, n, 12)) for k in range(12)]
    res: List[Any] = [None] * n

    def run(idxs: List[int]) -> None:
        if idxs:
            out = lib.impl_call("frontend.py", {"models": [texts[i] for i in idxs], "view": True}, timeout=1500)
            for i, r in zip(idxs, out):
                res[i] = r
    import concurrent.futures
    with concurrent.futures.ThreadPoolExecutor(max_workers=12) as ex:
        list(ex.map(run, chunks))
    cases = []
    nontrivial = []
    dist: Dict[str, int] = {}
    for (mm, info), r in zip(tables, res):
        key = lib.stable_key(mmg.render_source(mm))
        status = r["status"]
        dist[f"{info['plan']}:{status}"] = dist.get(f"{info['plan']}:{status}", 0) + 1
        should = spec_verdict(mm.constants)
        if status == "crash":
            ctx.impl_failure(f"frontend-crash-{r.get('exception')}-{key}",
                             f"front end raised {r.get('exception')} on a table of constants",
                             {"model": mmg.render_source(mm)}, r, "frontend")
            continue
        accepted = status == "ok"
        if accepted and not should:
            ctx.impl_failure(f"accepted-non-superset-{key}",
                             "the front end accepted a constant set that does not contain a declared subset",
                             {"model": mmg.render_source(mm)}, r.get("view", {}).get("constants"), "frontend")
        names = []
        if accepted:
            for k in r["view"]["constants"]:
                if k["kind"] != "primitive":
                    names.append(f"({sdkg.cq_text(k['name'])}, {sdkg.cq_list([sdkg.cq_text(s) for s in k['subsets']])})")
        cases.append((mm, lib.coq_pair(cq_table(mm.constants), lib.coq_bool(accepted), sdkg.cq_list(names)), r))
        if any(isinstance(k, mmg.ConstantSet) and k.superset_of for k in mm.constants):
            nontrivial.append(key)
    bad, _ = lib.run_cases(ctx.work, "fe", HEADER, "fe_case", "bad_fe", [c[1] for c in cases])
    for i in bad[:10]:
        mm, term, r = cases[i]
        model = lib.coq_eval(ctx.work, "show_fe", HEADER, f"resolve_all {cq_table(mm.constants)}")
        ctx.corr_break("frontend", {"model": mmg.render_source(mm)}, model[-1500:],
                       {"status": r["status"], "error": (r.get("error") or "")[:500]})
    ctx.count("frontend", len(tables), nontrivial_keys=nontrivial, validated=len(cases), outcomes=dist)
    ctx.sample({"stream": "frontend", "model_tail": mmg.render_source(tables[0][0])[-400:], "status": res[0]["status"]})


# ---------------------------------------------------------------------------------------
# SDK stream
# ---------------------------------------------------------------------------------------
def typed(e: Any) -> Any:
    """Encoded value -> hashable (type tag, payload)."""
    if e is None:
        return ("none",)
    for k in ("b", "i", "d", "y"):
        if k in e:
            return (k, e[k])
    if "s" in e:
        return ("s", tuple(e["s"]))
    if "e" in e:
        return ("e", e["e"], e["l"])
    return ("?", repr(e))


def py_equal_class(t: Any) -> Any:
    """Python set semantics: True == 1."""
    if t[0] == "b":
        return ("i", "1" if t[1] else "0")
    return t


def build_models(ctx: lib.Ctx) -> List[sdkg.SdkModel]:
    rng = ctx.rng
    models: List[sdkg.SdkModel] = []
    k = ctx.n(3, 20)
    for i in range(k):
        models.append(sdkg.model_constants(rng, i, f"c30_m{i}"))
    models.append(sdkg.model_constants(rng, k, f"c30_m{k}", with_inf=True, n_prims=3))
    models.append(sdkg.model_constants(rng, k + 1, f"c30_m{k+1}", with_nul=True, n_prims=3))
    models.append(sdkg.model_shapes(rng, k + 2, f"c30_m{k+2}"))
    for j in range(ctx.n(2, 10)):
        models.append(sdkg.model_random(rng, k + 3 + j, f"c30_m{k+3+j}", "small" if j % 3 else "medium"))
    for j in range(ctx.n(1, 4)):
        models.append(sdkg.model_bad_superset(rng, 100 + j, f"c30_m{100+j}"))
    return models


def expected_closure(mm: mmg.MetaModel, name: str) -> List[Any]:
    by_name = {k.name: k for k in mm.constants}
    seen, todo, out = set(), [name], []
    while todo:
        n = todo.pop()
        if n in seen:
            continue
        seen.add(n)
        k = by_name[n]
        out.extend(k.values)
        todo.extend(k.superset_of)
    return out


def probes_for(rng, en: Dict[str, Any]) -> List[str]:
    out = ["", " ", "nope"]
    for l in en["literals"]:
        v = l["value"]
        out += [v + " ", " " + v, v.upper(), v.lower(), l["name"], l["py"], v[:-1], v + v]
    values = {l["value"] for l in en["literals"]}
    out = [p for p in dict.fromkeys(out)]
    rng.shuffle(out)
    out = out[:12]
    # some true values among the probes as well
    out += [l["value"] for l in en["literals"][:3]]
    return out


def stream_sdk(ctx: lib.Ctx) -> None:
    models = build_models(ctx)
    stats = sdkrun.generate(models, ctx.work)
    jobs = []
    for m in models:
        if m.expect == "rejected":
            if m.gen_result["rc"] == 0:
                ctx.impl_failure(f"accepted-non-superset-{m.tag.rsplit('-', 1)[0]}",
                                 "the generator accepted a constant set that is not a superset of a declared subset",
                                 {"model": m.source}, m.gen_result, "sdk")
            continue
        if m.sdk_dir is None:
            # not accepted / generator failed: outside "accepted meta-model" — counted, and a
            # generator exception is reported (it is C02's topic, but nothing can be checked)
            if m.gen_result["exception"] is not None:
                ctx.impl_failure(f"generator-exception-{m.gen_result['exception']['class']}-{m.tag.rsplit('-', 1)[0]}",
                                 "the python generator raised on a generated meta-model",
                                 {"model": m.source}, m.gen_result["exception"], "sdk")
            continue
        probes = {e["name"]: [[ord(c) for c in p] for p in probes_for(ctx.rng, e)] for e in m.lite["enums"]}
        jobs.append({"model": m, "ops": [{"op": "constants"}, {"op": "enums", "probes": probes}], "probes": probes})
    results = sdkrun.run_ops(jobs)
    set_cases, set_meta, enum_cases, enum_meta = [], [], [], []
    explained = set()     # (model, constant) for which the oracle already produced a failing input
    n_prims = n_sets = n_enums = 0
    nontrivial = []
    for job, res in zip(jobs, results):
        m: sdkg.SdkModel = job["model"]
        if "import_error" in res:
            err = res["import_error"]
            floats_inf = [k.name for k in m.mm.constants if isinstance(k, mmg.ConstantPrimitive)
                          and isinstance(k.value, float) and math.isinf(k.value)]
            nul = [k.name for k in m.mm.constants if isinstance(k, mmg.ConstantPrimitive)
                   and isinstance(k.value, str) and "\x00" in k.value]
            if err["class"] == "NameError" and "inf" in err["msg"] and floats_inf:
                key = "float-constant-inf-breaks-import"
                minimal = 'Big: float = constant_float(value=1e400)'
            elif err["class"] == "SyntaxError" and "null" in err["msg"] and nul:
                key = "str-constant-nul-breaks-import"
                minimal = 'Txt: str = constant_str(value="a\\x00b")'
            else:
                key = f"sdk-import-{err['class']}-{lib.stable_key(m.source)}"
                minimal = None
            ctx.impl_failure(key, f"the generated SDK cannot be imported: {err['class']}: {err['msg'][:200]}",
                             {"model": m.source, "minimal_constant": minimal}, err, "sdk",
                             "generate target python for the model text, then import <module>.constants")
            continue
        r_consts, r_enums = res["results"]
        if "ok" not in r_consts or "ok" not in r_enums:
            raise lib.HarnessError(f"adapter failed: {r_consts} {r_enums}")
        observed = {c["name"]: c for c in r_consts["ok"]}
        for k in m.mm.constants:
            o = observed.get(k.name)
            kkey = f"{m.tag.rsplit('-', 1)[0]}:{type(k).__name__}"
            if o is None or o.get("missing"):
                ctx.impl_failure(f"constant-missing-{kkey}", f"constant {k.name} is not exposed by the SDK",
                                 {"model": m.source, "constant": k.name}, o, "sdk")
                continue
            if isinstance(k, mmg.ConstantPrimitive):
                n_prims += 1
                want = sdkg.enc_plain(k.value)
                if typed(o["value"]) != typed(want):
                    vkey = lib.stable_key(k.kind, repr(k.value))
                    ctx.impl_failure(f"constant-value-{k.kind}-{vkey}",
                                     f"constant {k.name}: SDK value differs from the meta-model value",
                                     {"model": m.source, "constant": k.name, "expected": want}, o, "sdk")
            else:
                n_sets += 1
                is_enum = k.items_type not in mmg.PRIMITIVES
                want = [sdkg.e_enum(k.items_type, v) if is_enum else sdkg.enc_plain(v)
                        for v in expected_closure(m.mm, k.name)]
                want_listed = [sdkg.e_enum(k.items_type, v) if is_enum else sdkg.enc_plain(v) for v in k.values]
                if o["items"] is None:
                    ctx.impl_failure(f"constant-set-type-{kkey}", f"constant set {k.name} is not a set",
                                     {"model": m.source, "constant": k.name}, o, "sdk")
                    continue
                got = {py_equal_class(typed(x)) for x in o["items"]}
                if got != {py_equal_class(typed(x)) for x in want} or got != {py_equal_class(typed(x)) for x in want_listed}:
                    boundaries = "\x1c\x1d\x1e\x85\u2028\u2029"
                    plain_ok = all(py_equal_class(typed(sdkg.enc_plain(v))) in got for v in k.values
                                   if not (isinstance(v, str) and any(b in v for b in boundaries))) if not is_enum else False
                    affected = [v for v in k.values if isinstance(v, str) and any(b in v for b in boundaries)]
                    if affected and plain_ok and len(got) == len({py_equal_class(typed(x)) for x in want_listed}):
                        skey = "constant-set-literal-with-line-separator-indented"
                    else:
                        skey = f"constant-set-members-{'enum' if is_enum else k.items_type}-{lib.stable_key([repr(v) for v in k.values])}"
                    explained.add((m.tag, k.name))
                    ctx.impl_failure(skey,
                                     f"constant set {k.name}: members differ from listed literals + subsets' literals",
                                     {"model": m.source, "constant": k.name, "expected": want}, o, "sdk")
                try:
                    term = lib.coq_pair(cq_table(m.mm.constants), sdkg.cq_text(k.name),
                                        sdkg.cq_list([cq_enc_lit(x) for x in o["items"]]))
                    set_cases.append(term)
                    set_meta.append((m, k.name, o))
                    if k.superset_of:
                        nontrivial.append(("set", lib.stable_key(m.source, k.name)))
                except TypeError:
                    pass   # float/bytes sets are outside the model (never generated here)
        for en, o in zip(m.lite["enums"], r_enums["ok"]):
            n_enums += 1
            ekey = f"{m.tag.rsplit('-', 1)[0]}"
            want_members = [(l["py"], tuple(ord(c) for c in l["value"])) for l in en["literals"]]
            got_members = [(x["py"], tuple(x["value"].get("s", [-1]))) for x in o["members"]]
            if want_members != got_members or o["aliases"]:
                ctx.impl_failure(f"enum-members-{ekey}", f"enumeration {en['name']}: members differ from the declared literals",
                                 {"model": m.source, "enumeration": en["name"], "expected": want_members}, o, "sdk")
            if not all(o["roundtrip"]):
                ctx.impl_failure(f"enum-roundtrip-{ekey}", f"enumeration {en['name']}: from_str(literal.value) is not the literal",
                                 {"model": m.source, "enumeration": en["name"]}, o, "sdk")
            values = {l["value"]: l for l in en["literals"]}
            probe_terms = []
            for p, ans in zip(job["probes"][en["name"]], o["probes"]):
                text = "".join(chr(c) for c in p)
                want_lit = values.get(text)
                if (ans is None) != (want_lit is None) or (ans is not None and ans["l"] != want_lit["name"]):
                    ctx.impl_failure(f"enum-from-str-{ekey}", f"enumeration {en['name']}: from_str({text!r}) is wrong",
                                     {"model": m.source, "enumeration": en["name"], "text": text}, ans, "sdk")
                if ans is None:
                    probe_terms.append(f"({sdkg.cq_cps(p)}, None)")
                else:
                    lit = next(l for l in en["literals"] if l["name"] == ans["l"])
                    probe_terms.append(f"({sdkg.cq_cps(p)}, Some ({sdkg.cq_text(lit['name'])}, {sdkg.cq_text(lit['value'])}))")
            lits = sdkg.cq_list([f"({sdkg.cq_text(l['name'])}, {sdkg.cq_text(l['value'])})" for l in en["literals"]])
            by_py = {l["py"]: l for l in en["literals"]}
            members = sdkg.cq_list([
                f"({sdkg.cq_text(by_py[x['py']]['name'] if x['py'] in by_py else x['py'])}, {sdkg.cq_cps(x['value'].get('s', []))})"
                for x in o["members"]])
            enum_cases.append(lib.coq_pair(lits, members, sdkg.cq_list(probe_terms)))
            enum_meta.append((m, en["name"], o))
            if len(en["literals"]) >= 2:
                nontrivial.append(("enum", lib.stable_key(m.source, en["name"])))
    bad, _ = lib.run_cases(ctx.work, "sets", HEADER, "set_case", "bad_set", set_cases)
    for i in bad[:10]:
        m, name, o = set_meta[i]
        if (m.tag, name) in explained:
            continue      # same disagreement, already reported with its failing input
        ctx.corr_break("sdk-constant-set", {"model": m.source, "constant": name},
                       "closure_lits / listed literals of the specification", o)
    bad, _ = lib.run_cases(ctx.work, "enums", HEADER, "enum_case", "bad_enum", enum_cases)
    for i in bad[:10]:
        m, name, o = enum_meta[i]
        ctx.corr_break("sdk-enumeration", {"model": m.source, "enumeration": name},
                       "from_str / to_str of the specification", o)
    ctx.count("sdk", n_prims + n_sets + n_enums, nontrivial_keys=nontrivial,
              validated=len(set_cases) + len(enum_cases), generation=stats,
              primitive_constants=n_prims, constant_sets=n_sets, enumerations=n_enums,
              models=[m.tag for m in models])
    if jobs:
        ctx.sample({"stream": "sdk", "model": jobs[0]["model"].tag,
                    "constants_tail": jobs[0]["model"].source[-500:]})


def streams(ctx: lib.Ctx) -> None:
    try:
        stream_frontend(ctx)
        stream_sdk(ctx)
    finally:
        sdkrun.cleanup(ctx.work)
    # one finding per key is enough
    seen, kept = set(), []
    for f in ctx.impl_failures:
        if f["key"] in seen:
            continue
        seen.add(f["key"])
        kept.append(f)
    ctx.impl_failures = kept
    ctx.coverage["exhaustive"] = False
