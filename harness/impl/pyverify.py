"""C08 adapter: generate the Python SDK with the real CLI, import it, and run the property
statement on it. Run with the interpreter of the repository under test (lib.impl_call).

Input  {"jobs": [{"mm": <mmgen JSON blob>, "model_text": optional override of the source text,
                  "instances": [instance descriptions], "pattern_cases": {fn: [str]},
                  "fn_cases": {fn: [values]}, "spec_cases": k}]}
Output per job
  {"status": "ok" | "rejected" | "crash" | "import_error", "detail": ...,
   "instances": [{"impl": R, "expected": R, "n_false": int, "n_raise": int}],   R = {"errors": [[cause, path]]} | {"raise": cls}
   "patterns": [{"fn":, "arg":, "impl":, "src":}]  (all evaluated pairs are counted in "n_patterns"; only
                 disagreements are listed), "fns": likewise,
   "spec": {...}  export for the VerifySpec correspondence (class tables, values, truth table)}

The *expected* side is the property statement itself: a pre-order walk over the instance; for
every object the stacked invariants (of the abstract meta-model, set semantics) of its class,
for every non-None property value of a constrained-primitive type the stacked invariants of
that type, each evaluated by calling the ``lambda`` obtained by executing the meta-model
SOURCE TEXT (with inert stand-ins for the marker decorators) on a mirror object built from
the same values.
"""
import importlib
import json
import pathlib
import sys
import tempfile
import traceback

HERE = pathlib.Path(__file__).resolve().parent
sys.path.insert(0, str(HERE))
sys.path.insert(0, str(HERE.parent.parent))

from harness.gen import metamodel as mmg  # noqa: E402
from harness.gen import verify as vg  # noqa: E402
import cli  # noqa: E402

from aas_core_codegen.common import Identifier  # noqa: E402
from aas_core_codegen.python import naming as pn  # noqa: E402

exc_name = vg.exc_name
prop_kind = vg.prop_kind
cprim_stacked_invariants = vg.cprim_stacked_invariants


def impl_fn_snippet(fn) -> str:
    name = pn.function_name(Identifier(fn.name))
    args = ", ".join(pn.argument_name(Identifier(a)) for a, _ in fn.args)
    a0 = pn.argument_name(Identifier(fn.args[0][0])) if fn.args else "x"
    t0 = fn.args[0][1] if fn.args else None
    return (f"def {name}({args}) -> bool:\n"
            f"    \"\"\"Check deterministically (C08 stand-in).\"\"\"\n"
            f"    return {vg.impl_fn_expr(a0, t0)}")


def build_sdk(sdk_types, v):
    """The value on the side of the generated SDK."""
    if v is None or isinstance(v, (bool, int, str)):
        return v
    if isinstance(v, list):
        return [build_sdk(sdk_types, x) for x in v]
    if "f" in v:
        return float(v["f"])
    if "b" in v:
        return bytes.fromhex(v["b"])
    if "enum" in v:
        en = getattr(sdk_types, pn.enum_name(Identifier(v["enum"])))
        return getattr(en, pn.enum_literal_name(Identifier(v["lit"])))
    if "cls" in v:
        cls = getattr(sdk_types, pn.class_name(Identifier(v["cls"])))
        return cls(**{pn.property_name(Identifier(k)): build_sdk(sdk_types, x) for k, x in v["fields"].items()})
    raise ValueError(f"unexpected value description {v!r}")


# ---------------------------------------------------------------------------------------
def spec_tables(mm, expected):
    """Class tables for Model/VerifySpec.v (python property names, kinds, stacked invariants)."""
    classes = {}
    for c in mm.classes:
        if c.is_abstract or c.is_implementation_specific:
            continue
        props = []
        for prop, _ in mmg.stacked_properties(mm, c):
            kind, cp = prop_kind(mm, prop.type)
            props.append([pn.property_name(Identifier(prop.name)), kind, cp])
        invs = [[expected.inv_id(inv.description), inv.description] for inv, _ in mmg.stacked_invariants(mm, c)]
        classes[c.name] = {"props": props, "invs": invs}
    cprims = {cp.name: [[expected.inv_id(inv.description), inv.description]
                        for inv in cprim_stacked_invariants(mm, cp.name)]
              for cp in mm.constrained_primitives}
    return {"classes": classes, "cprims": cprims}


def pyname_value(v):
    """The instance description with python property names (what the SDK object holds)."""
    if isinstance(v, list):
        return [pyname_value(x) for x in v]
    if isinstance(v, dict) and "cls" in v:
        return {"cls": v["cls"], "oid": v["oid"],
                "fields": [[pn.property_name(Identifier(k)), pyname_value(x)] for k, x in v["fields"].items()]}
    return v


def run_job(job, index, base):
    mm = mmg.loads(job["mm"])
    text = job.get("model_text") or mmg.render_source(mm)
    snippets = mmg.synth_snippets(mm, "python")
    qual = f"sdk_c08_{index}"
    snippets["qualified_module_name.txt"] = qual
    for fn in mm.verification_functions:
        if fn.kind == "implementation_specific":
            snippets[f"Verification/{fn.name}.py"] = impl_fn_snippet(fn)
    workdir = base / f"job{index}"
    res = cli.run_job({"model_text": text, "target": "python", "snippets": snippets, "files": "none"},
                      workdir, "none")
    if res["exception"] is not None:
        return {"status": "crash", "detail": res["exception"]}
    if res["rc"] != 0:
        return {"status": "rejected", "detail": res["stderr"][-3000:]}
    out_dir = workdir / "output"
    sys.path.insert(0, str(out_dir))
    try:
        try:
            sdk_types = importlib.import_module(f"{qual}.types")
            sdk_ver = importlib.import_module(f"{qual}.verification")
        except BaseException as e:  # noqa
            return {"status": "import_error", "detail": traceback.format_exc()[-3000:],
                    "verification": (out_dir / qual / "verification.py").read_text()[-6000:]
                    if (out_dir / qual / "verification.py").exists() else None}
        ns, registry = vg.exec_source(text)
        vg.bind_impl_fns(mm, ns)
        expected = vg.Expected(mm, ns, registry, pyname=lambda n: pn.property_name(Identifier(n)))
        out = {"status": "ok", "instances": [], "patterns": [], "fns": [], "n_patterns": 0, "n_fns": 0}
        spec_values = []
        n_spec = int(job.get("spec_cases", 0))
        for k, desc in enumerate(job.get("instances", [])):
            errors, raises = [], []
            first_truth = len(expected.truth)
            expected.walk(desc, "", errors, raises)
            exp = {"raise": sorted(set(raises))} if raises else {"errors": errors}
            try:
                obj = build_sdk(sdk_types, desc)
                impl = {"errors": [[e.cause, str(e.path)] for e in sdk_ver.verify(obj)]}
            except Exception as e:  # noqa
                impl = {"raise": exc_name(e)}
            out["instances"].append({"impl": impl, "expected": exp, "n_false": len(errors),
                                     "n_raise": len(raises)})
            if k < n_spec:
                spec_values.append({"value": pyname_value(desc), "impl": impl,
                                    "truth": [[i, pyname_value(v), r] for i, v, r in expected.truth[first_truth:]]})
        for name, args in (job.get("pattern_cases") or {}).items():
            fn = mm.find_function(name)
            sdk_fn = getattr(sdk_ver, pn.function_name(Identifier(name)))
            src_fn = ns[name]
            for a in args:
                out["n_patterns"] += 1
                r1, r2 = _call(sdk_fn, a), _call(src_fn, a)
                if r1 != r2:
                    out["patterns"].append({"fn": name, "pattern": fn.pattern, "arg": a, "impl": r1, "src": r2})
        for name, args in (job.get("fn_cases") or {}).items():
            sdk_fn = getattr(sdk_ver, pn.function_name(Identifier(name)))
            src_fn = ns[name]
            for a in args:
                out["n_fns"] += 1
                r1, r2 = _call(sdk_fn, build_sdk(sdk_types, a)), _call(src_fn, vg.build_src(ns, a))
                if r1 != r2:
                    out["fns"].append({"fn": name, "arg": a, "impl": r1, "src": r2})
        out["inv_stats"] = list(expected.stats.values())
        out["n_invariants"] = (sum(len(c.invariants) for c in mm.classes)
                               + sum(len(c.invariants) for c in mm.constrained_primitives))
        if n_spec:
            out["spec"] = {"tables": spec_tables(mm, expected), "cases": spec_values}
        return out
    finally:
        sys.path.remove(str(out_dir))
        for m in [m for m in sys.modules if m == qual or m.startswith(qual + ".")]:
            del sys.modules[m]


def _call(fn, arg):
    try:
        r = fn(arg)
        return {"val": r if isinstance(r, (bool, int, str)) or r is None else repr(r)}
    except Exception as e:  # noqa
        return {"raise": exc_name(e)}


def main():
    payload = json.load(sys.stdin)
    base = pathlib.Path(tempfile.mkdtemp(prefix="c08-", dir="."))
    original_tmp = tempfile.gettempdir()
    out = []
    for i, job in enumerate(payload["jobs"]):
        job_tmp = base / f"tmp{i}"
        job_tmp.mkdir(parents=True, exist_ok=True)
        tempfile.tempdir = str(job_tmp)
        try:
            out.append(run_job(job, i, base.resolve()))
        except BaseException as e:  # noqa
            if isinstance(e, KeyboardInterrupt):
                raise
            out.append({"status": "harness_error", "detail": traceback.format_exc()[-4000:]})
        finally:
            tempfile.tempdir = original_tmp
    json.dump(out, sys.stdout)


if __name__ == "__main__":
    main()
