(** C18 — decidable well-formedness predicates on regex trees used to state the
    theorems: what the parser guarantees below the anchors and what the front end lets
    through. (Definitions only.) *)
From Coq Require Import List NArith Bool Arith.
From Acg Require Import Base.Outcome Model.RevmTree Model.Revm.
Import ListNotations.

(** * well-formed sub-trees: no start anchor, quantifier bounds ordered
      (the parser's [Quantifier] precondition) *)
Definition okq (q : quant) : bool :=
  match q_max q with Some mx => Nat.leb (q_min q) mx | None => true end.

Fixpoint okv (v : value) : bool :=
  match v with
  | VSym SStart => false
  | VSym _ | VChar _ | VSet _ _ => true
  | VGroup u => oku u
  end
with okt (t : term) : bool :=
  match t with
  | Term v None => okv v
  | Term v (Some q) => okv v && okq q
  end
with okc (c : concat) : bool :=
  match c with CNil => true | CCons t c' => okt t && okc c' end
with oku (u : union) : bool :=
  match u with UNil => true | UCons c u' => okc c && oku u' end.


Definition norm_range (r : N * option N) : N * N :=
  (fst r, match snd r with Some b => b | None => fst r end).

(** character sets the translator accepts (guaranteed by the parser): ordered bounds,
    pairwise disjoint ranges *)
Definition set_wf (rs : list (N * option N)) : bool :=
  forallb (fun r => match snd r with Some b => N.leb (fst r) b | None => true end) rs
  && ranges_ok (sort_ranges (map norm_range rs)).

(** translatable sub-trees: no start anchor, greedy quantifiers, well-formed sets *)
Fixpoint trv (v : value) : bool :=
  match v with
  | VSym SStart => false
  | VSym _ | VChar _ => true
  | VSet _ rs => set_wf rs
  | VGroup u => tru u
  end
with trt (t : term) : bool :=
  match t with
  | Term v None => trv v
  | Term v (Some q) => negb (q_ng q) && trv v
  end
with trc (c : concat) : bool :=
  match c with CNil => true | CCons t c' => trt t && trc c' end
with tru (u : union) : bool :=
  match u with UNil => true | UCons c u' => trc c && tru u' end.


Definition t_start : term := Term (VSym SStart) None.
Definition t_end : term := Term (VSym SEnd) None.


(** sub-trees as the parser builds them below the anchors: no start anchor, ordered
    quantifier bounds, character sets with ordered and pairwise disjoint ranges
    (greediness is a separate hypothesis) *)
Fixpoint shv (v : value) : bool :=
  match v with
  | VSym SStart => false
  | VSym _ | VChar _ => true
  | VSet _ rs => set_wf rs
  | VGroup u => shu u
  end
with sht (t : term) : bool :=
  match t with
  | Term v None => shv v
  | Term v (Some q) => shv v && okq q
  end
with shc (c : concat) : bool :=
  match c with CNil => true | CCons t c' => sht t && shc c' end
with shu (u : union) : bool :=
  match u with UNil => true | UCons c u' => shc c && shu u' end.

(** [^ mid $] with well-shaped [mid] *)
Definition accepted_shape (r : regex) : Prop :=
  exists c mid, r = UCons c UNil /\ terms_of c = t_start :: mid ++ [t_end]
                /\ forallb sht mid = true.


(** boolean form of [accepted_shape], evaluated on the real trees by the "shape" check *)
Definition is_plain (s : sym) (t : term) : bool :=
  match t with
  | Term (VSym x) None =>
      match s, x with SStart, SStart | SEnd, SEnd | SDot, SDot => true | _, _ => false end
  | _ => false
  end.

Definition shape_okb (r : regex) : bool :=
  match r with
  | UCons c UNil =>
      match terms_of c with
      | t0 :: rest =>
          is_plain SStart t0
          && match rev rest with
             | e :: midrev => is_plain SEnd e && forallb sht midrev
             | [] => false
             end
      | [] => false
      end
  | _ => false
  end.
