(** C18 — placeholder while the proofs are being built. *)
From Coq Require Import List NArith Bool Arith.
From Acg Require Import Base.Outcome Base.Str Model.RevmTree Model.Revm Model.RevmVM Model.RevmComp.
Import ListNotations.
Open Scope N_scope.

Definition t_star_star : regex :=
  UCons (CCons (Term (VSym SStart) None)
        (CCons (Term (VGroup (UCons (CCons (Term (VChar 97) (Some (mkQ false 0%nat None))) CNil) UNil))
                     (Some (mkQ false 0%nat None)))
        (CCons (Term (VSym SEnd) None) CNil))) UNil.

Example C18_star_star_program :
  program t_star_star =
  Ok [ISplit 1 5; ISplit 2 4; IChar 97; IJump 1; IJump 0; IEnd; IMatch]%nat.
Proof. vm_compute. reflexivity. Qed.
Print Assumptions C18_star_star_program.
