#!/bin/sh
# Build the framework offline from files on disk only: regenerate Gen/*.v from /repo,
# full .vo build of the whole Coq development (never -vos), extraction driver.
set -e
cd "$(dirname "$0")"
mkdir -p work evidence replays
python3 -c "
import sys; sys.path.insert(0, '.')
from harness import regen, lib
print(regen.regenerate())
lib.regen_coqproject()
"
cd coq
# keep going: each check (re)builds the cone it needs and reports a broken obligation itself
timeout 3000 make -k -j16 || echo "setup: some files did not build (the checks that need them will say so)"
echo "setup ok"
