(** C12 — JSON Schema enforces every inferred constraint.

    Theorems over [Model/JsonSchemaSem.v], [Model/JsonSchemaGen.v], [Model/JsonSchemaSpec.v],
    instantiated with the regenerated [_PRIMITIVE_MAP]. Only statements, [exact]s and
    [Print Assumptions]. Hypotheses on third-party behaviour as in [Props/C11.v]. *)
From Coq Require Import List NArith ZArith Bool.
From Coq Require Strings.String.
Import Coq.Strings.String.StringSyntax.
From Acg Require Import Base.Str Base.Outcome Model.JsonSchemaSem Model.JsonSchemaGen
  Model.JsonSchemaSpec Proofs.JsonSchemaFacts Proofs.JsonSchemaGenFacts
  Proofs.JsonSchemaClassFacts Proofs.JsonSchemaFlatFacts Gen.GenJsonSchema.
Import ListNotations.
Open Scope Z_scope.

Theorem C12_gen_primitive_map :
  map (prim_jtype primitive_map) [PBool; PInt; PFloat; PStr; PBytes]
  = [Some TyBoolean; Some TyInteger; Some TyNumber; Some TyString; Some TyString].
Proof. vm_compute. reflexivity. Qed.
Print Assumptions C12_gen_primitive_map.

Lemma pm_ok : forall p, prim_jtype primitive_map p = Some (expected_jtype p).
Proof. intros p. destruct p; vm_compute; reflexivity. Qed.

(** [kw_complete]: a well-typed value that breaks a length / pattern / list-size
    constraint of its (nested) type annotation -- own class, ancestor or constrained
    primitive: they all arrive merged in the constraints-by-value -- is rejected at every
    fuel. [admitsb _ true] is the rule as the base64 *text* can express it: this is exactly
    the exclusion "byte-array lengths beyond what the base64 text length can express". *)
Theorem C12_kw_complete :
  forall fixp search16 matches b64 int_tok defs,
    (forall p s, search16 (fixp p) s = matches p s) ->
    (forall b, zlen (b64 b) = b64len (zlen b)) ->
  forall m t d v, prim_only t = true -> define_type primitive_map fixp m t = Some d ->
    typedb t v = true -> admitsb matches true m t v = false ->
  forall f, validates search16 defs f (Schema d) (to_json b64 int_tok v) <> Some true.
Proof.
  intros fixp search16 matches b64 int_tok defs Hfix Hb64.
  exact (kw_complete primitive_map fixp search16 matches b64 int_tok defs pm_ok Hfix Hb64).
Qed.
Print Assumptions C12_kw_complete.

(** Strings and lists (no byte array inside): every violation of the real rule. *)
Theorem C12_kw_complete_str_list :
  forall fixp search16 matches b64 int_tok defs,
    (forall p s, search16 (fixp p) s = matches p s) ->
    (forall b, zlen (b64 b) = b64len (zlen b)) ->
  forall m t d v, prim_only t = true -> no_bytes t = true ->
    define_type primitive_map fixp m t = Some d ->
    typedb t v = true -> admitsb matches false m t v = false ->
  forall f, validates search16 defs f (Schema d) (to_json b64 int_tok v) <> Some true.
Proof.
  intros fixp search16 matches b64 int_tok defs Hfix Hb64.
  exact (kw_complete_str_list primitive_map fixp search16 matches b64 int_tok defs pm_ok Hfix Hb64).
Qed.
Print Assumptions C12_kw_complete_str_list.

(** The unrestricted statement is false for byte arrays (2 bytes against [max 1]). *)
Theorem C12_kw_complete_bytes_refuted :
  forall fixp search16 b64 int_tok defs,
    (forall b, zlen (b64 b) = b64len (zlen b)) ->
  exists m t d v,
    define_type primitive_map fixp m t = Some d /\ typedb t v = true
    /\ admitsb (fun _ _ => true) false m t v = false
    /\ validates search16 defs 2 (Schema d) (to_json b64 int_tok v) = Some true.
Proof.
  intros fixp search16 b64 int_tok defs Hb64.
  eapply kw_complete_bytes_refuted; [exact pm_ok|exact Hb64].
Qed.
Print Assumptions C12_kw_complete_bytes_refuted.

(** Non-vacuity of [kw_complete]: too short a string, a failing second pattern, a list
    item breaking the constrained primitive of the items, too long a byte array. *)
Example C12_kw_complete_nonvacuous :
  let m := [(0%N, mkC (Some (Some 1, Some 2)) None);
            (1%N, mkC (Some (Some 2, None)) (Some [s2l "p"; s2l "q"]));
            (2%N, mkC (Some (None, Some 3)) None)] in
  let search := fun p (s : text) => negb (text_eqb p (s2l "q")) in
  let b64 := fun b : list N => repeat 65%N (Z.to_nat (b64len (zlen b))) in
  let run t v := option_map (fun d => validates search [] 4 (Schema d) (to_json b64 (fun _ => []) v))
                   (define_type primitive_map (fun p => p) m t) in
  (run (TAPrim 1 PStr) (VStr (s2l "a")),
   run (TAPrim 1 PStr) (VStr (s2l "abc")),
   run (TAList 0 (TAPrim 1 PStr)) (VList [VStr (s2l "a")]),
   run (TAPrim 2 PBytes) (VBytes [1%N; 2%N; 3%N; 4%N]),
   run (TAPrim 2 PBytes) (VBytes [1%N; 2%N; 3%N]))
  = (Some (Some false), Some (Some false), Some (Some false), Some (Some false), Some (Some true)).
Proof. vm_compute. reflexivity. Qed.
Print Assumptions C12_kw_complete_nonvacuous.

(** A mistyped value (JSON type different from the root type of the definition). *)
Theorem C12_mistyped_rejected :
  forall fixp search16 defs m t d ty j,
    define_type primitive_map fixp m t = Some d -> root_jtype t = Some ty ->
    has_type ty j = false ->
  forall f, validates search16 defs f (Schema d) j <> Some true.
Proof.
  intros fixp search16 defs.
  exact (mistyped_rejected primitive_map fixp search16 defs pm_ok).
Qed.
Print Assumptions C12_mistyped_rejected.

(** A wrong [modelType] is rejected by the concrete definition of every class that
    serialises its model type (both shapes: with and without concrete descendants). *)
Theorem C12_wrong_model_type_rejected :
  forall fixp search16 defs cons_of c n s mj x,
    concrete_definition primitive_map fixp cons_of c = Ok (n, s) -> c_wmt c = true ->
    lookup model_type_kw mj = Some x -> x <> JStr (c_name c) ->
  forall f, validates search16 defs f s (JObj mj) <> Some true.
Proof. intros fixp search16 defs cons_of. exact (wrong_model_type_rejected primitive_map fixp search16 defs cons_of). Qed.
Print Assumptions C12_wrong_model_type_rejected.

(** A missing required property is rejected by every definition body that lists it (the
    body shape shared by inheritable and concrete definitions). *)
Theorem C12_missing_required_rejected :
  forall search16 defs c props required r mj all_of,
    props <> [] -> In r required -> lookup r mj = None ->
  forall f, validates search16 defs f
              (wrap_all_of (all_of ++ [Schema (body_definition c props required)]))
              (JObj mj) <> Some true.
Proof. intros search16 defs. exact (missing_required_rejected search16 defs). Qed.
Print Assumptions C12_missing_required_rejected.

(** "A missing modelType is rejected" is FALSE for a concrete class without descendants
    that declares [with_model_type] itself: its definition pins the constant but does not
    list [modelType] as required (only inheritable definitions do). *)
Definition solo : cls :=
  mkCls (s2l "Solo") false true [] [] false [mkProp (s2l "x") false true (TAPrim 0 PInt)] [].

Theorem C12_missing_model_type_refuted :
  exists n s,
    concrete_definition primitive_map (fun p => p) (fun _ => None) solo = Ok (n, s)
    /\ validates (fun _ _ => true) [] 5 s (JObj [(s2l "x", JNum true (s2l "1"))]) = Some true.
Proof. eexists. eexists. split; vm_compute; reflexivity. Qed.
Print Assumptions C12_missing_model_type_refuted.

(** [schema_rejects_single_violation], class level, proved for *flat* classes: whatever
    the other fields are, if the value of one property is well typed but breaks a length /
    pattern / list-size constraint inferred for the class (byte arrays: as far as the base64
    text can express it), the document is rejected at every fuel. *)
Theorem C12_schema_rejects_single_violation_flat :
  forall fixp search16 matches b64 int_tok defs cons_of,
    (forall p s, search16 (fixp p) s = matches p s) ->
    (forall b, zlen (b64 b) = b64len (zlen b)) ->
  forall c n s fields p v,
    flatb c = true -> concrete_definition primitive_map fixp cons_of c = Ok (n, s) ->
    In p (c_props c) -> lookup (p_name p) fields = Some v ->
    typedb (p_type p) v = true -> admitsb matches true (c_cons c) (p_type p) v = false ->
  forall f, validates search16 defs f s (instance_doc b64 int_tok c fields) <> Some true.
Proof.
  intros fixp search16 matches b64 int_tok defs cons_of Hfix Hb64.
  exact (schema_rejects_single_violation_flat primitive_map fixp search16 matches b64 int_tok
           defs cons_of pm_ok Hfix Hb64).
Qed.
Print Assumptions C12_schema_rejects_single_violation_flat.

Definition blob_cls : cls :=
  mkCls (s2l "Blob") false true [] [] false
    [mkProp (s2l "data") false true (TAPrim 0 PBytes);
     mkProp (s2l "tags") true true (TAList 1 (TAPrim 2 PStr))]
    [(0%N, mkC (Some (Some 2, Some 3)) None); (1%N, mkC (Some (None, Some 2)) None);
     (2%N, mkC (Some (Some 1, None)) (Some [s2l "p"]))].

Example C12_schema_rejects_flat_nonvacuous :
  let b64 := fun b : list N => repeat 65%N (Z.to_nat (b64len (zlen b))) in
  let run fields :=
    match concrete_definition primitive_map (fun p => p) (fun _ => None) blob_cls with
    | Ok (_, s) => validates (fun _ _ => true) [] 4 s (instance_doc b64 (fun _ => []) blob_cls fields)
    | _ => None
    end in
  flatb blob_cls = true
  /\ (run [(s2l "data", VBytes [1%N; 2%N; 3%N]); (s2l "tags", VList [VStr (s2l "a")])],
      run [(s2l "data", VBytes [1%N; 2%N; 3%N; 4%N])],
      run [(s2l "data", VBytes [1%N; 2%N]); (s2l "tags", VList [VStr []])],
      run [(s2l "data", VBytes [1%N; 2%N]);
           (s2l "tags", VList [VStr (s2l "a"); VStr (s2l "b"); VStr (s2l "c")])])
     = (Some true, Some false, Some false, Some false).
Proof. vm_compute. split; reflexivity. Qed.
Print Assumptions C12_schema_rejects_flat_nonvacuous.

(** [schema_rejects_single_violation] -- full statement (NOT proved): for every class of
    the view and every document obtained from a valid one by breaking one recognised
    constraint of a property (own class / ancestor / constrained primitive; excluding
    tightenings on the items of an inherited list and inexpressible byte lengths),
    [validates (gen ts) (KRef cls) doc <> Some true].
    Proved part: flat classes ([C12_schema_rejects_single_violation_flat]), the property
    level ([C12_kw_complete]) and the three structural rules
    above; a conjunct that never accepts makes the whole [allOf] never accept
    ([wrap_all_of_rejects], used in both theorems above). Inheritance chains are covered by
    the correspondence and the oracle. On the example hierarchy: a [Leaf] document whose
    inherited [s] breaks the bound tightened in [Mid] (max 5), resp. in [Leaf] (min 2). *)
Definition family_view : list our_type :=
  [OClass (mkCls (s2l "Root") true true [] [s2l "Mid"; s2l "Leaf"] true
             [mkProp (s2l "s") false true (TAPrim 0 PStr)]
             [(0%N, mkC (Some (None, Some 10)) None)]);
   OClass (mkCls (s2l "Mid") false true [mkParent (s2l "Root") true true] [s2l "Leaf"] false
             [mkProp (s2l "s") false false (TAPrim 0 PStr)]
             [(0%N, mkC (Some (None, Some 5)) None)]);
   OClass (mkCls (s2l "Leaf") false true [mkParent (s2l "Mid") false true] [] false
             [mkProp (s2l "s") false false (TAPrim 0 PStr)]
             [(0%N, mkC (Some (Some 2, Some 5)) None)])].

Example C12_schema_rejects_example :
  match gen primitive_map (fun p => p) family_view with
  | Ok ds =>
      let doc s := JObj [(s2l "s", JStr s); (s2l "modelType", JStr (s2l "Leaf"))] in
      let run d := validates (fun _ _ => true) ds 40 (Schema [KRef (s2l "Root_choice")]) d in
      (run (doc (s2l "abc")), run (doc (s2l "abcdef")), run (doc (s2l "a")),
       run (JObj [(s2l "s", JStr (s2l "abc")); (s2l "modelType", JStr (s2l "Mid"))]),
       run (JObj [(s2l "s", JStr (s2l "abc"))]))
  | _ => (None, None, None, None, None)
  end = (Some true, Some false, Some false, Some true, Some false).
Proof. vm_compute. reflexivity. Qed.
Print Assumptions C12_schema_rejects_example.
