(** C09 — operator semantics of the four SDK languages on the value kinds invariants use.

    Executable definitions only (no proofs). The invariant language has six comparison
    operators and the connectives not / and / or / implication. Every transpiler
    (python, typescript, java, cpp) maps the comparators through a table
    [_<LANG>_COMPARISON_MAP] and writes the connectives with fixed tokens; both are
    re-translated from the sources on every run into [Gen/GenOperatorTables.v]
    (harness/translate/optables.py), which imports the types defined here.

    What is modelled per language is the *run-time meaning of the emitted token* on the
    run-time representation the generated SDK uses for a value:

      python      reference semantics: [py_cmp]
      java        boxed [Long]/[Boolean]/[Float]/[String]/enum references vs primitives:
                  [==]/[!=] on two references compare *addresses*; a primitive operand
                  forces unboxing; [<] ... unbox; strings have no [<]
      cpp         values ([int64_t], [bool], [double], [std::wstring], [enum class]),
                  optionals are dereferenced by the transpiler before comparing
      typescript  JS [==] on equal-typed primitives; strings are UTF-16 code unit
                  sequences (so [<] on strings orders by code units, not code points) *)
From Coq Require Import List NArith ZArith Bool.
From Acg Require Import Base.Str.
Import ListNotations.
Open Scope Z_scope.

(** * Syntax shared with the generated tables *)

Inductive cmpop := LT | LE | GT | GE | EQ | NE.

Definition all_ops : list cmpop := [LT; LE; GT; GE; EQ; NE].

Definition cmpop_eqb (a b : cmpop) : bool :=
  match a, b with
  | LT, LT | LE, LE | GT, GT | GE, GE | EQ, EQ | NE, NE => true
  | _, _ => false
  end.

(** Name of the member of [parse_tree.Comparator] as written in the source. *)
Definition cmpop_of_name (n : text) : option cmpop :=
  if text_eqb n [76;84]%N then Some LT
  else if text_eqb n [76;69]%N then Some LE
  else if text_eqb n [71;84]%N then Some GT
  else if text_eqb n [71;69]%N then Some GE
  else if text_eqb n [69;81]%N then Some EQ
  else if text_eqb n [78;69]%N then Some NE
  else None.

(** A comparison table as translated: (comparator name, emitted token). Python's
    [dict[key]] raises [KeyError] on a missing key: [lookup_cmp] is partial. *)
Definition cmp_table := list (text * text).

Fixpoint lookup_cmp (m : cmp_table) (op : cmpop) : option text :=
  match m with
  | [] => None
  | (n, tok) :: r =>
      match cmpop_of_name n with
      | Some op' => if cmpop_eqb op op' then Some tok else lookup_cmp r op
      | None => lookup_cmp r op
      end
  end.

(** Template skeletons of the connectives ([f"!({operand})"] etc.), parsed by the
    translator with the precedence of the target language. *)
Inductive shape :=
| SHole (name : text)
| SUn (tok : text) (s : shape)
| SBin (tok : text) (l r : shape).

(** Tokens. *)
Definition t_lt : text := [60]%N.
Definition t_le : text := [60;61]%N.
Definition t_gt : text := [62]%N.
Definition t_ge : text := [62;61]%N.
Definition t_eq : text := [61;61]%N.
Definition t_ne : text := [33;61]%N.
Definition t_bang : text := [33]%N.
Definition t_ampamp : text := [38;38]%N.
Definition t_barbar : text := [124;124]%N.
Definition t_not : text := [110;111;116]%N.
Definition t_and : text := [97;110;100]%N.
Definition t_or : text := [111;114]%N.

(** In all four languages the six comparison tokens are spelled alike; what differs is
    what they do to the operands. [tok_cmp] reads a token as the primitive it denotes. *)
Definition tok_cmp (tok : text) : option cmpop :=
  if text_eqb tok t_lt then Some LT
  else if text_eqb tok t_le then Some LE
  else if text_eqb tok t_gt then Some GT
  else if text_eqb tok t_ge then Some GE
  else if text_eqb tok t_eq then Some EQ
  else if text_eqb tok t_ne then Some NE
  else None.

(** * Orders on the primitive carriers *)

Definition z_cmp (op : cmpop) (a b : Z) : bool :=
  match op with
  | LT => a <? b | LE => a <=? b | GT => b <? a | GE => b <=? a
  | EQ => a =? b | NE => negb (a =? b)
  end.

(** Lexicographic order on sequences of code points / code units. *)
Fixpoint lex_ltb (a b : list N) : bool :=
  match a, b with
  | [], [] => false
  | [], _ :: _ => true
  | _ :: _, [] => false
  | x :: a', y :: b' => if N.ltb x y then true else if N.eqb x y then lex_ltb a' b' else false
  end.

Definition seq_cmp (op : cmpop) (a b : list N) : bool :=
  match op with
  | LT => lex_ltb a b
  | LE => negb (lex_ltb b a)
  | GT => lex_ltb b a
  | GE => negb (lex_ltb a b)
  | EQ => text_eqb a b
  | NE => negb (text_eqb a b)
  end.

Definition bool_eqb (a b : bool) : bool := if a then b else negb b.

Definition eq_only (op : cmpop) (same : bool) : option bool :=
  match op with EQ => Some same | NE => Some (negb same) | _ => None end.

(** * Python (reference) *)

(** Values an invariant compares. A float is the integer multiple of 2^-1074 it
    denotes (every finite double is one), so comparing floats is comparing integers.
    An enumeration literal is (enumeration, index). *)
Inductive pyval :=
| PInt (z : Z) | PBool (b : bool) | PFloat (m : Z) | PStr (s : text) | PEnum (e k : nat).

(** [None] = the comparison is not one the type checker of the meta-model produces on
    these kinds (or raises [TypeError] in Python). *)
Definition py_cmp (op : cmpop) (v w : pyval) : option bool :=
  match v, w with
  | PInt a, PInt b => Some (z_cmp op a b)
  | PFloat a, PFloat b => Some (z_cmp op a b)
  | PStr a, PStr b => Some (seq_cmp op a b)
  | PBool a, PBool b => eq_only op (bool_eqb a b)
  | PEnum e k, PEnum e' k' => if Nat.eqb e e' then eq_only op (Nat.eqb k k') else None
  | _, _ => None
  end.

Definition comparable (op : cmpop) (v w : pyval) : Prop := py_cmp op v w <> None.

Definition comparableb (op : cmpop) (v w : pyval) : bool :=
  match py_cmp op v w with Some _ => true | None => false end.

(** * C++ *)

(** The C++ SDK holds [int64_t], [bool], [double], [std::wstring] (one [wchar_t] per
    code point where [wchar_t] has 32 bits, i.e. everywhere but Windows) and
    [enum class] values; the transpiler dereferences optionals ([*x]) before comparing,
    so the operators always see values. All six operators are value comparisons. *)
Inductive cval :=
| CInt (z : Z) | CBool (b : bool) | CDouble (m : Z) | CWStr (s : list N) | CEnum (e k : nat).

Definition cpp_repr (v : pyval) : cval :=
  match v with
  | PInt z => CInt z | PBool b => CBool b | PFloat m => CDouble m
  | PStr s => CWStr s | PEnum e k => CEnum e k
  end.

Definition sem_cpp (tok : text) (a b : cval) : option bool :=
  match tok_cmp tok with
  | None => None
  | Some op =>
      match a, b with
      | CInt x, CInt y => Some (z_cmp op x y)
      | CDouble x, CDouble y => Some (z_cmp op x y)
      | CWStr x, CWStr y => Some (seq_cmp op x y)
      | CBool x, CBool y => eq_only op (bool_eqb x y)
      | CEnum e k, CEnum e' k' => if Nat.eqb e e' then eq_only op (Nat.eqb k k') else None
      | _, _ => None
      end
  end.

(** Lengths. [len(x)] is emitted as [x.size()], a [std::size_t] (unsigned, 64 bits here).
    In [size() - 1] and in a comparison of a [size_t] with an [int64_t] the usual arithmetic
    conversions turn both operands into unsigned 64-bit numbers (C++17 [expr]/11): the result
    is taken modulo 2^64. Python computes on integers. *)
Definition wrap64 (z : Z) : Z := z mod 18446744073709551616.
Definition cpp_len_cmp (op : cmpop) (l r : Z) : bool := z_cmp op (wrap64 l) (wrap64 r).

(** * Java *)

(** A Java operand is a primitive (literals, [size()], [length()], results of
    arithmetic) or a reference to a boxed object / string / enum constant living at an
    address. The generated classes store [Long], [Boolean], [Float], [String]. *)
Inductive jobj := OLong (z : Z) | OBool (b : bool) | OFloat (m : Z) | OStr (s : text) | OEnum (e k : nat).
(** Addresses: an ordinary heap cell, or the unique object of an enum constant (enum
    constants are singletons created by the class initialiser). *)
Inductive jaddr := AHeap (n : nat) | AEnum (e k : nat).
Definition jaddr_eqb (a b : jaddr) : bool :=
  match a, b with
  | AHeap x, AHeap y => Nat.eqb x y
  | AEnum e k, AEnum e' k' => Nat.eqb e e' && Nat.eqb k k'
  | _, _ => false
  end.
Inductive jval :=
| JPLong (z : Z)      (* long / int primitive *)
| JPBool (b : bool)
| JPDouble (m : Z)
| JRef (addr : jaddr) (o : jobj).

(** Unboxing conversion (JLS 5.1.8); strings and enum constants do not unbox. *)
Definition junbox (v : jval) : option jval :=
  match v with
  | JRef _ (OLong z) => Some (JPLong z)
  | JRef _ (OBool b) => Some (JPBool b)
  | JRef _ (OFloat m) => Some (JPDouble m)
  | JRef _ _ => None
  | p => Some p
  end.

Definition jis_prim (v : jval) : bool :=
  match v with JRef _ _ => false | _ => true end.

Definition jprim_cmp (op : cmpop) (a b : jval) : option bool :=
  match a, b with
  | JPLong x, JPLong y => Some (z_cmp op x y)
  | JPDouble x, JPDouble y => Some (z_cmp op x y)
  | JPBool x, JPBool y => eq_only op (bool_eqb x y)
  | _, _ => None
  end.

(** JLS 15.21: [==]/[!=] is numeric/boolean equality if at least one operand is of
    primitive type (the other is unboxed), otherwise *reference* equality. JLS 15.20.1:
    [<] ... require numeric operands (after unboxing); [None] models a compile error. *)
Definition sem_java (tok : text) (a b : jval) : option bool :=
  match tok_cmp tok with
  | None => None
  | Some op =>
      match op with
      | EQ | NE =>
          match a, b with
          | JRef x _, JRef y _ => eq_only op (jaddr_eqb x y)
          | _, _ =>
              match junbox a, junbox b with
              | Some a', Some b' => jprim_cmp op a' b'
              | _, _ => None
              end
          end
      | _ =>
          match junbox a, junbox b with
          | Some a', Some b' => jprim_cmp op a' b'
          | _, _ => None
          end
      end
  end.

(** [java.util.Objects.equals(a, b)] on two references: [a.equals(b)], which for
    [String], [Long], [Float], [Boolean] compares the class and the value, and for enum
    constants the identity (operands assumed non-null). This is what a by-value comparison of
    two references would compute; the transpiler as it is does not emit it. *)
Definition jobj_equals (a b : jobj) : bool :=
  match a, b with
  | OLong x, OLong y => Z.eqb x y
  | OFloat x, OFloat y => Z.eqb x y
  | OBool x, OBool y => bool_eqb x y
  | OStr x, OStr y => text_eqb x y
  | OEnum e k, OEnum e' k' => Nat.eqb e e' && Nat.eqb k k'
  | _, _ => false
  end.

Definition sem_java_objects_equals (negated : bool) (a b : jval) : option bool :=
  match a, b with
  | JRef _ x, JRef _ y => Some (if negated then negb (jobj_equals x y) else jobj_equals x y)
  | _, _ => None
  end.

(** The by-value templates are either absent (the transpiler writes [==]/[!=] for every
    comparison) or exactly [Objects.equals(left, right)] and [!Objects.equals(left, right)]. *)
Definition value_eq_templates_ok (ts : list (bool * list text)) : bool :=
  match ts with
  | [] => true
  | [(n1, h1); (n2, h2)] =>
      negb (bool_eqb n1 n2)
      && list_eqb text_eqb h1 [[108;101;102;116]%N; [114;105;103;104;116]%N]
      && list_eqb text_eqb h2 [[108;101;102;116]%N; [114;105;103;104;116]%N]
  | _ => false
  end.

(** [java_repr v j]: [j] is a way the Java SDK may hold the Python value [v]. Boxed
    numbers, booleans and strings may live at *any* address (two equal strings read
    from a JSON document are two objects); enum constants live at their own address. *)
Inductive java_repr : pyval -> jval -> Prop :=
| JR_int_prim z : java_repr (PInt z) (JPLong z)
| JR_int_box z a : java_repr (PInt z) (JRef a (OLong z))
| JR_bool_prim b : java_repr (PBool b) (JPBool b)
| JR_bool_box b a : java_repr (PBool b) (JRef a (OBool b))
| JR_float_prim m : java_repr (PFloat m) (JPDouble m)
| JR_float_box m a : java_repr (PFloat m) (JRef a (OFloat m))
| JR_str s a : java_repr (PStr s) (JRef a (OStr s))
| JR_enum e k : java_repr (PEnum e k) (JRef (AEnum e k) (OEnum e k)).

(** * TypeScript / JavaScript *)

(** UTF-16 code units of a text (code points above 0xFFFF become surrogate pairs). *)
Definition utf16_cp (c : N) : list N :=
  (if c <? 65536 then [c]
   else [55296 + (c - 65536) / 1024; 56320 + (c - 65536) mod 1024])%N.

Fixpoint utf16 (s : text) : list N :=
  match s with
  | [] => []
  | c :: r => utf16_cp c ++ utf16 r
  end.

(** JS values: numbers (integers and floats are both doubles; an integer is held
    exactly iff |z| <= 2^53), booleans, strings as code unit sequences, numeric enums. *)
Inductive tval :=
| TNum (m : Z) (is_int : bool) | TBool (b : bool) | TStr (units : list N) | TEnum (e k : nat).

Definition ts_repr (v : pyval) : tval :=
  match v with
  | PInt z => TNum z true | PFloat m => TNum m false | PBool b => TBool b
  | PStr s => TStr (utf16 s) | PEnum e k => TEnum e k
  end.

Definition safe_int (z : Z) : bool := (Z.abs z <=? 9007199254740992).

Definition ts_safe (v : pyval) : bool :=
  match v with
  | PInt z => safe_int z
  | PStr s => forallb (fun c => (c <? 55296)%N) s
  | _ => true
  end.

(** Loose equality [==] on operands of the same type is strict equality (ECMA-262
    7.2.14 step 1); relational operators on two strings compare code units. *)
Definition sem_ts (tok : text) (a b : tval) : option bool :=
  match tok_cmp tok with
  | None => None
  | Some op =>
      match a, b with
      | TNum x i, TNum y j => if bool_eqb i j then Some (z_cmp op x y) else None
      | TStr x, TStr y => Some (seq_cmp op x y)
      | TBool x, TBool y => eq_only op (bool_eqb x y)
      | TEnum e k, TEnum e' k' => if Nat.eqb e e' then eq_only op (Nat.eqb k k') else None
      | _, _ => None
      end
  end.

(** * Tables are well formed *)

(** The table sends every comparator to the token that denotes it. *)
Definition table_ok (m : cmp_table) : bool :=
  forallb (fun op =>
    match lookup_cmp m op with
    | Some tok => match tok_cmp tok with Some op' => cmpop_eqb op op' | None => false end
    | None => false
    end) all_ops.

(** First comparator for which the table is wrong (witness extraction when a side
    condition breaks). *)
Definition find_bad_entry (m : cmp_table) : option cmpop :=
  find (fun op =>
    negb match lookup_cmp m op with
    | Some tok => match tok_cmp tok with Some op' => cmpop_eqb op op' | None => false end
    | None => false
    end) all_ops.

(** * Connectives *)

(** Meaning of the connective tokens, per family of languages. *)
Definition un_sem_clike (tok : text) : option (bool -> bool) :=
  if text_eqb tok t_bang then Some negb else None.
Definition bin_sem_clike (tok : text) : option (bool -> bool -> bool) :=
  if text_eqb tok t_ampamp then Some andb
  else if text_eqb tok t_barbar then Some orb else None.
Definition un_sem_py (tok : text) : option (bool -> bool) :=
  if text_eqb tok t_not then Some negb else None.
Definition bin_sem_py (tok : text) : option (bool -> bool -> bool) :=
  if text_eqb tok t_and then Some andb
  else if text_eqb tok t_or then Some orb else None.

Inductive lang := Python | TypeScript | Java | Cpp.

Definition un_sem (l : lang) : text -> option (bool -> bool) :=
  match l with Python => un_sem_py | _ => un_sem_clike end.
Definition bin_sem (l : lang) : text -> option (bool -> bool -> bool) :=
  match l with Python => bin_sem_py | _ => bin_sem_clike end.

(** Evaluate a skeleton under an assignment of its holes. All operand expressions of
    invariants are pure, so short-circuiting is not observable in the value. *)
Fixpoint eval_shape (l : lang) (env : text -> option bool) (s : shape) : option bool :=
  match s with
  | SHole n => env n
  | SUn tok x =>
      match un_sem l tok, eval_shape l env x with
      | Some f, Some a => Some (f a)
      | _, _ => None
      end
  | SBin tok x y =>
      match bin_sem l tok, eval_shape l env x, eval_shape l env y with
      | Some f, Some a, Some b => Some (f a b)
      | _, _, _ => None
      end
  end.

Definition h_antecedent : text := [97;110;116;101;99;101;100;101;110;116]%N.
Definition h_consequent : text := [99;111;110;115;101;113;117;101;110;116]%N.
Definition h_operand : text := [111;112;101;114;97;110;100]%N.
Definition h_prev : text := [112;114;101;118]%N.
Definition h_value : text := [118;97;108;117;101]%N.

Definition env2 (n1 : text) (a : bool) (n2 : text) (b : bool) (n : text) : option bool :=
  if text_eqb n n1 then Some a else if text_eqb n n2 then Some b else None.
Definition env1 (n1 : text) (a : bool) (n : text) : option bool :=
  if text_eqb n n1 then Some a else None.

Definition bools : list bool := [true; false].

Definition all2 (f : bool -> bool -> bool) : bool :=
  forallb (fun a => forallb (fun b => f a b) bools) bools.

Definition opt_bool_eqb (x : option bool) (y : bool) : bool :=
  match x with Some b => bool_eqb b y | None => false end.

(** Decidable side conditions over the generated skeleton lists. *)
Definition impl_shape_ok (l : lang) (s : shape) : bool :=
  all2 (fun a b => opt_bool_eqb (eval_shape l (env2 h_antecedent a h_consequent b) s) (implb a b)).
Definition not_shape_ok (l : lang) (s : shape) : bool :=
  forallb (fun a => opt_bool_eqb (eval_shape l (env1 h_operand a) s) (negb a)) bools.
Definition and_shape_ok (l : lang) (s : shape) : bool :=
  all2 (fun a b => opt_bool_eqb (eval_shape l (env2 h_prev a h_value b) s) (andb a b)).
Definition or_shape_ok (l : lang) (s : shape) : bool :=
  all2 (fun a b => opt_bool_eqb (eval_shape l (env2 h_prev a h_value b) s) (orb a b)).

Definition nonempty {A} (l : list A) : bool := match l with [] => false | _ => true end.

Definition conn_ok (l : lang) (nots impls ands ors : list shape) : bool :=
  forallb (not_shape_ok l) nots && forallb (impl_shape_ok l) impls
  && forallb (and_shape_ok l) ands && forallb (or_shape_ok l) ors
  && nonempty nots && nonempty impls && nonempty ands && nonempty ors.

(** Quantifiers. A row of a translated quantifier table: (the node is [Any], the generator
    is [ForRange], the helper the template is written with reads as an `any`, its iteration
    reads as a range) — e.g. C++ [common::SomeRange] is (.., .., true, true), Java
    [x.stream().allMatch] is (.., .., false, false). The table is right when every row
    emits what the node is, and all four cases any/all x for-each/for-range are present. *)
Definition quantifier_row_ok (r : bool * bool * bool * bool) : bool :=
  match r with (a, g, a', g') => bool_eqb a a' && bool_eqb g g' end.
Definition quantifier_case_present (t : list (bool * bool * bool * bool)) (a g : bool) : bool :=
  existsb (fun r => match r with (x, y, _, _) => bool_eqb x a && bool_eqb y g end) t.
Definition quantifier_table_ok (t : list (bool * bool * bool * bool)) : bool :=
  forallb quantifier_row_ok t
  && quantifier_case_present t true false && quantifier_case_present t true true
  && quantifier_case_present t false false && quantifier_case_present t false true.

(** The holes of a comparison template in emission order must be left, comparator, right. *)
Definition h_left : text := [108;101;102;116]%N.
Definition h_comparator : text := [99;111;109;112;97;114;97;116;111;114]%N.
Definition h_right : text := [114;105;103;104;116]%N.
Definition cmp_template_ok (holes : list text) : bool :=
  list_eqb text_eqb holes [h_left; h_comparator; h_right].
