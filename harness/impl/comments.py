"""Adapter (C20): run the real wrapper functions of the tree under test.

stdin: JSON list of [fn, text]; stdout: JSON list of {"ok": text} | {"exc": name}."""
import json
import sys

import aas_core_codegen.cpp.common as cpp_common
import aas_core_codegen.cpp.description as cpp_description
import aas_core_codegen.csharp.description as csharp_description
import aas_core_codegen.golang.description as golang_description
import aas_core_codegen.java.description as java_description
import aas_core_codegen.python.description as python_description
import aas_core_codegen.typescript.description as typescript_description


def cs_doc(text):
    # the glue of csharp/description.py:_generate_summary_remarks* around the wrapper
    # (its shape is checked by harness/translate/comments.py on every run)
    return csharp_description.Stripped("\n".join(
        [csharp_description._slash_slash_slash_line(line) for line in text.splitlines()]
    ))


FUNCS = {
    "py_docstring": python_description.docstring,
    "py_doc": python_description.documentation_comment,
    "ts_doc": typescript_description.documentation_comment,
    "java_doc": java_description.documentation_comment,
    "cpp_doc": cpp_description.documentation_comment,
    "go_doc": golang_description.documentation_comment,
    "cpp_nondoc": cpp_common.non_documentation_comment,
    "cs_doc": cs_doc,
    # the very functions csharp/description.py calls
    "xml_escape": lambda t: csharp_description.xml.sax.saxutils.escape(t),
    "xml_quoteattr": lambda t: csharp_description.xml.sax.saxutils.quoteattr(t),
}

cases = json.load(sys.stdin)
out = []
for fn, text in cases:
    try:
        out.append({"ok": str(FUNCS[fn](text))})
    except BaseException as e:  # noqa
        out.append({"exc": type(e).__name__})
json.dump(out, sys.stdout)
