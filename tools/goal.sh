#!/bin/sh
# usage: goal.sh <file.v> <line>  -- prints the proof state after <line>
f=$1; n=$2
d=$(mktemp -d /verif/work/goal.XXXX)
head -n $n $f > $d/G.v; echo "Show." >> $d/G.v
(cd $d && timeout 120 coqc -Q /verif/coq/theories Acg G.v 2>&1 | head -${3:-60})
rm -rf $d
