"""Adapter (C05): load meta-model source texts with the real front end of the tree under
test (parse + intermediate.translate, as run.load_model does) and export what the
hierarchy passes resolved. JSON stdin (list of source texts) -> JSON stdout."""
import json
import sys

from aas_core_codegen import intermediate, parse
from aas_core_codegen.intermediate import construction


def messages(error):
    out = []
    stack = [error]
    while stack:
        e = stack.pop()
        if e.underlying:
            stack.extend(e.underlying)
        else:
            out.append(e.message)
    return out


def export(symbol_table):
    classes = []
    for t in symbol_table.our_types:
        if isinstance(t, intermediate.Enumeration):
            continue
        is_cp = isinstance(t, intermediate.ConstrainedPrimitive)
        d = {
            "name": str(t.name),
            "is_cp": is_cp,
            "ancestors": [str(a.name) for a in t.ancestors],
            "descendants": [str(x.name) for x in t.descendants],
            "concrete_descendants": [] if is_cp else [str(x.name) for x in t.concrete_descendants],
            "invs": [[i.description, str(i.specified_for.name)] for i in t.invariants],
            "inheritances": [str(x.name) for x in t.inheritances],
            "props": [], "methods": [], "inlined": [], "iface": None, "wmt": None,
            "super_calls_left": 0,
            "abstract": isinstance(t, intermediate.AbstractClass),
            "id_sets_ok": (set(id(a) for a in t.ancestors) == set(t.ancestor_id_set)
                           and set(id(a) for a in t.descendants) == set(t.descendant_id_set)),
        }
        if not is_cp:
            d["props"] = [[str(p.name), str(p.specified_for.name)] for p in t.properties]
            d["methods"] = [[str(m.name), str(m.specified_for.name)] for m in t.methods]
            inl = t.constructor.inlined_statements
            d["super_calls_left"] = sum(
                1 for s in inl if not isinstance(s, construction.AssignArgument))
            d["inlined"] = [str(s.name) if isinstance(s, construction.AssignArgument)
                            else str(s.super_name) for s in inl]
            d["iface"] = (None if t.interface is None
                          else [str(i.name) for i in t.interface.inheritances])
            d["wmt"] = bool(t.serialization.with_model_type)
            d["ctor_args"] = [str(a.name) for a in t.constructor.arguments]
        classes.append(d)
    return {"classes": classes,
            "topo": [str(t.name) for t in symbol_table.our_types_topologically_sorted]}


def run(text):
    atok, exc = parse.source_to_atok(source=text)
    if exc is not None:
        return {"err": ["syntax: " + str(exc)], "phase": "syntax"}
    import_errors = parse.check_expected_imports(atok=atok)
    if import_errors:
        return {"err": list(import_errors), "phase": "imports"}
    parsed, error = parse.atok_to_symbol_table(atok=atok)
    if error is not None:
        return {"err": messages(error), "phase": "parse"}
    symbol_table, error = intermediate.translate(parsed_symbol_table=parsed, atok=atok)
    if error is not None:
        return {"err": messages(error), "phase": "translate"}
    return {"ok": export(symbol_table)}


def main():
    cases = json.load(sys.stdin)
    out = []
    for text in cases:
        try:
            out.append(run(text))
        except RecursionError:
            out.append({"exc": "RecursionError"})
        except BaseException as e:  # noqa
            out.append({"exc": type(e).__name__, "msg": str(e)[:300]})
    json.dump(out, sys.stdout)


main()
