"""C11/C12 harness side: instance-friendly meta-model profile, specification-level
constraints of an abstract meta-model, instance generator, single-constraint mutants,
structural document mutants, regex sampler, Coq printers for schemas and documents.

Pure Python, standard library only; everything random is drawn from the ``rng`` passed in.
"""
from __future__ import annotations

import copy
import dataclasses
import math
import random
import re
from typing import Any, Dict, List, Optional, Sequence, Tuple

try:  # Python >= 3.11
    import re._parser as sre_parse  # type: ignore
    import re._constants as sre_constants  # type: ignore
except ImportError:  # pragma: no cover
    import sre_parse  # type: ignore
    import sre_constants  # type: ignore

from harness.gen import metamodel as mmg
from harness.gen.metamodel import TList, TOpt, TOur, TPrim


# =====================================================================================
# Profile
# =====================================================================================
def profile(name: str = "c11") -> mmg.Profile:
    """Meta-models whose classes mostly have instances that can be built by construction:
    many length / pattern / set constraints (the recognised ones), byte arrays with length
    bounds, lists of primitives and constrained primitives, diamonds; few free-form
    boolean nests (those are handled by rejection through the SDK's ``verify``)."""
    p = copy.deepcopy(mmg.PROFILES["small"])
    p.name = name
    p.clusters = (2, 3)
    p.cprims = (2, 4)
    p.pattern_fns = (2, 3)
    p.props_per_class = (1, 4)
    p.invariants_per_class = (0, 3)
    p.p_list = 0.3
    p.p_list_non_class = 0.5
    p.p_nested_list = 0.0  # the Python SDK generator does not support nested lists
    p.p_len_on_bytes = 0.9
    p.p_multi_pattern = 0.15
    p.p_doc = 0.1
    p.p_class_doc = 0.2
    p.p_method = 0.0
    p.impl_fns = (0, 0)
    p.transpilable_fns = (0, 1)
    p.forms = {"len_bound": 5.0, "pattern": 2.5, "in_set": 0.7, "none_implication": 0.6,
               "bool_nest": 0.1, "all_any": 0.1, "range_loop": 0.05, "prop_compare": 0.1,
               "fn_call": 0.05}
    p.shapes = {"single": 2.0, "forest": 2.0, "chain": 2.0, "diamond": 1.0,
                "stacked_diamonds": 0.3, "fan_out": 1.5}
    return p


# =====================================================================================
# Regex sampling (Python's own parser; the SDK matches with Python ``re`` as well)
# =====================================================================================
_POOL_BMP = list("abcxyzABCXYZ0123456789 _-./:+*()\\$~!") + ["ä", "é", "中", "�", "\t"]
_POOL_ASTRAL = ["\U0001F600", "\U00010000", "\U0010FFFF"]


def _in_set(items, cp: int) -> bool:
    negate = False
    hit = False
    for op, av in items:
        if op is sre_constants.NEGATE:
            negate = True
        elif op is sre_constants.LITERAL:
            hit = hit or cp == av
        elif op is sre_constants.RANGE:
            hit = hit or av[0] <= cp <= av[1]
        elif op is sre_constants.CATEGORY:
            ch = chr(cp)
            name = str(av)
            if "DIGIT" in name:
                r = ch.isdigit()
            elif "SPACE" in name:
                r = ch.isspace()
            elif "WORD" in name:
                r = ch.isalnum() or ch == "_"
            else:
                raise ValueError(f"category {av}")
            if "NOT" in name:
                r = not r
            hit = hit or r
        else:
            raise ValueError(f"set item {op}")
    return hit != negate


def _sample(tree, rng: random.Random, pool: Sequence[str], out: List[str]) -> None:
    # '.', [^x] and complemented sets never receive an astral character: the UTF-16 image of
    # such an atom matches one code unit only -- the documented limitation of
    # fix_pattern_for_utf16 recorded as known finding C17 dot-or-complement-vs-astral
    bmp = [c for c in pool if ord(c) < 0x10000]
    for op, av in tree:
        if op is sre_constants.LITERAL:
            out.append(chr(av))
        elif op is sre_constants.NOT_LITERAL:
            out.append(rng.choice([c for c in bmp if ord(c) != av]))
        elif op is sre_constants.ANY:
            out.append(rng.choice([c for c in bmp if c != "\n"]))
        elif op is sre_constants.IN:
            ranges = [(a, b) for o, (a, b) in ((o, v) for o, v in av if o is sre_constants.RANGE)]
            lits = [v for o, v in av if o is sre_constants.LITERAL]
            negated = any(o is sre_constants.NEGATE for o, _ in av)
            cands = [c for c in (bmp if negated else pool) if _in_set(av, ord(c))]
            if not negated:
                for a, b in ranges:
                    for _ in range(3):
                        cp = rng.randint(a, b)
                        if not 0xD800 <= cp <= 0xDFFF and (cp < 0x10000 or any(ord(c) >= 0x10000 for c in pool)):
                            cands.append(chr(cp))
                cands += [chr(v) for v in lits if v < 0x10000 or any(ord(c) >= 0x10000 for c in pool)]
            if not cands:
                raise ValueError("cannot sample the character class")
            out.append(rng.choice(cands))
        elif op is sre_constants.BRANCH:
            _sample(rng.choice(av[1]), rng, pool, out)
        elif op is sre_constants.SUBPATTERN:
            _sample(av[3], rng, pool, out)
        elif op in (sre_constants.MAX_REPEAT, sre_constants.MIN_REPEAT):
            lo, hi, sub = av
            hi = min(hi, lo + rng.choice([0, 1, 2, 3, 6])) if hi is sre_constants.MAXREPEAT or hi > lo + 6 else hi
            for _ in range(rng.randint(lo, max(lo, hi))):
                _sample(sub, rng, pool, out)
        elif op is sre_constants.AT:
            pass
        else:
            raise ValueError(f"regex op {op}")


def sample_matching(patterns: Sequence[str], rng: random.Random, lo: int, hi: Optional[int],
                    forbidden: Sequence[int] = (), astral: bool = False, tries: int = 60) -> Optional[str]:
    """A string that fully matches every pattern (Python ``re.match``; the patterns are
    anchored) with ``lo <= len <= hi`` in code points and a length not in ``forbidden``."""
    pool = _POOL_BMP + (_POOL_ASTRAL if astral else [])
    for _ in range(tries):
        if patterns:
            try:
                out: List[str] = []
                _sample(sre_parse.parse(patterns[0]), rng, pool, out)
            except (ValueError, re.error, IndexError):
                return None
            s = "".join(out)
        else:
            top = hi if hi is not None else lo + rng.choice([0, 1, 2, 5, 9])
            n = rng.randint(lo, max(lo, top))
            s = "".join(rng.choice(pool if rng.random() < 0.3 else "abcdefgh") for _ in range(n))
        if len(s) < lo or (hi is not None and len(s) > hi) or len(s) in forbidden:
            continue
        if all(re.match(p, s) is not None for p in patterns):
            return s
    return None


def resize_matching(patterns: Sequence[str], base: str, target: int) -> Optional[str]:
    """A string of exactly ``target`` code points matching all patterns, obtained by
    stretching / cutting ``base`` (for length mutants beyond what the sampler reaches)."""
    cands = [base[:target]]
    for ch in list(dict.fromkeys(list(base) + list("a0_zA-. x"))):
        cands += [(base + ch * target)[:target], (ch * target + base)[-target:] if target else "", ch * target]
    for s in cands:
        if len(s) == target and all(re.match(p, s) is not None for p in patterns):
            return s
    return None


def sample_not_matching(pattern: str, others: Sequence[str], base: str, rng: random.Random, lo: int,
                        hi: Optional[int]) -> Optional[str]:
    """A string violating ``pattern`` only: it still matches ``others`` and keeps the length
    window (so that exactly one constraint is broken)."""
    cands = []
    for ch in ["!", " ", "~", "€", "Z", "z", "0", "-"]:
        cands += [base + ch, ch + base, ch * max(lo, 1)]
        if base:
            k = rng.randrange(len(base))
            cands += [base[:k] + ch + base[k + 1:], base[:k] + base[k + 1:]]
    rng.shuffle(cands)
    for s in cands:
        if "\n" in s or len(s) < lo or (hi is not None and len(s) > hi):
            continue
        if re.match(pattern, s) is None and all(re.match(p, s) is not None for p in others):
            return s
    return None


# =====================================================================================
# Specification-level constraints (independent of the implementation's inference)
# =====================================================================================
@dataclasses.dataclass
class VC:
    """Constraints on one value: length window, patterns, lengths excluded by ``!=``.
    ``recognised_*`` = the part a schema generator is expected to express (C12);
    ``origins`` = (kind, where) of every recognised constraint."""

    lo: int = 0
    hi: Optional[int] = None
    patterns: List[str] = dataclasses.field(default_factory=list)
    forbidden: List[int] = dataclasses.field(default_factory=list)
    rec_lo: Optional[int] = None
    rec_hi: Optional[int] = None
    rec_patterns: List[str] = dataclasses.field(default_factory=list)
    origin_lo: str = ""
    origin_hi: str = ""
    origin_pat: Dict[str, str] = dataclasses.field(default_factory=dict)
    must_be_set: bool = False
    in_set: Optional[List[Any]] = None
    num: List[Tuple[str, Any]] = dataclasses.field(default_factory=list)

    def num_ok(self, x: Any) -> bool:
        ops = {">": lambda a, b: a > b, ">=": lambda a, b: a >= b, "<": lambda a, b: a < b,
               "<=": lambda a, b: a <= b, "!=": lambda a, b: a != b, "==": lambda a, b: a == b}
        return all(ops[op](x, n) for op, n in self.num)

    def add_len(self, op: str, n: int, recognised: bool, origin: str) -> None:
        lo, hi = None, None
        if op == ">=":
            lo = n
        elif op == ">":
            lo = n + 1
        elif op == "<=":
            hi = n
        elif op == "<":
            hi = n - 1
        elif op == "==":
            lo = hi = n
        elif op == "!=":
            self.forbidden.append(n)
            return
        if lo is not None and lo > self.lo:
            self.lo = lo
        if hi is not None and (self.hi is None or hi < self.hi):
            self.hi = hi
        if recognised:
            if lo is not None and (self.rec_lo is None or lo > self.rec_lo):
                self.rec_lo, self.origin_lo = lo, origin
            if hi is not None and (self.rec_hi is None or hi < self.rec_hi):
                self.rec_hi, self.origin_hi = hi, origin

    def add_pattern(self, pat: str, recognised: bool, origin: str) -> None:
        if pat not in self.patterns:
            self.patterns.append(pat)
        if recognised and pat not in self.rec_patterns:
            self.rec_patterns.append(pat)
            self.origin_pat[pat] = origin


def _fn_pattern(mm: mmg.MetaModel, fn: str) -> Optional[str]:
    f = mm.find_function(fn)
    return f.pattern if f is not None and f.kind == "pattern" else None


def cprim_vc(mm: mmg.MetaModel, name: str, vc: VC) -> None:
    cp = mm.find_cprim(name)
    if cp is None:
        return
    for b in cp.bases:
        cprim_vc(mm, b, vc)
    for inv in cp.invariants:
        if inv.form == "len_bound":
            vc.add_len(inv.meta["op"], inv.meta["n"], True, f"constrained-primitive:{name}")
        elif inv.form == "pattern":
            pat = _fn_pattern(mm, inv.meta["fn"])
            if pat is not None:
                vc.add_pattern(pat, True, f"constrained-primitive:{name}")
        elif inv.form == "self_compare":
            vc.num.append((inv.meta["op"], inv.meta["n"]))


def type_vc(mm: mmg.MetaModel, t: Any) -> VC:
    vc = VC()
    if isinstance(t, TOur):
        cprim_vc(mm, t.name, vc)
    return vc


def prop_vc(mm: mmg.MetaModel, cls: mmg.Class, prop: mmg.Property) -> VC:
    """Constraints on the value of ``prop`` in an instance of ``cls`` (its own class, its
    ancestors, the constrained primitive of the property's type)."""
    vc = type_vc(mm, mmg.beneath_optional(prop.type))
    for inv, owner in mmg.stacked_invariants(mm, cls):
        if inv.meta.get("prop") != prop.name:
            continue
        where = ("own-class" if owner is cls else "ancestor") + f":{owner.name}"
        guard = inv.meta.get("guard")
        recognised = guard in (None, "implication", "or_none")
        if guard == "and_set":
            vc.must_be_set = True
        if inv.form == "len_bound":
            vc.add_len(inv.meta["op"], inv.meta["n"], recognised, where)
        elif inv.form == "pattern":
            pat = _fn_pattern(mm, inv.meta["fn"])
            if pat is not None:
                vc.add_pattern(pat, recognised, where)
        elif inv.form == "in_set":
            s = mm.find_constant(inv.meta["set"])
            if s is not None:
                vals = list(s.values)
                vc.in_set = vals if vc.in_set is None else [v for v in vc.in_set if v in vals]
    return vc


# =====================================================================================
# Instances
# =====================================================================================
INF = 10 ** 6


class InstanceGen:
    def __init__(self, mm: mmg.MetaModel, rng: random.Random, astral: bool = False):
        self.mm = mm
        self.rng = rng
        self.astral = astral
        #: None, "lo" or "hi": length-constrained values take the smallest / largest
        #: admissible length (boundary instances)
        self.boundary: Optional[str] = None
        #: objects that one top-level instance may still create (bounds the document size:
        #: validation of nested oneOf dispatch and the in-Coq terms grow quickly with it)
        self.budget = 40
        self.height: Dict[str, int] = {}
        self._vc: Dict[Tuple[str, str], VC] = {}
        self._compute_heights()

    # -- which classes can be instantiated within which nesting depth ------------------
    def concrete_candidates(self, name: str) -> List[mmg.Class]:
        c = self.mm.find_class(name)
        if c is None:
            return []
        out = [] if c.is_abstract else [c]
        out += mmg.concrete_descendants(self.mm, c)
        return [x for x in out if not x.is_implementation_specific]

    def vc(self, cls: mmg.Class, prop: mmg.Property) -> VC:
        key = (cls.name, prop.name)
        if key not in self._vc:
            self._vc[key] = prop_vc(self.mm, cls, prop)
        return self._vc[key]

    def _type_height(self, t: Any, min_items: int) -> int:
        if isinstance(t, TList):
            return 0 if min_items <= 0 else self._item_height(t.items)
        return self._item_height(t)

    def _item_height(self, t: Any) -> int:
        if isinstance(t, TList):
            return 0
        if isinstance(t, TOur) and self.mm.find_class(t.name) is not None:
            hs = [self.height.get(c.name, INF) for c in self.concrete_candidates(t.name)]
            return min(hs) if hs else INF
        return 0

    def _class_height(self, cls: mmg.Class) -> int:
        h = 0
        for prop, _ in mmg.stacked_properties(self.mm, cls):
            vc = self.vc(cls, prop)
            if isinstance(prop.type, TOpt) and not vc.must_be_set:
                continue
            t = mmg.beneath_optional(prop.type)
            h = max(h, self._type_height(t, vc.lo))
        return h + 1 if h < INF else INF

    def _compute_heights(self) -> None:
        for c in self.mm.classes:
            self.height[c.name] = INF
        for _ in range(len(self.mm.classes) + 2):
            changed = False
            for c in self.mm.classes:
                if c.is_abstract or c.is_implementation_specific:
                    continue
                h = self._class_height(c)
                if h < self.height[c.name]:
                    self.height[c.name] = h
                    changed = True
            if not changed:
                break

    # -- values ------------------------------------------------------------------------
    def value(self, t: Any, vc: VC, depth: int) -> Any:
        """A value of (non-optional) type ``t`` satisfying ``vc``; raises ValueError."""
        rng = self.rng
        if isinstance(t, TList):
            top = vc.hi if vc.hi is not None else vc.lo + rng.choice([0, 0, 1, 2, 3])
            sizes = [n for n in range(vc.lo, max(vc.lo, top) + 1) if n not in vc.forbidden]
            if not sizes:
                raise ValueError("no admissible list size")
            n = rng.choice(sizes)
            if self.boundary == "lo":
                n = min(sizes)
            elif self.boundary == "hi" and vc.hi is not None:
                n = max(sizes)
            if n > 0 and self._item_height(t.items) > depth:
                small = [k for k in sizes if k == 0]
                if not small:
                    raise ValueError("too deep")
                n = 0
            return [self.value(t.items, type_vc(self.mm, t.items), depth) for _ in range(n)]
        if isinstance(t, TOur):
            en = self.mm.find_enum(t.name)
            if en is not None:
                names = [lit.name for lit in en.literals]
                if vc.in_set is not None:
                    names = [n for n in names if n in vc.in_set]
                if not names:
                    raise ValueError("empty enumeration choice")
                return {"e": [en.name, rng.choice(names)]}
            cp = self.mm.find_cprim(t.name)
            if cp is not None:
                return self.value(TPrim(cp.constrainee), vc, depth)
            cands = [c for c in self.concrete_candidates(t.name) if self.height.get(c.name, INF) <= depth]
            if not cands:
                raise ValueError("no instantiable class within depth")
            return self.instance(rng.choice(cands), depth - 1)
        assert isinstance(t, TPrim)
        if vc.in_set is not None:
            vals = [v for v in vc.in_set
                    if not isinstance(v, str) or all(re.match(p, v) for p in vc.patterns)]
            if not vals:
                raise ValueError("empty set choice")
            return rng.choice(vals)
        if t.name == "bool":
            return rng.random() < 0.5
        if t.name == "int":
            cands = [x for x in [0, 1, 2, 5, 17, 42, 99, -1, 1000, -7, 101]
                     + [n + d for _, n in vc.num for d in (-1, 0, 1)] if vc.num_ok(x)]
            if not cands:
                raise ValueError("no admissible int")
            return int(rng.choice(cands))
        if t.name == "float":
            cands = [x for x in [0.5, 1.0, 2.25, -3.5, 10.0, 0.0, -30.5, 30.5]
                     + [float(n) + d for _, n in vc.num for d in (-0.5, 0.0, 0.5)] if vc.num_ok(x)]
            if not cands:
                raise ValueError("no admissible float")
            return float(rng.choice(cands))
        if t.name == "str":
            if self.boundary is not None and (self.boundary == "lo" or vc.hi is not None):
                target = vc.lo if self.boundary == "lo" else vc.hi
                s = sample_matching(vc.patterns, rng, target, target, vc.forbidden, self.astral, tries=40)
                if s is not None:
                    return s
            s = sample_matching(vc.patterns, rng, vc.lo, vc.hi, vc.forbidden, self.astral)
            if s is None:
                raise ValueError("no matching string found")
            return s
        if t.name == "bytearray":
            top = vc.hi if vc.hi is not None else vc.lo + rng.choice([0, 1, 2, 3, 4, 7])
            sizes = [n for n in range(vc.lo, max(vc.lo, top) + 1) if n not in vc.forbidden]
            if not sizes:
                raise ValueError("no admissible byte length")
            # prefer the upper end: that is where text length and byte length differ most
            n = max(sizes) if rng.random() < 0.5 else rng.choice(sizes)
            if self.boundary == "lo":
                n = min(sizes)
            elif self.boundary == "hi" and vc.hi is not None:
                n = max(sizes)
            return {"b": bytes(rng.randrange(256) for _ in range(n)).hex()}
        raise ValueError(t.name)

    def instance(self, cls: mmg.Class, depth: int, p_optional: float = 0.5) -> Dict[str, Any]:
        self.budget -= 1
        if self.budget < 0:
            raise ValueError("instance too large")
        props: Dict[str, Any] = {}
        for prop, _ in mmg.stacked_properties(self.mm, cls):
            vc = self.vc(cls, prop)
            t = mmg.beneath_optional(prop.type)
            if isinstance(prop.type, TOpt) and not vc.must_be_set:
                if self.rng.random() > p_optional:
                    continue
                try:
                    props[prop.name] = self.value(t, vc, depth)
                except ValueError:
                    continue
            else:
                props[prop.name] = self.value(t, vc, depth)
        return {"c": cls.name, "p": props}

    def try_instance(self, cls: mmg.Class, depth: int = 3,
                     boundary: Optional[str] = None) -> Optional[Dict[str, Any]]:
        if self.height.get(cls.name, INF) > depth + 1:
            return None
        self.boundary = boundary
        self.budget = 40
        try:
            p_opt = 1.0 if boundary is not None else self.rng.choice([0.2, 0.5, 0.9])
            return self.instance(cls, depth, p_optional=p_opt)
        except ValueError:
            return None
        finally:
            self.boundary = None


# =====================================================================================
# Single-constraint mutants of an abstract instance (C12)
# =====================================================================================
def b64len(n: int) -> int:
    return 4 * ((n + 2) // 3)


def _walk(mm: mmg.MetaModel, inst: Dict[str, Any], path: Tuple[Any, ...] = ()):
    """Yield (path, class, property, value type, vc, value, container, key) for every
    property value and every list item that carries constraints."""
    cls = mm.find_class(inst["c"])
    assert cls is not None
    for prop, _ in mmg.stacked_properties(mm, cls):
        if prop.name not in inst["p"]:
            continue
        t = mmg.beneath_optional(prop.type)
        vc = prop_vc(mm, cls, prop)
        v = inst["p"][prop.name]
        yield (path + (prop.name,), cls, prop, t, vc, inst["p"], prop.name, "property")
        yield from _walk_value(mm, cls, prop, t, v, path + (prop.name,))


def _walk_value(mm, cls, prop, t, v, path):
    if isinstance(t, TList):
        for i, item in enumerate(v):
            yield (path + (i,), cls, prop, t.items, type_vc(mm, t.items), v, i, "item")
            yield from _walk_value(mm, cls, prop, t.items, item, path + (i,))
    elif isinstance(v, dict) and "c" in v:
        yield from _walk(mm, v, path)


def _prim_of(mm: mmg.MetaModel, t: Any) -> Optional[str]:
    if isinstance(t, TPrim):
        return t.name
    if isinstance(t, TOur):
        return mmg.cprim_constrainee(mm, t.name)
    return None


def constraint_mutants(mm: mmg.MetaModel, inst: Dict[str, Any], rng: random.Random,
                       limit: int = 8, ig: Optional["InstanceGen"] = None) -> List[Dict[str, Any]]:
    """Copies of ``inst`` in which exactly one value breaks one recognised constraint.
    Each mutant: {"inst", "kind", "origin", "path", "expect_reject": bool, "note"}.
    ``expect_reject`` is False only for the documented exclusion (byte lengths that the
    base64 text length cannot express) -- those are recorded, not demanded."""
    out: List[Dict[str, Any]] = []
    sites = list(_walk(mm, inst))
    rng.shuffle(sites)
    for path, cls, prop, t, vc, _cont, _key, level in sites:
        if len(out) >= limit:
            break
        prim = _prim_of(mm, t)
        is_list = isinstance(t, TList)
        if not (is_list or prim in ("str", "bytearray")):
            continue

        def put(new_value, kind, origin, expect=True, note=""):
            m = copy.deepcopy(inst)
            cur = m
            for step in path[:-1]:
                cur = cur["p"][step] if isinstance(cur, dict) and "c" in cur else cur[step]
            if isinstance(cur, dict) and "c" in cur:
                cur["p"][path[-1]] = new_value
            else:
                cur[path[-1]] = new_value
            out.append({"inst": m, "kind": kind, "origin": origin.split(":")[0], "where": origin,
                        "path": list(path), "level": level, "expect_reject": expect, "note": note,
                        "class": cls.name, "prop": prop.name})

        cur_container = _cont[_key]
        if is_list:
            if vc.rec_lo is not None and vc.rec_lo >= 1:
                put(list(cur_container[: vc.rec_lo - 1]), "minItems", vc.origin_lo)
            if vc.rec_hi is not None and (cur_container or ig is not None):
                items = list(cur_container)
                try:
                    while len(items) <= vc.rec_hi:
                        if cur_container:
                            items.append(copy.deepcopy(rng.choice(cur_container)))
                        else:
                            items.append(ig.value(t.items, type_vc(mm, t.items), 2))
                    put(items, "maxItems", vc.origin_hi)
                except ValueError:
                    pass
        elif prim == "str":
            if vc.rec_lo is not None and vc.rec_lo >= 1:
                s = sample_matching(vc.patterns, rng, vc.rec_lo - 1, vc.rec_lo - 1, tries=25)
                if s is None:
                    s = resize_matching(vc.patterns, cur_container, vc.rec_lo - 1)
                if s is not None:
                    put(s, "minLength", vc.origin_lo)
            if vc.rec_hi is not None:
                s = sample_matching(vc.patterns, rng, vc.rec_hi + 1, vc.rec_hi + 1, tries=25)
                if s is None:
                    s = resize_matching(vc.patterns, cur_container, vc.rec_hi + 1)
                if s is not None:
                    put(s, "maxLength", vc.origin_hi)
            for pat in vc.rec_patterns:
                s = sample_not_matching(pat, [p for p in vc.patterns if p != pat], cur_container, rng,
                                        vc.lo, vc.hi)
                if s is not None:
                    put(s, "pattern", vc.origin_pat[pat])
        elif prim == "bytearray":
            if vc.rec_lo is not None and vc.rec_lo >= 1:
                n = vc.rec_lo - 1
                expressible = b64len(n) < vc.rec_lo
                put({"b": bytes(rng.randrange(256) for _ in range(n)).hex()}, "minLength-bytes",
                    vc.origin_lo, expressible, "" if expressible else "base64 text length cannot express it")
            if vc.rec_hi is not None:
                for n in (vc.rec_hi + 1, 3 * ((vc.rec_hi + 2) // 3) + 1):
                    expressible = b64len(n) > b64len(vc.rec_hi)
                    put({"b": bytes(rng.randrange(256) for _ in range(n)).hex()}, "maxLength-bytes",
                        vc.origin_hi, expressible,
                        "" if expressible else "base64 text length cannot express it")
    return out[:limit]


# =====================================================================================
# Structural mutants of a produced JSON document (wrong / missing modelType, missing
# required property, mistyped value)
# =====================================================================================
def _mistype(v: Any, rng: random.Random) -> Any:
    if isinstance(v, bool):
        return rng.choice(["true", 1, None])
    if isinstance(v, int):
        return rng.choice([str(v), 1.5, [v], "x"])
    if isinstance(v, float):
        return rng.choice([str(v), [v], {"v": v}])
    if isinstance(v, str):
        return rng.choice([7, [v], {"s": v}, True, None])
    if isinstance(v, list):
        return rng.choice([{"0": 1}, "x", 3])
    if isinstance(v, dict):
        return rng.choice([[v], "x", 3, True])
    return 0


def structural_mutants(mm: mmg.MetaModel, names: Dict[str, Any], inst: Dict[str, Any], doc: Any,
                       rng: random.Random, limit: int = 10) -> List[Dict[str, Any]]:
    """Walk abstract instance and produced document in parallel."""
    out: List[Dict[str, Any]] = []
    all_model_types = sorted(set(names["classes"].values()))

    def clone_with(path, fn):
        d = copy.deepcopy(doc)
        cur = d
        for step in path:
            cur = cur[step]
        fn(cur)
        return d

    def visit(inst_node, doc_node, path):
        cls = mm.find_class(inst_node["c"])
        if cls is None or not isinstance(doc_node, dict):
            return
        if "modelType" in doc_node:
            mt = doc_node["modelType"]
            out.append({"doc": clone_with(path, lambda o: o.pop("modelType")), "kind": "missing-modelType",
                        "path": path, "class": cls.name})
            others = [m for m in all_model_types if m != mt]
            wrong = [mt + "x", mt.lower() if mt.lower() != mt else mt.upper(), "", 7]
            if others:
                wrong.append(rng.choice(others))
            w = rng.choice(wrong)
            out.append({"doc": clone_with(path, lambda o: o.__setitem__("modelType", w)),
                        "kind": "wrong-modelType", "path": path, "class": cls.name, "value": w})
        for prop, _ in mmg.stacked_properties(mm, cls):
            jname = names["props"].get(prop.name)
            if jname is None or jname not in doc_node:
                continue
            if not isinstance(prop.type, TOpt):
                out.append({"doc": clone_with(path, lambda o, j=jname: o.pop(j)), "kind": "missing-required",
                            "path": path + [jname], "class": cls.name})
            val = doc_node[jname]
            t = mmg.beneath_optional(prop.type)
            prim = _prim_of(mm, t)
            bad = _mistype(val, rng)
            if prim == "float" and isinstance(bad, (int, float)) and not isinstance(bad, bool):
                bad = "1.5"
            out.append({"doc": clone_with(path, lambda o, j=jname, b=bad: o.__setitem__(j, b)),
                        "kind": "mistyped", "path": path + [jname], "class": cls.name,
                        "value": repr(bad)[:40]})
            ival = inst_node["p"].get(prop.name)
            visit_value(t, ival, val, path + [jname])

    def visit_value(t, ival, dval, path):
        if isinstance(t, TList) and isinstance(ival, list) and isinstance(dval, list):
            for i, (a, b) in enumerate(zip(ival, dval)):
                if i < 2:
                    if not (isinstance(a, dict) and "c" in a):
                        bad = _mistype(b, rng)
                        if _prim_of(mm, t.items) == "float" and isinstance(bad, (int, float)) and not isinstance(bad, bool):
                            bad = "1.5"
                        out.append({"doc": clone_with(path, lambda o, k=i, x=bad: o.__setitem__(k, x)),
                                    "kind": "mistyped-item", "path": path + [i], "class": "",
                                    "value": repr(bad)[:40]})
                    visit_value(t.items, a, b, path + [i])
        elif isinstance(ival, dict) and "c" in ival:
            visit(ival, dval, path)

    visit(inst, doc, [])
    rng.shuffle(out)
    # keep a spread over the kinds
    seen: Dict[str, int] = {}
    kept = []
    for m in out:
        if seen.get(m["kind"], 0) < max(2, limit // 4):
            seen[m["kind"]] = seen.get(m["kind"], 0) + 1
            kept.append(m)
    return kept[:limit]


# =====================================================================================
# Coq printers (documents, schemas, the generator's view)
# =====================================================================================
class Unsupported(Exception):
    """The real artefact uses something outside the modelled subset (fail closed)."""


def _t(s: str) -> str:
    return "[" + ";".join(str(ord(c)) for c in s) + "]"


def _z(n: int) -> str:
    return f"({int(n)})%Z"


def _lst(items) -> str:
    return "[" + "; ".join(items) + "]"


def coq_json(v: Any) -> str:
    if v is None:
        return "JNull"
    if isinstance(v, bool):
        return f"(JBool {'true' if v else 'false'})"
    if isinstance(v, int):
        return f"(JNum true {_t(str(v))})"
    if isinstance(v, float):
        integral = v == v and v not in (float("inf"), float("-inf")) and float(v).is_integer()
        return f"(JNum {'true' if integral else 'false'} {_t(repr(v))})"
    if isinstance(v, str):
        return f"(JStr {_t(v)})"
    if isinstance(v, list):
        return f"(JArr {_lst(coq_json(x) for x in v)})"
    if isinstance(v, dict):
        return "(JObj " + _lst(f"({_t(k)}, {coq_json(x)})" for k, x in v.items()) + ")"
    raise Unsupported(f"JSON value {type(v)}")


_JTYPES = {"string": "TyString", "integer": "TyInteger", "number": "TyNumber", "boolean": "TyBoolean",
           "array": "TyArray", "object": "TyObject", "null": "TyNull"}
_REF_PREFIX = "#/definitions/"


def coq_schema(node: Any) -> str:
    if not isinstance(node, dict):
        raise Unsupported(f"schema node {node!r}")
    kws = []
    for k, v in node.items():
        if k == "type":
            if v not in _JTYPES:
                raise Unsupported(f"type {v!r}")
            kws.append(f"KType {_JTYPES[v]}")
        elif k == "enum":
            if not (isinstance(v, list) and all(isinstance(x, str) for x in v)):
                raise Unsupported("enum of non-strings")
            kws.append(f"KEnum {_lst(_t(x) for x in v)}")
        elif k == "const":
            if not isinstance(v, str):
                raise Unsupported("const non-string")
            kws.append(f"KConst {_t(v)}")
        elif k in ("minLength", "maxLength", "minItems", "maxItems"):
            if not isinstance(v, int) or isinstance(v, bool):
                raise Unsupported(f"{k} {v!r}")
            kws.append(f"K{k[0].upper()}{k[1:]} {_z(v)}")
        elif k == "pattern":
            if not isinstance(v, str):
                raise Unsupported("pattern non-string")
            kws.append(f"KPattern {_t(v)}")
        elif k == "items":
            kws.append(f"KItems {coq_schema(v)}")
        elif k == "properties":
            kws.append("KProperties " + _lst(f"({_t(n)}, {coq_schema(s)})" for n, s in v.items()))
        elif k == "required":
            kws.append(f"KRequired {_lst(_t(x) for x in v)}")
        elif k in ("allOf", "oneOf"):
            kws.append(f"K{k[0].upper()}{k[1:]} {_lst(coq_schema(s) for s in v)}")
        elif k == "$ref":
            if not (isinstance(v, str) and v.startswith(_REF_PREFIX)):
                raise Unsupported(f"$ref {v!r}")
            kws.append(f"KRef {_t(v[len(_REF_PREFIX):])}")
        elif k == "contentEncoding":
            kws.append(f"KAnnot {_t(k)} {_t(v)}")
        else:
            raise Unsupported(f"keyword {k!r}")
    return "(Schema " + _lst(kws) + ")"


def coq_definitions(defs: Dict[str, Any]) -> str:
    return _lst(f"({_t(n)}, {coq_schema(s)})" for n, s in defs.items())


_PRIMS = {"BOOL": "PBool", "INT": "PInt", "FLOAT": "PFloat", "STR": "PStr", "BYTEARRAY": "PBytes"}


def _coq_tyanno(t: Dict[str, Any]) -> str:
    i = f"{t['id']}%N"
    if t["k"] == "prim":
        return f"(TAPrim {i} {_PRIMS[t['p']]})"
    if t["k"] == "enum":
        return f"(TAEnum {i} {_t(t['name'])})"
    if t["k"] == "class":
        return f"(TAClass {i} {_t(t['name'])} {'true' if t['has_desc'] else 'false'})"
    if t["k"] == "list":
        return f"(TAList {i} {_coq_tyanno(t['items'])})"
    raise Unsupported(t["k"])


def _b(x: bool) -> str:
    return "true" if x else "false"


def _optz(x) -> str:
    return "None" if x is None else f"(Some {_z(x)})"


def coq_view(view: Dict[str, Any]) -> str:
    """``list our_type`` for Model/JsonSchemaGen.v."""
    items = []
    for o in view["our_types"]:
        if o["k"] == "enum":
            items.append(f"OEnum {_t(o['name'])} {_lst(_t(v) for v in o['values'])}")
        elif o["k"] == "cprim":
            items.append("OCprim")
        else:
            if o["impl_specific"]:
                raise Unsupported("implementation-specific class")
            props = _lst(
                f"mkProp {_t(p['name'])} {_b(p['optional'])} {_b(p['own'])} {_coq_tyanno(p['type'])}"
                for p in o["properties"])
            parents = _lst(f"mkParent {_t(p['name'])} {_b(p['abstract'])} {_b(p['with_model_type'])}"
                           for p in o["inheritances"])
            cons = _lst(
                "({}%N, mkC {} {})".format(
                    c["id"],
                    "None" if c["len"] is None else f"(Some ({_optz(c['len'][0])}, {_optz(c['len'][1])}))",
                    "None" if c["patterns"] is None else f"(Some {_lst(_t(p) for p in c['patterns'])})")
                for c in o["constraints"])
            items.append(
                f"OClass (mkCls {_t(o['name'])} {_b(o['abstract'])} {_b(o['with_model_type'])} {parents} "
                f"{_lst(_t(d) for d in o['concrete_descendants'])} {_b(o['in_properties'])} {props} {cons})")
    return _lst(items)


def coq_fix_table(view: Dict[str, Any]) -> str:
    return _lst(f"({_t(raw)}, {_t(fixed)})" for raw, fixed in view["patterns"].items())


def strings_in(doc: Any, out: List[str]) -> None:
    if isinstance(doc, str):
        out.append(doc)
    elif isinstance(doc, list):
        for x in doc:
            strings_in(x, out)
    elif isinstance(doc, dict):
        for x in doc.values():
            strings_in(x, out)


def patterns_in(schema: Any, out: List[str]) -> None:
    if isinstance(schema, dict):
        for k, v in schema.items():
            if k == "pattern" and isinstance(v, str):
                out.append(v)
            else:
                patterns_in(v, out)
    elif isinstance(schema, list):
        for x in schema:
            patterns_in(x, out)


def utf16_units(s: str) -> str:
    out = []
    for ch in s:
        cp = ord(ch)
        if cp >= 0x10000:
            cp -= 0x10000
            out.append(chr(0xD800 + (cp >> 10)))
            out.append(chr(0xDC00 + (cp & 0x3FF)))
        else:
            out.append(ch)
    return "".join(out)


def search_table(patterns: Sequence[str], doc: Any) -> str:
    """``list (pattern * list string)``: for every schema pattern the strings of the document
    on whose UTF-16 image Python ``re.search`` finds it (the trusted regex oracle of the
    in-Coq validation; a pair that is not listed is a non-match)."""
    strs: List[str] = []
    strings_in(doc, strs)
    distinct = sorted(set(strs))
    images = [(s, utf16_units(s)) for s in distinct]
    rows = []
    for p in sorted(set(patterns)):
        try:
            rx = re.compile(p)
        except re.error:
            continue
        hits = [s for s, u in images if rx.search(u) is not None]
        if hits:
            rows.append(f"({_t(p)}, {_lst(_t(s) for s in hits)})")
    return _lst(rows)
