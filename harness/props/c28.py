"""C28 — Smoke check agrees with the real generators."""
from __future__ import annotations

import pathlib
import re

from harness import lib
from harness.gen import metamodel as mmg
from harness.lib import coq_bool, coq_nat, coq_option, coq_pair, coq_z

META = {
    "title": "Smoke check agrees with the real generators",
    "design_ref": "§4 C28",
    "level_text": (
        "Coq theorem over the stage skeleton of smoke execute, re-translated from the source on "
        "every run: exit 0 iff no stage reported an error, non-zero exit implies a report, for "
        "every combination of stage outcomes; generated obligations that the stages are the "
        "front-end stages of run.load_model, the constraint inference called by the schema "
        "generators and the C# type/verification generation called by the C# generator. The "
        "skeleton is tied to behaviour by running the real smoke tool and, independently, each "
        "stage on generated valid and invalid meta-models, and the five recorded smoke cases "
        "are replayed."
    ),
    "level_note": (
        "The stages themselves are opaque in the theorem (their own correctness is C01/C15/C21). "
        "Trusted: harness/translate/smoke.py (Python ast -> skeleton), the independent stage "
        "runner harness/impl/smoke_stages.py."
    ),
    "technique": "Coq proof on a control-flow skeleton regenerated from source + differential runs",
}
GEN = ["GenSmoke"]
MODEL = ["Model/SmokeSkel", "Gen/GenSmoke"]
TRUSTED = [
    "harness/translate/smoke.py: fail-closed translation of smoke/main.py into a stage skeleton",
    "harness/impl/smoke_stages.py: independent execution of the stages the smoke tool covers",
]
RULE = ("case = meta-model text (generated valid models, C06-style rule mutations, textual "
        "mutations, the recorded smoke cases); distinct by text; non-trivial = some stage fails "
        "(rc 1) — valid models are the trivial half")

HEADER = """From Coq Require Import List NArith ZArith Bool.
From Acg Require Import Base.Str Model.SmokeSkel Gen.GenSmoke.
Import ListNotations.
Definition case_ok (c : option nat * Z * bool) : bool :=
  match c with
  | (ff, rc, wrote) =>
      let fails := fun k => match ff with Some j => Nat.eqb k j | None => false end in
      let r := run smoke_stages smoke_final_ret 0 fails in
      Z.eqb (fst r) rc && Bool.eqb (snd r) wrote
  end.
Fixpoint bad_from (i : nat) (cs : list (option nat * Z * bool)) : list nat :=
  match cs with
  | [] => []
  | c :: r => if case_ok c then bad_from (S i) r else i :: bad_from (S i) r
  end.
Definition bad := bad_from 0.
"""

BULLET_RE = re.compile(r"^[^\n]*:\n(\* .*(\n(  .*|\s*))*\n?)+$")


def report_ok(stderr: str) -> bool:
    if not stderr.strip():
        return False
    if "\n" not in stderr.rstrip("\n"):
        return True  # one-line message (e.g. syntax error)
    return BULLET_RE.match(stderr) is not None


def text_mutations(rng, text):
    lines = text.split("\n")
    out = []
    for _ in range(3):
        k = rng.randrange(len(lines))
        kind = rng.choice(["drop", "dup", "garble", "indent"])
        l2 = list(lines)
        if kind == "drop":
            del l2[k]
        elif kind == "dup":
            l2.insert(k, lines[k])
        elif kind == "garble":
            l2[k] = l2[k].replace("self", "slef", 1) if "self" in l2[k] else l2[k] + " ("
        else:
            l2[k] = " " + l2[k]
        out.append("\n".join(l2))
    return out


def streams(ctx: lib.Ctx) -> None:
    rng = ctx.rng
    texts = []
    labels = []
    root = lib.REPO / "dev" / "test_data" / "smoke" / "test_main" / "unexpected"
    recorded = []
    for mp in sorted(root.rglob("meta_model.py")):
        texts.append(mp.read_text(encoding="utf-8"))
        labels.append(f"recorded:{mp.parent.relative_to(root)}")
        recorded.append((len(texts) - 1, (mp.parent / "expected_stderr.txt").read_text(encoding="utf-8")))
    n = ctx.n(10, 80)
    for i in range(n):
        mm = mmg.random_metamodel(rng, "small" if i % 2 else "tiny")
        t = mmg.render_source(mm)
        texts.append(t)
        labels.append(f"valid:{i}")
        for j, m in enumerate(text_mutations(rng, t)):
            texts.append(m)
            labels.append(f"textmut:{i}.{j}")
        rules = list(mmg.MUTATIONS)
        for rule in rng.sample(rules, min(3, len(rules))):
            m = mmg.mutate(mm, rng, rule if isinstance(rule, str) else getattr(rule, "__name__", rule))
            if m is not None:
                texts.append(m.text)
                labels.append(f"rulemut:{i}:{m.rule}")
    res = []
    B = 40
    for k in range(0, len(texts), B):
        res += lib.impl_call("smoke_stages.py", {"models": texts[k:k + B]}, timeout=1500)

    cases = []
    nontrivial = []
    dist = {"rc0": 0, "rc1": 0, "exc": 0}
    for i, (t, lab, r) in enumerate(zip(texts, labels, res)):
        key = f"{lab.split(':')[0]}"
        if r["exc"] is not None:
            dist["exc"] += 1
            ctx.impl_failure(f"smoke-raises:{r['exc']['class']}", "the smoke tool raised instead of reporting",
                             {"label": lab, "model_text": t}, r, "smoke")
            continue
        ff = r["first_fail"]
        if isinstance(ff, dict):
            # a stage itself crashes when run stand-alone: C01/C02's business; the smoke tool
            # did not crash (checked above), so nothing to compare here
            continue
        rc, wrote = r["rc"], r["stderr"] != ""
        dist["rc0" if rc == 0 else "rc1"] += 1
        if rc != 0:
            nontrivial.append(t)
        # the property, executed directly
        if (rc == 0) != (ff is None):
            ctx.impl_failure(f"smoke-disagrees:{key}:stage{ff}",
                             f"smoke exit status {rc} but first failing stage is {ff}",
                             {"label": lab, "model_text": t}, r, "smoke")
        if rc != 0 and not report_ok(r["stderr"]):
            ctx.impl_failure(f"smoke-report:{key}", "non-zero exit without a well-formed report",
                             {"label": lab, "model_text": t}, r, "smoke")
        if rc == 0 and wrote:
            ctx.impl_failure(f"smoke-stderr-on-success:{key}", "exit 0 but stderr written",
                             {"label": lab, "model_text": t}, r, "smoke")
        cases.append((i, coq_pair(coq_option(None if ff is None else coq_nat(ff)), coq_z(rc), coq_bool(wrote))))
    for idx, exp in recorded:
        if res[idx]["stderr"] != exp:
            ctx.impl_failure(f"smoke-recorded:{labels[idx]}",
                             "report differs from the recorded expectation (up to the model path)",
                             {"label": labels[idx]}, {"got": res[idx]["stderr"], "expected": exp}, "recorded")
    bad, _ = lib.run_cases(ctx.work, "cases", HEADER, "option nat * Z * bool", "bad", [c for _, c in cases])
    for b in bad[:10]:
        i = cases[b][0]
        ctx.corr_break("skeleton", {"label": labels[i], "model_text": texts[i]},
                       "run smoke_stages … disagrees", res[i])
    ctx.count("smoke", len(texts), nontrivial_keys=nontrivial, validated=len(cases), **dist,
              recorded_cases=len(recorded))
    ctx.sample({"label": labels[0], "rc": res[0]["rc"], "first_fail": res[0]["first_fail"]})
    ctx.sample({"label": labels[-1], "rc": res[-1]["rc"], "first_fail": res[-1]["first_fail"]})
