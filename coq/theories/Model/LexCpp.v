(** C19 — C++ string / character literal lexer, [lex.string], [lex.ccon], [lex.phases]
    (C++11..C++20, no trigraphs): ordinary ([narrow]) and wide ([L]) string literals
    incl. concatenation of adjacent literals, simple / octal (1-3 digits) / hexadecimal
    (an unbounded number of digits) escapes, universal character names, line splicing.
    Wide characters are 32 bit (g++/Linux): the value of a wide string is the list of
    its [wchar_t] values. Not modelled ([None]): raw strings, non-ASCII characters and
    UCNs in narrow literals (execution character set), unknown escapes (a warning).
    [lex_cpp_string] is the lexer WITHOUT trigraph replacement (C++17 and later; also
    g++ in its default gnu++ mode); [lex_cpp11_string] first performs translation phase 1
    of C++11/14, the replacement of the nine trigraph sequences -- the generated SDK is
    built as C++11 with extensions off, where g++ does replace them.
    [lex_cpp_wchar] also reads the expression [static_cast<wchar_t>(0x....)] that
    [wchar_literal] emits for surrogates. Executable definitions only. *)
From Coq Require Import List NArith Bool.
From Coq Require Strings.String.
Import Coq.Strings.String.StringSyntax.
From Acg Require Import Base.Str Model.LexCore.
Import ListNotations.
Open Scope N_scope.

Inductive cpp_state : Type :=
| CStart                      (* expecting the (prefix and) opening quote *)
| CPrefix                     (* after L *)
| CBody
| CQ                          (* in the body, the previous source character was a question mark *)
| CEsc
| CHex (seen : bool) (acc : N)
| COct (seen : nat) (acc : N)
| CUcn (remaining : nat) (acc : N)
| CBetween.                   (* after a closing quote: blanks, or the next piece *)

Definition two32 : N := 4294967296.

Definition cpp_simple_escape (c : N) : option N :=
  if c =? 39 then Some 39 else if c =? 34 then Some 34 else if c =? 63 then Some 63
  else if c =? 92 then Some 92 else if c =? 97 then Some 7 else if c =? 98 then Some 8
  else if c =? 102 then Some 12 else if c =? 110 then Some 10 else if c =? 114 then Some 13
  else if c =? 116 then Some 9 else if c =? 118 then Some 11 else None.

Definition cpp_fits (wide : bool) (v : N) : bool :=
  if wide then v <? two32 else v <=? 255.

(** [q] is the closing delimiter: 34 for strings, 39 for character literals. *)
Definition cpp_body_char (wide : bool) (q c : N) : option (cpp_state * text) :=
  if c =? q then Some (CBetween, [])
  else if c =? 92 then Some (CEsc, [])
  else if (c =? 10) || (c =? 13) || (c =? 0) then None
  else if negb (source_char c) then None
  else if negb wide && (128 <=? c) then None
  else if c =? 63 then Some (CQ, [c])
  else Some (CBody, [c]).

Definition cpp_step (wide : bool) (q : N) (st : cpp_state) (c : N) : option (cpp_state * text) :=
  match st with
  | CStart =>
      if wide then (if c =? 76 then Some (CPrefix, []) else None)
      else if c =? q then Some (CBody, []) else None
  | CPrefix => if c =? q then Some (CBody, []) else None
  | CBody => cpp_body_char wide q c
  | CQ => cpp_body_char wide q c
  | CEsc =>
      match cpp_simple_escape c with
      | Some v => Some (if c =? 63 then CQ else CBody, [v])
      | None =>
          if c =? 10 then Some (CBody, [])             (* line splicing *)
          else if c =? 120 then Some (CHex false 0, [])
          else if c =? 117 then (if wide then Some (CUcn 4 0, []) else None)
          else if c =? 85 then (if wide then Some (CUcn 8 0, []) else None)
          else match oct_val c with
               | Some d => Some (COct 1 d, [])
               | None => None
               end
      end
  | CHex seen acc =>
      match hex_val c with
      | Some d => if cpp_fits wide (acc * 16 + d) then Some (CHex true (acc * 16 + d), []) else None
      | None =>
          if seen then
            match cpp_body_char wide q c with
            | Some (st', out) => Some (st', acc :: out)
            | None => None
            end
          else None
      end
  | COct seen acc =>
      match oct_val c, seen with
      | Some d, 1%nat => Some (COct 2 (acc * 8 + d), [])
      | Some d, 2%nat => if cpp_fits wide (acc * 8 + d) then Some (CBody, [acc * 8 + d]) else None
      | _, _ =>
          match cpp_body_char wide q c with
          | Some (st', out) => Some (st', acc :: out)
          | None => None
          end
      end
  | CUcn remaining acc =>
      match hex_val c, remaining with
      | Some d, S O =>
          let v := acc * 16 + d in
          if (v <=? 1114111) && negb (surrogate v) then Some (CBody, [v]) else None
      | Some d, S k => Some (CUcn k (acc * 16 + d), [])
      | _, _ => None
      end
  | CBetween =>
      if q =? 39 then None                              (* a character literal is one token *)
      else if (c =? 32) || (c =? 9) || (c =? 10) then Some (CBetween, [])
      else if wide then (if c =? 76 then Some (CPrefix, []) else None)
      else if c =? q then Some (CBody, []) else None
  end.

Definition lex_cpp_string (wide : bool) (l : text) : option text :=
  match run (cpp_step wide 34) CStart l with
  | Some (CBetween, v) => Some v
  | _ => None
  end.

(** Translation phase 1 of C++11/14 ([lex.trigraph]). *)
Definition trigraph (c : N) : option N :=
  if c =? 61 then Some 35 else if c =? 47 then Some 92 else if c =? 39 then Some 94
  else if c =? 40 then Some 91 else if c =? 41 then Some 93 else if c =? 33 then Some 124
  else if c =? 60 then Some 123 else if c =? 62 then Some 125 else if c =? 45 then Some 126
  else None.

Fixpoint replace_trigraphs (t : text) : text :=
  match t with
  | [] => []
  | x :: r =>
      match r with
      | y :: c :: r' =>
          if (x =? 63) && (y =? 63) then
            match trigraph c with
            | Some v => v :: replace_trigraphs r'
            | None => x :: replace_trigraphs r
            end
          else x :: replace_trigraphs r
      | _ => x :: replace_trigraphs r
      end
  end.

Definition lex_cpp11_string (wide : bool) (l : text) : option text :=
  lex_cpp_string wide (replace_trigraphs l).

(** Hexadecimal integer literal body: digits up to the closing parenthesis. *)
Fixpoint hex_int (seen : bool) (acc : N) (t : text) : option N :=
  match t with
  | [] => None
  | c :: r =>
      if (c =? 41) then (match r with [] => if seen then Some acc else None | _ => None end)
      else match hex_val c with
           | Some d => hex_int true (acc * 16 + d) r
           | None => None
           end
  end.

Definition cast_prefix : text := s2l "static_cast<wchar_t>(0x".

Definition lex_cpp_wchar (l : text) : option N :=
  match strip_prefix cast_prefix l with
  | Some r =>
      match hex_int false 0 r with
      | Some v => if v <? two32 then Some v else None
      | None => None
      end
  | None =>
      match run (cpp_step true 39) CStart l with
      | Some (CBetween, [v]) => Some v
      | _ => None
      end
  end.
