(** C27 — Message wrapping keeps text and layout rules.

    Theorems over the model [Model/Wrap.v] of [common.wrap_text_into_lines],
    instantiated with the article tuples regenerated from the source on every run
    ([Gen/GenWrap.v]). This file contains only statements, [exact]s and
    [Print Assumptions]. *)
From Coq Require Import List NArith ZArith Bool.
From Coq Require Strings.String.
Import Coq.Strings.String.StringSyntax.
From Acg Require Import Base.Str Model.Wrap Proofs.WrapFacts Gen.GenWrap.
Import ListNotations.
Open Scope Z_scope.

Definition arts1 : list text := nth 0 article_tuples [].
Definition arts2 : list text := nth 1 article_tuples [].

(** Generated side conditions: there are exactly the two membership tests of the
    token loop and both use the same tuple; every article is a non-empty word
    without a blank. *)
Theorem C27_gen_tuples_agree :
  Nat.eqb (length article_tuples) 2 && list_eqb text_eqb arts1 arts2 = true.
Proof. vm_compute. reflexivity. Qed.
Print Assumptions C27_gen_tuples_agree.

Theorem C27_gen_articles_ok :
  forallb (fun a => negb (is_empty a) && negb (memN SP a)) arts1 = true.
Proof. vm_compute. reflexivity. Qed.
Print Assumptions C27_gen_articles_ok.

Lemma arts_same : forall p, is_article2 arts2 p = is_article1 arts1 p.
Proof. intros p. vm_compute arts1. vm_compute arts2. reflexivity. Qed.

(** Concatenating the segments gives back the text exactly — all texts, all widths
    (negative ones included). In particular the [assert "".join(tokens) == text] of
    the code can never fire. *)
Theorem C27_wrap_concat :
  forall (w : Z) (t : text), concat (wrap arts1 arts2 w t) = t.
Proof. exact (wrap_concat arts1 arts2). Qed.
Print Assumptions C27_wrap_concat.

(** Every segment fits the width, unless it is a single token of the text — or the
    whole text when it contains no blank at all. *)
Theorem C27_wrap_width : forall (w : Z) (t seg : text),
  0 <= w -> In seg (wrap arts1 arts2 w t) ->
  zlen seg <= w
  \/ (In seg (tokens_of arts1 arts2 t) /\ w < zlen seg)
  \/ (seg = t /\ ~ In SP t).
Proof. exact (wrap_width arts1 arts2). Qed.
Print Assumptions C27_wrap_width.

(** ... where a token is a word (a run without blanks), or an article, the blanks
    after it and at most one word. *)
Theorem C27_token_shape : forall (t tok : text),
  In tok (tokens_loop arts1 arts2 (split_on SP t) None) -> unit_tok arts1 tok.
Proof. exact (token_shape arts1 arts2 arts_same). Qed.
Print Assumptions C27_token_shape.

(** Article rule, token level: in the token list every token ends with a non-article
    word, or the token after it starts with an article. *)
Theorem C27_tokens_articles_kept : forall (t : text),
  chain arts1 (tokens_loop arts1 arts2 (split_on SP t) None).
Proof. exact (tokens_articles_kept arts1 arts2 arts_same). Qed.
Print Assumptions C27_tokens_articles_kept.

(** Article rule, segment level, full statement: for every text and width, a segment
    whose last word is an article is followed (blanks skipped) by nothing or by another
    article — an article is never cut off from the word it belongs to. ([article_rule]
    is the executable rule of Model/Wrap.v; consecutive articles are split by design,
    which the repository's own unit test [test_only_articles] pins.) *)
Theorem C27_wrap_article : forall (w : Z) (t : text),
  article_rule arts1 (wrap arts1 arts2 w t) = true.
Proof. exact (wrap_article arts1 arts2 arts_same C27_gen_articles_ok). Qed.
Print Assumptions C27_wrap_article.

(** Non-vacuity: a text with articles, double blanks, consecutive articles and a
    trailing article really is split, and the rule is not trivially true. *)
Example C27_nonvacuous :
  wrap arts1 arts2 9 (s2l "we saw the cat and an   owl a a")
  = [s2l "we saw "; s2l "the cat "; s2l "and "; s2l "an   owl "; s2l "a a"]
  /\ article_rule arts1 (wrap arts1 arts2 9 (s2l "we saw the cat and an   owl a a")) = true
  /\ article_rule arts1 [s2l "saw the "; s2l "cat"] = false.
Proof. vm_compute. repeat split; reflexivity. Qed.
Print Assumptions C27_nonvacuous.
