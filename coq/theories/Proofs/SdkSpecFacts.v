(** Proofs about the traversal specification of Model/SdkSpec.v (C29) and basic facts
    shared with the serialization proofs (C10). *)
From Coq Require Import List NArith ZArith Bool Lia Relations Arith.
From Acg Require Import Base.Str Base.Outcome Model.SdkSpec Proofs.SdkSpecConstFacts.
Import ListNotations.
Local Open Scope nat_scope.

(** ** Stand-alone versions of the nested fixpoints *)
Section Standalone.
Variable m : mm.
Fixpoint wf_fields (ps : list prop) (fs : list value) {struct fs} : bool :=
  match ps, fs with
  | [], [] => true
  | p :: ps', f :: fs' =>
      (match f with
       | VNone => p_opt p
       | VList vs =>
           match p_ty p with
           | TList a' => forallb (wf_atom m a') vs
           | TAtom _ => false
           end
       | _ =>
           match p_ty p with
           | TAtom a' => wf_atom m a' f
           | TList _ => false
           end
       end) && wf_fields ps' fs'
  | _, _ => false
  end.

Lemma wf_atom_obj : forall c d fs,
  wf_atom m (ACls c) (VObj d fs) =
  mem_text d (options m c) &&
  match find_cls m d with
  | Some k => negb (c_abstract k) && wf_fields (c_props k) fs
  | None => false
  end.
Proof. reflexivity. Qed.

Fixpoint descend_items (vs : list value) : list value :=
  match vs with
  | [] => []
  | x :: r => (x :: descend m x) ++ descend_items r
  end.

Fixpoint descend_fields (ps : list prop) (fs : list value) {struct fs} : list value :=
  match ps, fs with
  | p :: ps', f :: fs' =>
      (match p_ty p with
       | TAtom a =>
           if is_cls_atom a then (match f with VNone => [] | _ => f :: descend m f end) else []
       | TList a =>
           if is_cls_atom a then (match f with VList vs => descend_items vs | _ => [] end) else []
       end) ++ descend_fields ps' fs'
  | _, _ => []
  end.
End Standalone.

Lemma descend_obj : forall m c fs,
  descend m (VObj c fs) =
  match find_cls m c with Some k => descend_fields m (c_props k) fs | None => [] end.
Proof. reflexivity. Qed.

Definition visit (m : mm) (c : value) : list value := c :: descend m c.

Lemma descend_items_flat : forall m vs, descend_items m vs = flat_map (visit m) vs.
Proof. induction vs as [|x r IH]; cbn; [reflexivity|]. now rewrite IH. Qed.

Lemma descend_fields_flat : forall m ps fs,
  descend_fields m ps fs = flat_map (visit m) (once_fields ps fs).
Proof.
  intros m ps fs. revert ps. induction fs as [|f fs IH]; intros [|p ps]; cbn; try reflexivity.
  rewrite flat_map_app, IH. f_equal. unfold once_of_prop.
  destruct (p_ty p) as [a|a]; destruct (is_cls_atom a); cbn; try reflexivity.
  - destruct f; cbn; try reflexivity; try (now rewrite app_nil_r).
  - destruct f; cbn; try reflexivity; try apply descend_items_flat.
Qed.

(** [descend] is the pre-order unfolding of [descend_once] — for every value, well-formed
    or not. *)
Theorem descend_preorder : forall m v,
  descend m v = flat_map (fun c => c :: descend m c) (descend_once m v).
Proof.
  intros m v. destruct v; try reflexivity.
  rewrite descend_obj. unfold descend_once. destruct (find_cls m c); [|reflexivity].
  apply descend_fields_flat.
Qed.

(** ** [descend_once] against the value-directed reading *)

Lemma wf_atom_nonobj : forall m a v, is_cls_atom a = false -> wf_atom m a v = true -> is_obj v = false.
Proof. intros m [q|e|c] v Ha H; try discriminate; destruct v; try reflexivity; try (destruct q; discriminate); discriminate. Qed.

Lemma wf_atom_isobj : forall m a v, is_cls_atom a = true -> wf_atom m a v = true -> is_obj v = true.
Proof. intros m [q|e|c] v Ha H; try discriminate. destruct v; try discriminate. reflexivity. Qed.

Lemma filter_all : forall {A} (f : A -> bool) l, forallb f l = true -> filter f l = l.
Proof.
  intros A f l. induction l as [|x l IH]; cbn; intros H; [reflexivity|].
  apply andb_true_iff in H as [H1 H2]. rewrite H1. f_equal. auto.
Qed.
Lemma filter_none : forall {A} (f : A -> bool) l, forallb (fun x => negb (f x)) l = true -> filter f l = [].
Proof.
  intros A f l. induction l as [|x l IH]; cbn; intros H; [reflexivity|].
  apply andb_true_iff in H as [H1 H2]. apply negb_true_iff in H1. rewrite H1. auto.
Qed.

Lemma forallb_impl : forall {A} (f g : A -> bool) l,
  (forall x, f x = true -> g x = true) -> forallb f l = true -> forallb g l = true.
Proof.
  intros A f g l Hfg. induction l as [|x l IH]; cbn; intros H; [reflexivity|].
  apply andb_true_iff in H as [H1 H2]. rewrite (Hfg _ H1). auto.
Qed.

Definition field_wf (m : mm) (p : prop) (f : value) : bool :=
  match f with
  | VNone => p_opt p
  | VList vs => match p_ty p with TList a' => forallb (wf_atom m a') vs | TAtom _ => false end
  | _ => match p_ty p with TAtom a' => wf_atom m a' f | TList _ => false end
  end.

Lemma wf_fields_cons : forall m p ps f fs,
  wf_fields m (p :: ps) (f :: fs) = field_wf m p f && wf_fields m ps fs.
Proof. intros. destruct f; reflexivity. Qed.

Lemma field_wf_atom : forall m p f,
  field_wf m p f = true -> is_none f = false -> (forall vs, f <> VList vs) ->
  exists a, p_ty p = TAtom a /\ wf_atom m a f = true.
Proof.
  intros m p f H Hn Hl. destruct f; cbn in H; try discriminate;
    try (destruct (p_ty p) as [a|a]; [exists a; auto|discriminate]).
  exfalso. eapply Hl. reflexivity.
Qed.

Lemma field_once : forall m p f, field_wf m p f = true -> once_of_prop p f = nested_of_field f.
Proof.
  intros m p f H. unfold once_of_prop.
  destruct (is_none f) eqn:En.
  { destruct f; try discriminate. destruct (p_ty p) as [a|a]; destruct (is_cls_atom a); reflexivity. }
  destruct f as [| | | | | | |vs|c fs] eqn:Ef; try discriminate.
  8: { (* VObj *)
    destruct (field_wf_atom m p _ H En) as [a [Ha Hw]]; [intros vs; discriminate|].
    rewrite Ha. destruct (is_cls_atom a) eqn:Ea; [reflexivity|].
    apply (wf_atom_nonobj m a _ Ea) in Hw. discriminate. }
  7: { (* VList *)
    cbn in H. destruct (p_ty p) as [a|a]; [discriminate|].
    destruct (is_cls_atom a) eqn:Ea; cbn.
    - symmetry. apply filter_all. eapply forallb_impl; [|exact H]. intros x. apply wf_atom_isobj; assumption.
    - symmetry. apply filter_none. eapply forallb_impl; [|exact H].
      intros x Hx. apply (wf_atom_nonobj m a _ Ea) in Hx. now rewrite Hx. }
  all: destruct (field_wf_atom m p _ H En) as [a [Ha Hw]]; [intros vs; discriminate|];
    rewrite Ha; destruct (is_cls_atom a) eqn:Ea; [|reflexivity];
    apply (wf_atom_isobj m a _ Ea) in Hw; discriminate.
Qed.

Lemma once_fields_spec : forall m ps fs,
  wf_fields m ps fs = true -> once_fields ps fs = flat_map nested_of_field fs.
Proof.
  intros m ps fs. revert ps. induction fs as [|f fs IH]; intros [|p ps] H; try discriminate; try reflexivity.
  rewrite wf_fields_cons in H. apply andb_true_iff in H as [Hf Hr].
  cbn [once_fields flat_map]. rewrite (IH _ Hr). f_equal. eapply field_once; eassumption.
Qed.

Lemma wf_instance_inv : forall m c fs,
  wf_instance m (VObj c fs) = true ->
  exists k, find_cls m c = Some k /\ c_abstract k = false /\ wf_fields m (c_props k) fs = true.
Proof.
  intros m c fs H. unfold wf_instance in H. rewrite wf_atom_obj in H.
  apply andb_true_iff in H as [_ H]. destruct (find_cls m c) as [k|]; [|discriminate].
  apply andb_true_iff in H as [H1 H2]. exists k. repeat split; auto. now apply negb_true_iff in H1.
Qed.

(** Descending once yields exactly the directly nested class instances, in property and
    list order. *)
Theorem descend_once_spec : forall m i,
  wf_instance m i = true -> descend_once m i = nested_once i.
Proof.
  intros m i H. destruct i; try discriminate.
  destruct (wf_instance_inv _ _ _ H) as [k [Hk [_ Hf]]].
  unfold descend_once, nested_once. rewrite Hk. now apply once_fields_spec with (m := m).
Qed.

(** ** Completeness of [descend] *)

Inductive child : value -> value -> Prop :=
| child_intro : forall v x, In x (nested_once v) -> child x v.

(** [x] is strictly nested in [i]: there is a non-empty chain of direct nestings. *)
Definition strictly_nested (x i : value) : Prop := clos_trans value child x i.

Lemma mem_text_in : forall x l, mem_text x l = true <-> In x l.
Proof.
  intros x l. induction l as [|y l IH]; cbn; [split; [discriminate|contradiction]|].
  rewrite orb_true_iff, IH, text_eqb_eq. split; intros [H|H]; auto.
Qed.

Lemma find_cls_in_name : forall cs n k, find_cls_in cs n = Some k -> c_name k = n.
Proof.
  induction cs as [|c cs IH]; cbn; intros n k H; [discriminate|].
  destruct (text_eqb (c_name c) n) eqn:E; [inversion H; subst; now apply text_eqb_eq|auto].
Qed.

Lemma wf_atom_cls_self : forall m c d fs,
  wf_atom m (ACls c) (VObj d fs) = true -> wf_instance m (VObj d fs) = true.
Proof.
  intros m c d fs H. unfold wf_instance. rewrite wf_atom_obj in *.
  apply andb_true_iff in H as [_ H]. rewrite H. rewrite andb_true_r.
  destruct (find_cls m d) as [k|] eqn:Ek; [|discriminate].
  apply andb_true_iff in H as [Ha _]. apply negb_true_iff in Ha.
  unfold options. rewrite Ek, Ha. cbn. now rewrite text_eqb_refl.
Qed.

Lemma wf_fields_nested : forall m ps fs x,
  wf_fields m ps fs = true -> In x (flat_map nested_of_field fs) -> wf_instance m x = true.
Proof.
  intros m ps fs x. revert ps. induction fs as [|f fs IH]; intros [|p ps] H Hx; try discriminate; try contradiction.
  rewrite wf_fields_cons in H. apply andb_true_iff in H as [Hf Hr].
  cbn [flat_map] in Hx. apply in_app_or in Hx as [Hx|Hx]; [|eauto].
  destruct f as [| | | | | | |vs|c fs0] eqn:Ef; cbn [nested_of_field] in Hx; try contradiction.
  - (* list *) apply filter_In in Hx as [Hx Ho].
    cbn in Hf. destruct (p_ty p) as [a|a]; [discriminate|].
    rewrite forallb_forall in Hf. specialize (Hf x Hx).
    destruct x; try discriminate. destruct a as [q|e|c0]; try (destruct q; discriminate); try discriminate.
    eapply wf_atom_cls_self; eassumption.
  - destruct Hx as [<-|[]].
    destruct (field_wf_atom m p _ Hf eq_refl) as [a [Ha Hw]]; [intros vs; discriminate|].
    destruct a as [q|e|c0]; try (destruct q; discriminate); try discriminate.
    eapply wf_atom_cls_self; eassumption.
Qed.

Lemma wf_child : forall m i x, wf_instance m i = true -> child x i -> wf_instance m x = true.
Proof.
  intros m i x H Hc. inversion Hc as [v x' Hin]; subst.
  destruct i; cbn in Hin; try contradiction.
  destruct (wf_instance_inv _ _ _ H) as [k [_ [_ Hf]]].
  eapply wf_fields_nested; eassumption.
Qed.

Theorem descend_complete : forall m i x,
  wf_instance m i = true -> (In x (descend m i) <-> strictly_nested x i).
Proof.
  intros m i x Hwf. split.
  - (* every yielded value is strictly nested: induction on the size of i *)
    revert x Hwf.
    assert (H : forall n i, (forall x, wf_instance m i = true -> length (descend m i) <= n ->
                In x (descend m i) -> strictly_nested x i)).
    { induction n as [|n IH]; intros i0 x Hwf Hlen Hin.
      - destruct (descend m i0); [contradiction|cbn in Hlen; lia].
      - rewrite descend_preorder in Hin, Hlen.
        rewrite (descend_once_spec _ _ Hwf) in Hin, Hlen.
        apply in_flat_map in Hin as [c [Hc Hx]].
        assert (Hch : child c i0) by (constructor; exact Hc).
        destruct Hx as [<-|Hx]; [now apply t_step|].
        apply t_trans with c; [|now apply t_step].
        apply IH; [eapply wf_child; eassumption| |assumption].
        (* descend c is a strict part of descend i0 *)
        clear -Hc Hlen. induction (nested_once i0) as [|y l IHl]; [contradiction|].
        cbn in Hlen. rewrite app_length in Hlen. cbn in Hlen.
        destruct Hc as [->|Hc]; [lia|]. apply IHl; [lia|assumption]. }
    intros x Hwf Hin. eapply H; [exact Hwf|apply le_n|exact Hin].
  - intros Hn. apply clos_trans_tn1 in Hn. revert Hwf.
    induction Hn as [i Hc|y i Hc Hn IH]; intros Hwf.
    + rewrite descend_preorder, (descend_once_spec _ _ Hwf).
      inversion Hc; subst. apply in_flat_map. exists x. split; [assumption|now left].
    + rewrite descend_preorder, (descend_once_spec _ _ Hwf).
      inversion Hc; subst. apply in_flat_map. exists y. split; [assumption|].
      right. apply IH. eapply wf_child; eassumption.
Qed.

(** Visitors and transformers dispatch to the method of the instance's concrete class. *)
Theorem dispatch_concrete : forall m i,
  wf_instance m i = true ->
  exists k, dispatch_target i = Some (c_name k) /\ find_cls m (cls_of i) = Some k /\ c_abstract k = false.
Proof.
  intros m i H. destruct i; try discriminate.
  destruct (wf_instance_inv _ _ _ H) as [k [Hk [Ha _]]].
  exists k. cbn. rewrite (find_cls_in_name _ _ _ Hk). auto.
Qed.

Theorem over_or_empty_spec : forall vs, over_or_empty VNone = [] /\ over_or_empty (VList vs) = vs.
Proof. intros; split; reflexivity. Qed.

Theorem or_default_spec : forall d f, or_default d VNone = d /\ (is_none f = false -> or_default d f = f).
Proof. intros d f; split; [reflexivity|]. destruct f; cbn; intros H; try reflexivity; discriminate. Qed.
