"""Adapter (C15): run the real front end and infer_for_schema on meta-model texts.

JSON stdin: list of meta-model source texts.  JSON stdout, per text one of
  {"rejected": stage}                      the front end did not accept the text
  {"exc": ExceptionClassName, "at": fn}    infer_constraints_by_class raised (in fn)
  {"err": n}                               it reported n errors
  {"ok": {cls: {prop: [level0, level1, ...]}}}
where level k is None or {"len": [min, max] | None, "pats": [...] | None,
"setp": [a_type, [values]] | None, "sete": [enum, [literal names]] | None} for the k-th
non-optional type annotation of the property (outermost first).
"""
import json
import sys

from aas_core_codegen import infer_for_schema, intermediate, parse


def over_levels(type_annotation):
    anno = type_annotation
    while True:
        if isinstance(anno, intermediate.OptionalTypeAnnotation):
            anno = anno.value
        elif isinstance(anno, intermediate.ListTypeAnnotation):
            yield anno
            anno = anno.items
        else:
            yield anno
            return


def export(constraints):
    if constraints is None:
        return None
    out = {"len": None, "pats": None, "setp": None, "sete": None}
    if constraints.len_constraint is not None:
        out["len"] = [constraints.len_constraint.min_value, constraints.len_constraint.max_value]
    if constraints.patterns is not None:
        out["pats"] = [p.pattern for p in constraints.patterns]
    if constraints.set_of_primitives is not None:
        out["setp"] = [constraints.set_of_primitives.a_type.value,
                       [lit.value for lit in constraints.set_of_primitives.literals]]
    if constraints.set_of_enumeration_literals is not None:
        out["sete"] = [str(constraints.set_of_enumeration_literals.enumeration.name),
                       [str(lit.name) for lit in
                        constraints.set_of_enumeration_literals.literals]]
    return out


def raised_in(exc) -> str:
    """Innermost function of infer_for_schema (constructors aside) on the traceback."""
    import traceback
    name = "?"
    for frame in traceback.extract_tb(exc.__traceback__):
        if "infer_for_schema" in frame.filename and frame.name not in ("__init__", "<lambda>"):
            name = frame.name
    return name


def run(text):
    atok, exc = parse.source_to_atok(source=text)
    if exc is not None:
        return {"rejected": "syntax"}
    if parse.check_expected_imports(atok=atok):
        return {"rejected": "imports"}
    try:
        parsed, error = parse.atok_to_symbol_table(atok=atok)
        if error is not None:
            return {"rejected": "parse", "why": str(error)[:300]}
        symbol_table, error = intermediate.translate(parsed_symbol_table=parsed, atok=atok)
        if error is not None:
            return {"rejected": "intermediate", "why": str(error)[:300]}
    except BaseException as e:  # the front end is not this property's subject (C01)
        return {"rejected": "frontend-exception", "why": type(e).__name__}
    try:
        mapping, errors = infer_for_schema.infer_constraints_by_class(symbol_table=symbol_table)
    except BaseException as e:  # noqa
        return {"exc": type(e).__name__, "at": raised_in(e)}
    if errors is not None:
        return {"err": len(errors)}
    out = {}
    for cls in symbol_table.classes:
        by_value = mapping.get(cls, {})
        props = {}
        for prop in cls.properties:
            props[str(prop.name)] = [export(by_value.get(anno, None))
                                     for anno in over_levels(prop.type_annotation)]
        out[str(cls.name)] = props
    return {"ok": out}


def main():
    texts = json.load(sys.stdin)
    json.dump([run(t) for t in texts], sys.stdout)


if __name__ == "__main__":
    main()
