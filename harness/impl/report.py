"""Adapter for C03. JSON stdin -> stdout.
payload = {"reports": [[message, [errors]]], "errors": [nested error], "cli": [argv lists]}
nested error = [message, [underlying nested errors]] (node = None)."""
import io
import json
import subprocess
import sys

from aas_core_codegen import run
from aas_core_codegen.common import Error, LinenoColumner

payload = json.load(sys.stdin)
out = {"reports": [], "errors": [], "cli": []}
for message, errors in payload.get("reports", []):
    w = io.StringIO()
    try:
        run.write_error_report(message=message, errors=errors, stderr=w)
        out["reports"].append({"ok": w.getvalue()})
    except BaseException as e:  # noqa
        out["reports"].append({"exc": type(e).__name__})


def build(e):
    return Error(None, e[0], [build(u) for u in e[1]] if e[1] is not None else None)


lc = LinenoColumner.__new__(LinenoColumner)   # error_message without nodes needs no table
for e in payload.get("errors", []):
    try:
        out["errors"].append({"ok": lc.error_message(build(e))})
    except BaseException as ex:  # noqa
        out["errors"].append({"exc": type(ex).__name__})
for argv in payload.get("cli", []):
    p = subprocess.run([sys.executable, *argv], stdout=subprocess.PIPE, stderr=subprocess.PIPE,
                       text=True, timeout=900)
    out["cli"].append({"rc": p.returncode, "stdout": p.stdout, "stderr": p.stderr})
json.dump(out, sys.stdout)
