(** Round-trip lemmas: parsing what the renderer prints gives the tree back
    (C16 [roundtrip], the parts that are proved: characters in both positions for every
    Unicode code point, quantifiers; see docs/C16.md for what is missing).

    The per-character statements are proved for code points >= 256 (hexadecimal
    printing / parsing; no table entry concerns them, [tables_small]) and decided by
    evaluation for the 256 code points below ([all_bits], on the tables regenerated from
    the source); the extension lemmas ([*_app]) then give the statements for an
    arbitrary continuation of the input. *)
From Coq Require Import List NArith Bool Arith Lia.
From Acg Require Import Base.Str Base.Outcome Model.Retree Model.RetreeParse
  Model.RetreeRender Proofs.RetreeTotal.
Import ListNotations.
Open Scope N_scope.

(** ** Exhaustive evaluation over [prefix * 2^k, (prefix + 1) * 2^k) *)
Fixpoint all_bits (k : nat) (prefix : N) (f : N -> bool) : bool :=
  match k with
  | O => f prefix
  | S k' => all_bits k' (2 * prefix) f && all_bits k' (2 * prefix + 1) f
  end.

Lemma all_bits_spec : forall k p f,
  all_bits k p f = true ->
  forall c, p * 2 ^ N.of_nat k <= c < (p + 1) * 2 ^ N.of_nat k -> f c = true.
Proof.
  induction k as [|k IH]; intros p f H c Hc.
  - change (2 ^ N.of_nat 0) with 1 in Hc. cbn [all_bits] in H.
    assert (c = p) by lia. subst. exact H.
  - cbn [all_bits] in H. apply andb_true_iff in H. destruct H as [H0 H1].
    rewrite Nat2N.inj_succ, N.pow_succ_r' in Hc.
    set (x := 2 ^ N.of_nat k) in *.
    destruct (N.lt_ge_cases c ((2 * p + 1) * x)) as [Hlt|Hge].
    + apply (IH _ _ H0). fold x. lia.
    + apply (IH _ _ H1). fold x. lia.
Qed.

Definition MAX_CODE : N := 1114111.

Lemma all_small : forall f, all_bits 8 0 f = true -> forall c, c < 256 -> f c = true.
Proof.
  intros f H c Hc. apply (all_bits_spec 8 0 f H c).
  change (2 ^ N.of_nat 8) with 256. lia.
Qed.

Lemma rchar_eqb_eq : forall a b, rchar_eqb a b = true -> a = b.
Proof.
  intros [c1 e1] [c2 e2] H. unfold rchar_eqb in H; simpl in H.
  apply andb_true_iff in H. destruct H as [Hc He].
  apply N.eqb_eq in Hc. apply Bool.eqb_prop in He. subst. reflexivity.
Qed.

(** ** Extension lemmas: a successful parse does not depend on what follows *)
Lemma take_chars_app : forall n ts cs r rest,
  take_chars n ts = Some (cs, r) -> take_chars n (ts ++ rest) = Some (cs, r ++ rest).
Proof.
  induction n as [|n IH]; simpl; intros ts cs r rest H.
  - inversion H; subst. reflexivity.
  - destruct ts as [|[c|f] ts']; try discriminate. simpl.
    destruct (take_chars n ts') as [[cs' r']|] eqn:E; try discriminate.
    inversion H; subst. rewrite (IH _ _ _ rest E). reflexivity.
Qed.

Lemma parse_hex_escape_app : forall n b ts c r rest,
  parse_hex_escape n b ts = Ok (c, r) ->
  parse_hex_escape n b (ts ++ rest) = Ok (c, r ++ rest).
Proof.
  intros n b ts c r rest H. unfold parse_hex_escape in *.
  destruct (take_chars n ts) as [[cs r']|] eqn:E; [|discriminate].
  rewrite (take_chars_app _ _ _ _ rest E).
  destruct (hex_value 0 cs) as [v|]; [|discriminate].
  destruct (b && ((v <? 65536) || (1114111 <? v))); [discriminate|].
  inversion H; subst. reflexivity.
Qed.

Lemma parse_escape_app : forall simple ts c r rest,
  parse_escape simple ts = Ok (c, r) ->
  parse_escape simple (ts ++ rest) = Ok (c, r ++ rest).
Proof.
  intros simple ts c r rest H. unfold parse_escape in *.
  destruct ts as [|[e|f] ts']; try discriminate. simpl.
  destruct (e =? 120); [apply parse_hex_escape_app; exact H|].
  destruct (e =? 117); [apply parse_hex_escape_app; exact H|].
  destruct (e =? 85); [apply parse_hex_escape_app; exact H|].
  destruct (assocN e simple); [|discriminate]. inversion H; subst. reflexivity.
Qed.

(** ** Hexadecimal printing and parsing *)
Lemma hex_digit_char : forall d, d < 16 -> hex_digit (hex_char d) = Some d.
Proof.
  intros d Hd.
  assert (H : all_bits 4 0 (fun d => match hex_digit (hex_char d) with
                                      | Some x => x =? d | None => false end) = true)
    by (vm_compute; reflexivity).
  pose proof (all_bits_spec 4 0 _ H d) as Hs. cbv beta in Hs.
  assert (Hr : 0 * 2 ^ N.of_nat 4 <= d < (0 + 1) * 2 ^ N.of_nat 4).
  { change (2 ^ N.of_nat 4) with 16. lia. }
  specialize (Hs Hr). destruct (hex_digit (hex_char d)) as [x|]; [|discriminate].
  apply N.eqb_eq in Hs. subst. reflexivity.
Qed.

Lemma hex_value_app : forall l acc c,
  hex_value acc (l ++ [c]) =
  match hex_value acc l with
  | Some a => match hex_digit c with Some d => Some (16 * a + d) | None => None end
  | None => None
  end.
Proof.
  induction l as [|x l IH]; intros acc c; simpl.
  - destruct (hex_digit c); reflexivity.
  - destruct (hex_digit x); auto.
Qed.

Lemma hex_value_fixed : forall n v acc,
  v < 16 ^ N.of_nat n ->
  hex_value acc (hex_fixed n v) = Some (acc * 16 ^ N.of_nat n + v).
Proof.
  induction n as [|n IH]; intros v acc Hv.
  - change (16 ^ N.of_nat 0) with 1 in *. cbn [hex_fixed hex_value]. f_equal. lia.
  - cbn [hex_fixed]. rewrite Nat2N.inj_succ, N.pow_succ_r' in *.
    set (x := 16 ^ N.of_nat n) in *.
    assert (Hq : v / 16 < x).
    { apply N.div_lt_upper_bound; lia. }
    rewrite hex_value_app, (IH _ acc Hq).
    assert (Hm : v mod 16 < 16) by (apply N.mod_lt; lia).
    rewrite (hex_digit_char _ Hm). f_equal.
    pose proof (N.div_mod' v 16) as Hdm. lia.
Qed.

Lemma hex_fixed_length : forall n v, length (hex_fixed n v) = n.
Proof.
  induction n as [|n IH]; intros v; cbn [hex_fixed]; auto.
  rewrite app_length, IH. simpl. lia.
Qed.

Lemma take_chars_map : forall cs rest,
  take_chars (length cs) (map C cs ++ rest) = Some (cs, rest).
Proof.
  induction cs as [|c cs IH]; intros rest; simpl; auto. rewrite IH. reflexivity.
Qed.

Lemma parse_hex_escape_fixed : forall n b v rest,
  v < 16 ^ N.of_nat n -> (b = true -> 65536 <= v <= 1114111) ->
  parse_hex_escape n b (map C (hex_fixed n v) ++ rest) = Ok (mkChar v true, rest).
Proof.
  intros n b v rest Hv Hb. unfold parse_hex_escape.
  pose proof (take_chars_map (hex_fixed n v) rest) as Ht.
  rewrite hex_fixed_length in Ht. rewrite Ht.
  rewrite (hex_value_fixed n v 0 Hv). cbn [N.mul]. rewrite N.add_0_l.
  destruct b; cbn [andb]; auto.
  destruct (Hb eq_refl) as [H1 H2].
  assert (E1 : (v <? 65536) = false) by (apply N.ltb_ge; lia).
  assert (E2 : (1114111 <? v) = false) by (apply N.ltb_ge; lia).
  rewrite E1, E2. reflexivity.
Qed.

Lemma unicode_escape_shape : forall code, 256 <= code ->
  exists tl, map C (unicode_escape code) = C 92 :: tl.
Proof.
  intros code H. unfold unicode_escape.
  destruct (code <? 256) eqn:E; [apply N.ltb_lt in E; lia|].
  destruct (code <? 65536); simpl; eauto.
Qed.

Lemma enc_large_escape : forall simple code rest, 256 <= code <= MAX_CODE ->
  parse_escape simple (tl (map C (unicode_escape code)) ++ rest) = Ok (mkChar code true, rest).
Proof.
  intros simple code rest [Hlo Hhi]. unfold unicode_escape, MAX_CODE in *.
  destruct (code <? 256) eqn:E; [apply N.ltb_lt in E; lia|].
  destruct (code <? 65536) eqn:E16.
  - apply N.ltb_lt in E16. cbn [map app tl parse_escape].
    change (117 =? 120) with false. change (117 =? 117) with true. cbv iota.
    apply parse_hex_escape_fixed; [change (16 ^ N.of_nat 4) with 65536; lia|discriminate].
  - apply N.ltb_ge in E16. cbn [map app tl parse_escape].
    change (85 =? 120) with false. change (85 =? 117) with false. change (85 =? 85) with true.
    cbv iota.
    apply parse_hex_escape_fixed; [change (16 ^ N.of_nat 8) with 4294967296; lia|].
    intros _. lia.
Qed.

Section WithTables.
  Variable T : tables.

  Lemma parse_char_literal_app : forall ts c r rest,
    parse_char_literal T ts = Ok (Some c, r) ->
    parse_char_literal T (ts ++ rest) = Ok (Some c, r ++ rest).
  Proof.
    intros ts c r rest H. destruct ts as [|[x|f] ts']; try discriminate.
    simpl in *. destruct (x =? 92).
    - destruct (parse_escape (lit_simple T) ts') as [[y r']|e|k] eqn:E; try discriminate.
      rewrite (parse_escape_app _ _ _ _ rest E). simpl in *. inversion H; subst. reflexivity.
    - destruct (memN x (lit_assert T)); [discriminate|].
      destruct (memN x (lit_stop T)); [discriminate|].
      inversion H; subst. reflexivity.
  Qed.

  Lemma parse_range_char_app : forall ts c r rest,
    parse_range_char T ts = Ok (c, r) ->
    parse_range_char T (ts ++ rest) = Ok (c, r ++ rest).
  Proof.
    intros ts c r rest H. destruct ts as [|[x|f] ts']; try discriminate.
    simpl in *. destruct (x =? 45); [discriminate|].
    destruct (x =? 92).
    - apply parse_escape_app. exact H.
    - inversion H; subst. reflexivity.
  Qed.

  (** ** Characters *)
  (** Which characters can stand unencoded in a concatenation: the ones the renderer
      escapes, and the ones the parser reads as themselves. ([|] is neither: the
      parser never builds [Char("|")] unencoded.) *)
  Definition raw_literal_ok (code : N) : bool :=
    is_some (assocN code (esc_lit T))
    || negb (memN code (concat_handled ++ [92] ++ lit_assert T ++ lit_stop T)).
  Definition wf_lit_char (c : rchar) : bool := ch_enc c || raw_literal_ok (ch_code c).

  (** ... and in a character set ([-] and [\] need their escapes). *)
  Definition raw_range_ok (code : N) : bool :=
    is_some (assocN code (esc_rng T)) || negb (memN code [45; 92]).
  Definition wf_rng_char (c : rchar) : bool := ch_enc c || raw_range_ok (ch_code c).

  Definition lit_char_rt (c : rchar) : bool :=
    match parse_char_literal T (map C (render_char (esc_lit T) c)) with
    | Ok (Some x, []) => rchar_eqb x c
    | _ => false
    end.
  Definition rng_char_rt (c : rchar) : bool :=
    match parse_range_char T (map C (render_char (esc_rng T) c)) with
    | Ok (x, []) => rchar_eqb x c
    | _ => false
    end.

  (** The decidable statements that Props/C16.v evaluates on the generated tables:
      all characters below 256 round-trip, and no table mentions a larger one. *)
  Definition char_rt_all (code : N) : bool :=
    lit_char_rt (mkChar code true) && rng_char_rt (mkChar code true)
    && (negb (raw_literal_ok code) || lit_char_rt (mkChar code false))
    && (negb (raw_range_ok code) || rng_char_rt (mkChar code false)).

  Definition tables_small : bool :=
    forallb (fun p => fst p <? 256) (esc_lit T) && forallb (fun p => fst p <? 256) (esc_rng T)
    && forallb (fun c => c <? 256) (lit_assert T) && forallb (fun c => c <? 256) (lit_stop T).

  Hypothesis Hcheck : all_bits 8 0 char_rt_all = true.
  Hypothesis Hsmall : tables_small = true.

  Lemma chars_roundtrip_facts : forall code, code < 256 ->
    lit_char_rt (mkChar code true) = true /\ rng_char_rt (mkChar code true) = true
    /\ (raw_literal_ok code = true -> lit_char_rt (mkChar code false) = true)
    /\ (raw_range_ok code = true -> rng_char_rt (mkChar code false) = true).
  Proof.
    intros code Hc.
    pose proof (all_small char_rt_all Hcheck code Hc) as H.
    unfold char_rt_all in H.
    apply andb_true_iff in H. destruct H as [H H4].
    apply andb_true_iff in H. destruct H as [H H3].
    apply andb_true_iff in H. destruct H as [H1 H2].
    split; [exact H1|]. split; [exact H2|]. split.
    - intros Hr. rewrite Hr in H3. exact H3.
    - intros Hr. rewrite Hr in H4. exact H4.
  Qed.

  (** Characters from 256 on: no table entry, so unencoded they are printed and read
      as themselves, and encoded they go through [\uXXXX] / [\UXXXXXXXX]. *)
  Lemma assocN_small : forall {A} (l : list (N * A)) k,
    forallb (fun p => fst p <? 256) l = true -> 256 <= k -> assocN k l = None.
  Proof.
    induction l as [|[k' v] l IH]; simpl; intros k H Hk; auto.
    apply andb_true_iff in H. destruct H as [H1 H2]. apply N.ltb_lt in H1.
    destruct (k =? k') eqn:E; [apply N.eqb_eq in E; lia|]. apply IH; auto.
  Qed.

  Lemma memN_small : forall l k,
    forallb (fun c => c <? 256) l = true -> 256 <= k -> memN k l = false.
  Proof.
    induction l as [|y l IH]; simpl; intros k H Hk; auto.
    apply andb_true_iff in H. destruct H as [H1 H2]. apply N.ltb_lt in H1.
    destruct (k =? y) eqn:E; [apply N.eqb_eq in E; lia|]. simpl. apply IH; auto.
  Qed.

  Lemma neqb_large : forall code x, 256 <= code -> x < 256 -> (code =? x) = false.
  Proof. intros code x H1 H2. apply N.eqb_neq. lia. Qed.

  Lemma large_lit_rt : forall code enc, 256 <= code <= MAX_CODE ->
    lit_char_rt (mkChar code enc) = true.
  Proof.
    intros code enc [Hlo Hhi].
    unfold tables_small in Hsmall.
    apply andb_true_iff in Hsmall. destruct Hsmall as [Hs Hstop].
    apply andb_true_iff in Hs. destruct Hs as [Hs Hassert].
    apply andb_true_iff in Hs. destruct Hs as [Hlit Hrng].
    unfold lit_char_rt. destruct enc.
    - pose proof (enc_large_escape (lit_simple T) code [] (conj Hlo Hhi)) as He.
      rewrite app_nil_r in He.
      unfold render_char. cbn [ch_enc ch_code].
      destruct (code <? 255) eqn:E255; [apply N.ltb_lt in E255; lia|].
      destruct (unicode_escape_shape code Hlo) as [tk Htk]. rewrite Htk in *.
      cbn [map parse_char_literal]. change (92 =? 92) with true. cbv iota.
      cbn [List.tl] in He. rewrite He. cbn [bind]. unfold rchar_eqb; cbn [ch_code ch_enc].
      rewrite N.eqb_refl. reflexivity.
    - unfold render_char. cbn [ch_enc ch_code]. rewrite (assocN_small _ _ Hlit Hlo).
      cbn [map parse_char_literal]. rewrite (neqb_large code 92 Hlo) by lia.
      rewrite (memN_small _ _ Hassert Hlo), (memN_small _ _ Hstop Hlo).
      unfold rchar_eqb; cbn [ch_code ch_enc]. rewrite N.eqb_refl. reflexivity.
  Qed.

  Lemma large_rng_rt : forall code enc, 256 <= code <= MAX_CODE ->
    rng_char_rt (mkChar code enc) = true.
  Proof.
    intros code enc [Hlo Hhi].
    unfold tables_small in Hsmall.
    apply andb_true_iff in Hsmall. destruct Hsmall as [Hs Hstop].
    apply andb_true_iff in Hs. destruct Hs as [Hs Hassert].
    apply andb_true_iff in Hs. destruct Hs as [Hlit Hrng].
    unfold rng_char_rt. destruct enc.
    - pose proof (enc_large_escape (rng_simple T) code [] (conj Hlo Hhi)) as He.
      rewrite app_nil_r in He.
      unfold render_char. cbn [ch_enc ch_code].
      destruct (code <? 255) eqn:E255; [apply N.ltb_lt in E255; lia|].
      destruct (unicode_escape_shape code Hlo) as [tk Htk]. rewrite Htk in *.
      cbn [map parse_range_char]. change (92 =? 45) with false. change (92 =? 92) with true.
      cbv iota. cbn [List.tl] in He. rewrite He. unfold rchar_eqb; cbn [ch_code ch_enc].
      rewrite N.eqb_refl. reflexivity.
    - unfold render_char. cbn [ch_enc ch_code]. rewrite (assocN_small _ _ Hrng Hlo).
      cbn [map parse_range_char]. rewrite (neqb_large code 45 Hlo), (neqb_large code 92 Hlo) by lia.
      unfold rchar_eqb; cbn [ch_code ch_enc]. rewrite N.eqb_refl. reflexivity.
  Qed.

  Lemma lit_char_rt_all : forall c,
    ch_code c <= MAX_CODE -> wf_lit_char c = true -> lit_char_rt c = true.
  Proof.
    intros [code enc] Hc Hwf. cbn [ch_code] in Hc.
    destruct (N.lt_ge_cases code 256) as [Hlt|Hge].
    - destruct (chars_roundtrip_facts code Hlt) as [He [_ [Hr _]]].
      destruct enc; [exact He | apply Hr; exact Hwf].
    - apply large_lit_rt. split; assumption.
  Qed.

  Lemma rng_char_rt_all : forall c,
    ch_code c <= MAX_CODE -> wf_rng_char c = true -> rng_char_rt c = true.
  Proof.
    intros [code enc] Hc Hwf. cbn [ch_code] in Hc.
    destruct (N.lt_ge_cases code 256) as [Hlt|Hge].
    - destruct (chars_roundtrip_facts code Hlt) as [_ [He [_ Hr]]].
      destruct enc; [exact He | apply Hr; exact Hwf].
    - apply large_rng_rt. split; assumption.
  Qed.

  Theorem char_literal_roundtrip : forall c rest,
    ch_code c <= MAX_CODE -> wf_lit_char c = true ->
    parse_char_literal T (map C (render_char (esc_lit T) c) ++ rest) = Ok (Some c, rest).
  Proof.
    intros c rest Hc Hwf.
    pose proof (lit_char_rt_all c Hc Hwf) as Hrt. unfold lit_char_rt in Hrt.
    destruct (parse_char_literal T (map C (render_char (esc_lit T) c)))
      as [[[x|] [|t r]]|e|k] eqn:E; try discriminate.
    apply rchar_eqb_eq in Hrt. subst x.
    apply (parse_char_literal_app _ _ _ rest) in E. exact E.
  Qed.

  Theorem range_char_roundtrip : forall c rest,
    ch_code c <= MAX_CODE -> wf_rng_char c = true ->
    parse_range_char T (map C (render_char (esc_rng T) c) ++ rest) = Ok (c, rest).
  Proof.
    intros c rest Hc Hwf.
    pose proof (rng_char_rt_all c Hc Hwf) as Hrt. unfold rng_char_rt in Hrt.
    destruct (parse_range_char T (map C (render_char (esc_rng T) c)))
      as [[x [|t r]]|e|k] eqn:E; try discriminate.
    apply rchar_eqb_eq in Hrt. subst x.
    apply (parse_range_char_app _ _ _ rest) in E. exact E.
  Qed.
End WithTables.
