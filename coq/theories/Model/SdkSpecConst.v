(** C30 — constants, constant sets and enumerations: executable models.

    (1) The second pass of [intermediate/_translate.py] that resolves the [superset_of]
        declarations of constant sets ([_resolve_subsets_in_constant_set_of_primitives],
        [..._of_enumeration_literals], [_second_pass_to_resolve_constant_subsets_in_place]),
        including the icontract post-conditions of the two functions ([Crash Violation]
        when violated).
    (2) The specification of what the generated SDK exposes for a constant set (the listed
        literals; [closure_lits] = listed literals plus those of all transitively declared
        subsets) and for an enumeration (the [_X_FROM_STR] dictionary of
        [python/lib/_generate_stringification.py] and [literal.value]).

    No proofs here (Proofs/SdkSpecConstFacts.v). *)
From Coq Require Import List NArith ZArith Bool.
From Acg Require Import Base.Str Base.Outcome.
Import ListNotations.

(** Literals of constant sets. The front end accepts [bool] literals in an [int] set
    ([isinstance(True, int)]), and membership in [literal_value_set] is Python equality:
    [True == 1], [False == 0]. Enumeration literals are compared by identity, i.e. by
    name inside one enumeration. *)
Inductive lit : Type :=
| LStr (t : text)
| LInt (z : Z)
| LBool (b : bool)
| LEnum (name : text).

Definition z_of_bool (b : bool) : Z := if b then 1%Z else 0%Z.

Definition lit_eqb (a b : lit) : bool :=
  match a, b with
  | LStr x, LStr y => text_eqb x y
  | LInt x, LInt y => Z.eqb x y
  | LBool x, LBool y => Bool.eqb x y
  | LInt x, LBool y => Z.eqb x (z_of_bool y)
  | LBool x, LInt y => Z.eqb (z_of_bool x) y
  | LEnum x, LEnum y => text_eqb x y
  | _, _ => false
  end.

Fixpoint mem_lit (l : lit) (s : list lit) : bool :=
  match s with
  | [] => false
  | x :: r => lit_eqb l x || mem_lit l r
  end.

(** Kind of a constant as seen by the resolution: a primitive constant (not a set), a set
    of primitives of the named primitive type, a set of literals of the named enumeration. *)
Inductive ckind : Type :=
| KPrimitive
| KSetPrim (p : text)
| KSetEnum (e : text).

Definition ckind_eqb (a b : ckind) : bool :=
  match a, b with
  | KPrimitive, KPrimitive => true
  | KSetPrim x, KSetPrim y => text_eqb x y
  | KSetEnum x, KSetEnum y => text_eqb x y
  | _, _ => false
  end.

Record const : Type := mkConst {
  k_name : text;
  k_kind : ckind;
  k_lits : list lit;          (* listed literals, in order *)
  k_subsets : list text       (* names given in superset_of *)
}.

(** [symbol_table.constants_by_name.get(name)] *)
Fixpoint find_const (table : list const) (n : text) : option const :=
  match table with
  | [] => None
  | c :: r => if text_eqb (k_name c) n then Some c else find_const r n
  end.

Inductive resolve_error : Type :=
| ENotFound (n : text)
| ENotASet (n : text)
| EOtherType (n : text)
| EMissingLiteral (n : text) (l : lit).

Definition is_set (k : ckind) : bool :=
  match k with KPrimitive => false | _ => true end.
Definition same_family (a b : ckind) : bool :=
  match a, b with
  | KSetPrim _, KSetPrim _ => true
  | KSetEnum _, KSetEnum _ => true
  | _, _ => false
  end.

(** The loop over the placeholders: accumulates (subsets, errors). A subset whose literals
    are not all contained is still appended to [subsets] (the [continue] of the inner loop
    only skips to the next literal) — the result is discarded because errors exist. *)
Fixpoint resolve_loop (table : list const) (s : const) (names : list text)
  : list const * list resolve_error :=
  match names with
  | [] => ([], [])
  | n :: r =>
      let '(subs, errs) := resolve_loop table s r in
      match find_const table n with
      | None => (subs, ENotFound n :: errs)
      | Some t =>
          if negb (same_family (k_kind s) (k_kind t)) then (subs, ENotASet n :: errs)
          else if negb (ckind_eqb (k_kind s) (k_kind t)) then (subs, EOtherType n :: errs)
          else
            let missing := filter (fun l => negb (mem_lit l (k_lits s))) (k_lits t) in
            (t :: subs, map (EMissingLiteral n) missing ++ errs)
      end
  end.

(** The two [@ensure]s: every literal of every returned subset is in the set; the returned
    subsets are the placeholders, by name and in order. *)
Definition post_true_subsets (s : const) (subs : list const) : bool :=
  forallb (fun t => forallb (fun l => mem_lit l (k_lits s)) (k_lits t)) subs.
Definition post_all_resolved (s : const) (subs : list const) : bool :=
  list_eqb text_eqb (map k_name subs) (k_subsets s).

Definition resolve_one (table : list const) (s : const)
  : outcome (list const) (list resolve_error) :=
  let '(subs, errs) := resolve_loop table s (k_subsets s) in
  match errs with
  | _ :: _ => Err errs
  | [] =>
      if post_true_subsets s subs && post_all_resolved s subs then Ok subs
      else Crash Violation
  end.

(** [_second_pass_to_resolve_constant_subsets_in_place]: every constant set is resolved; the
    errors are collected; primitive constants are skipped. Result: the resolved subsets'
    names per constant, or the number of errors. *)
Fixpoint resolve_all_from (table rest : list const)
  : outcome (list (text * list text)) nat :=
  match rest with
  | [] => Ok []
  | s :: r =>
      match k_kind s with
      | KPrimitive => resolve_all_from table r
      | _ =>
          match resolve_one table s, resolve_all_from table r with
          | Crash k, _ => Crash k
          | _, Crash k => Crash k
          | Ok subs, Ok more => Ok ((k_name s, map k_name subs) :: more)
          | Err e, Ok _ => Err (length e)
          | Ok _, Err n => Err n
          | Err e, Err n => Err (length e + n)%nat
          end
      end
  end.
Definition resolve_all (table : list const) := resolve_all_from table table.

Definition accepted (table : list const) : bool := is_ok (resolve_all table).

(** ** What the SDK must expose *)

(** Listed literals plus those of the declared subsets, followed to depth [fuel]
    (declarations may be cyclic, hence the explicit depth; the theorems hold for every depth). *)
Fixpoint closure_lits (fuel : nat) (table : list const) (s : const) : list lit :=
  k_lits s ++
  match fuel with
  | O => []
  | S f =>
      flat_map (fun n => match find_const table n with
                         | Some t => closure_lits f table t
                         | None => []
                         end) (k_subsets s)
  end.

Definition subset_lits (a b : list lit) : bool := forallb (fun l => mem_lit l b) a.
Definition set_eq_lits (a b : list lit) : bool := subset_lits a b && subset_lits b a.

(** ** Enumerations: [(literal name, value)] in declaration order *)
Definition eliteral : Type := (text * text)%type.
Definition to_str (l : eliteral) : text := snd l.

(** The generated dictionary [{value: literal, ...}] written in declaration order: a later
    entry with the same key replaces an earlier one. *)
Fixpoint from_str_rev (rlits : list eliteral) (s : text) : option eliteral :=
  match rlits with
  | [] => None
  | l :: r => if text_eqb (snd l) s then Some l else from_str_rev r s
  end.
Definition from_str (lits : list eliteral) (s : text) : option eliteral :=
  from_str_rev (rev lits) s.

Definition eliteral_eqb (a b : eliteral) : bool :=
  text_eqb (fst a) (fst b) && text_eqb (snd a) (snd b).
