(** Concurrent / crashing view of the cache protocol of [run.load_model] — C24.

    Every process runs the program of [load_model] one atomic file-system step at a
    time; a schedule is an arbitrary list of [(pid, event)]. Events: [Step n] (perform
    the next step; [n] only matters for a write step: [S n] more bytes reach the
    file), [Fail] (the next step raises instead; inside the [try] this routes through
    the [finally: tmp_path.unlink(missing_ok=True)]), [Crash] (the process dies at its
    current pc and never moves again). The number of processes is unbounded: the
    process table is a total function and every pid starts at [PcStart].

    Executable definitions only; no proofs here. *)
From Coq Require Import List NArith Bool Arith.
From Acg Require Import Base.Str Model.Cache.
Import ListNotations.

Definition pid := nat.

Inductive event : Type :=
| Step (n : nat)
| Fail
| Crash.

Section Conc.
  Variables M E : Type.
  Variable parse : text -> result M E.
  Variable sha : text -> text.
  Variable pickle : M -> bytes.
  Variable unpickle : bytes -> option M.
  Variable uuid : nat -> text.
  (** text of the model file and the cache flag of each process *)
  Variable txt : pid -> text.
  Variable flg : pid -> bool.

  Inductive pc : Type :=
  | PcStart                                (* about to evaluate cache_path.exists() *)
  | PcOpenR                                (* exists() was True: about to open("rb") *)
  | PcLoad (c : bytes)                     (* holds the open file (inode content c): pickle.load *)
  | PcParse                                (* exists() was False: the front end *)
  | PcMkdir (m : M)                        (* cache_path.parent.mkdir(parents, exist_ok) *)
  | PcCreate (m : M)                       (* uuid4(); tmp_path.open("wb") *)
  | PcWrite (m : M) (u : text) (k : nat)   (* pickle.dump: k bytes are in the file *)
  | PcClose (m : M) (u : text)             (* leaving the with-block *)
  | PcRename (m : M) (u : text)            (* tmp_path.rename(cache_path) *)
  | PcUnlink (r : result M E) (u : text)   (* finally: tmp_path.unlink(missing_ok=True) *)
  | PcDone (r : result M E).               (* returned r / exception escaped *)

  Record pstate : Type := PState { ppc : pc; dead : bool }.

  Record state : Type := State { sw : world; procs : pid -> pstate }.

  Definition init_procs : pid -> pstate := fun _ => PState PcStart false.
  Definition init_state (w : world) : state := State w init_procs.

  Definition upd (f : pid -> pstate) (p : pid) (q : pstate) : pid -> pstate :=
    fun x => if Nat.eqb x p then q else f x.

  (** One normal step of a process with text [t] and flag [f]. *)
  Definition pstep (t : text) (f : bool) (n : nat) (w : world) (q : pc)
    : world * pc * list fsev :=
    let h := sha t in
    let cp := PCache h in
    match q with
    | PcStart =>
        if f then
          match lookup cp (files w) with
          | Some _ => (w, PcOpenR, [EvExists cp])
          | None => (w, PcParse, [EvExists cp])
          end
        else (w, PcDone (parse t), [])
    | PcOpenR =>
        match lookup cp (files w) with
        | Some c => (w, PcLoad c, [EvOpenR cp])
        | None => (w, PcDone (RCrash FileNotFound), [EvOpenR cp])
        end
    | PcLoad c => (w, PcDone (load_result M E unpickle c), [EvReadAll cp])
    | PcParse =>
        match parse t with
        | ROk m => (w, PcMkdir m, [])
        | r => (w, PcDone r, [])
        end
    | PcMkdir m => (World true (files w) (next w), PcCreate m, [EvMkdir])
    | PcCreate m =>
        let u := uuid (next w) in
        if cdir w then
          (World true (fset (PTmp h u) [] (files w)) (S (next w)), PcWrite m u 0,
           [EvOpenW (PTmp h u)])
        else
          (World false (files w) (S (next w)), PcUnlink (RCrash FileNotFound) u,
           [EvOpenW (PTmp h u)])
    | PcWrite m u k =>
        if Nat.ltb k (length (pickle m)) then
          let k' := Nat.min (k + S n) (length (pickle m)) in
          (World (cdir w) (fset (PTmp h u) (firstn k' (pickle m)) (files w)) (next w),
           PcWrite m u k', [EvWrite (PTmp h u)])
        else (w, PcClose m u, [])
    | PcClose m u => (w, PcRename m u, [EvClose (PTmp h u)])
    | PcRename m u =>
        match lookup (PTmp h u) (files w) with
        | Some c =>
            (World (cdir w) (fset cp c (fremove (PTmp h u) (files w))) (next w),
             PcUnlink (ROk m) u, [EvRename (PTmp h u) cp])
        | None => (w, PcUnlink (RCrash FileNotFound) u, [EvRename (PTmp h u) cp])
        end
    | PcUnlink r u =>
        (World (cdir w) (fremove (PTmp h u) (files w)) (next w), PcDone r,
         [EvUnlink (PTmp h u)])
    | PcDone r => (w, PcDone r, [])
    end.

  (** The next step raises instead of being performed. Before the [try] the exception
      escapes directly; inside it the [finally] runs first. A failing [unlink] inside
      the [finally] is not modelled separately: it leaves the same files as a crash at
      that pc. *)
  Definition pfail (w : world) (q : pc) : world * pc :=
    match q with
    | PcStart | PcOpenR | PcLoad _ | PcParse | PcMkdir _ => (w, PcDone (RCrash Injected))
    | PcCreate m =>
        (World (cdir w) (files w) (S (next w)), PcUnlink (RCrash Injected) (uuid (next w)))
    | PcWrite _ u _ | PcClose _ u | PcRename _ u => (w, PcUnlink (RCrash Injected) u)
    | PcUnlink r u => (w, PcUnlink r u)
    | PcDone r => (w, PcDone r)
    end.

  Definition step (s : state) (pe : pid * event) : state :=
    let '(p, e) := pe in
    let q := procs s p in
    if dead q then s
    else
      match e with
      | Step n =>
          let '(w', q', _) := pstep (txt p) (flg p) n (sw s) (ppc q) in
          State w' (upd (procs s) p (PState q' false))
      | Fail =>
          let '(w', q') := pfail (sw s) (ppc q) in
          State w' (upd (procs s) p (PState q' false))
      | Crash => State (sw s) (upd (procs s) p (PState (ppc q) true))
      end.

  Definition run (sched : list (pid * event)) (s : state) : state :=
    fold_left step sched s.

  (** The file-system events of a schedule, in order, tagged by pid (for the
      correspondence with recorded real step sequences). *)
  Fixpoint run_trace (sched : list (pid * event)) (s : state) : list (pid * fsev) :=
    match sched with
    | [] => []
    | (p, e) :: rest =>
        let q := procs s p in
        let evs :=
          if dead q then []
          else match e with
               | Step n => map (pair p) (snd (pstep (txt p) (flg p) n (sw s) (ppc q)))
               | _ => []
               end in
        evs ++ run_trace rest (step s (p, e))
    end.

  (** Which temporary file (by uuid) a process may still have lying around. *)
  Definition owns (q : pc) : option text :=
    match q with
    | PcWrite _ u _ | PcClose _ u | PcRename _ u | PcUnlink _ u => Some u
    | _ => None
    end.

  Definition finished (q : pstate) : bool :=
    match ppc q with PcDone _ => true | _ => false end.

  (** Run one process alone until it is done (fuel-bounded; each write step writes
      [S n] bytes). Used to relate the concurrent program to the sequential model and
      by the correspondence. *)
  Fixpoint solo (fuel : nat) (p : pid) (n : nat) (s : state) : state :=
    match fuel with
    | O => s
    | S fuel' =>
        if finished (procs s p) then s else solo fuel' p n (step s (p, Step n))
    end.

  (** Perform normal steps of [p] until [k] file-system events have been performed and
      the next step would perform another one; returns the state at that point
      (the crash / failure point "before the k-th file-system event"). *)
  Fixpoint advance (fuel : nat) (p : pid) (n : nat) (k : nat) (s : state) : state :=
    match fuel with
    | O => s
    | S fuel' =>
        let q := procs s p in
        if finished q then s
        else
          let evs := snd (pstep (txt p) (flg p) n (sw s) (ppc q)) in
          match evs, k with
          | _ :: _, O => s
          | _, _ => advance fuel' p n (k - length evs) (step s (p, Step n))
          end
    end.
End Conc.

Arguments PcStart {M E}.
Arguments PcOpenR {M E}.
Arguments PcLoad {M E} c.
Arguments PcParse {M E}.
Arguments PcMkdir {M E} m.
Arguments PcCreate {M E} m.
Arguments PcWrite {M E} m u k.
Arguments PcClose {M E} m u.
Arguments PcRename {M E} m u.
Arguments PcUnlink {M E} r u.
Arguments PcDone {M E} r.
Arguments PState {M E} ppc dead.
Arguments ppc {M E} p.
Arguments dead {M E} p.
Arguments State {M E} sw procs.
Arguments sw {M E} s.
Arguments procs {M E} s _.
Arguments owns {M E} q.
Arguments finished {M E} q.
Arguments init_procs {M E} _.
Arguments init_state {M E} w.
Arguments upd {M E} f p q _.
