(** C05: an accepted hierarchy is well-formed (the DFS reports every cycle), so the
    theorems about well-formed hierarchies hold for every accepted meta-model. *)
From Coq Require Import List NArith Bool Arith Lia Permutation Relations.
From Acg Require Import Base.Str Base.Outcome Model.Hierarchy Proofs.HierarchyFacts
  Proofs.HierarchyStack.
Import ListNotations.
Open Scope nat_scope.

Fixpoint pos (n : name) (l : list name) : nat :=
  match l with
  | [] => 0
  | x :: r => if text_eqb x n then 0 else S (pos n r)
  end.

Lemma pos_app_notin : forall n l1 l2, ~ In n l1 -> pos n (l1 ++ n :: l2) = length l1.
Proof.
  intros n l1 l2. induction l1 as [|x l1 IH]; intro H; cbn [app pos length].
  - rewrite text_eqb_refl. reflexivity.
  - destruct (text_eqb x n) eqn:E.
    + apply text_eqb_eq in E. exfalso. apply H. left. exact E.
    + rewrite IH; [reflexivity|]. intro Hx. apply H. right. exact Hx.
Qed.

Lemma pos_In_lt : forall b l1 l2, In b l1 -> pos b (l1 ++ l2) < length l1.
Proof.
  intros b l1 l2. induction l1 as [|x l1 IH]; intro H; [contradiction|].
  cbn [app pos length]. destruct (text_eqb x b) eqn:E; [lia|].
  destruct H as [H|H]; [apply text_eqb_neq in E; contradiction|].
  specialize (IH H). lia.
Qed.

Section Sound.
  Variable prims : list name.
  Variable m : mm.

  Notation topo := (topo prims m).
  Notation base := (base prims m).

  (** Partial correctness of the DFS without any assumption on the hierarchy. *)
  Lemma visit_sound : forall fuel path perm c perm',
    visit prims m fuel path perm c = Ok perm' ->
    topo perm -> NoDup perm ->
    topo perm' /\ NoDup perm' /\ incl perm perm' /\ In c perm'
    /\ (forall t, In t path -> In t perm' -> In t perm).
  Proof.
    induction fuel as [|f IH]; intros path perm c perm' H Ht Hnd; cbn [visit] in H; [discriminate|].
    destruct (mem_text c perm) eqn:Ecp.
    { injection H as <-. split; [exact Ht|]. split; [exact Hnd|]. split; [apply incl_refl|].
      split; [apply mem_text_In; exact Ecp | auto]. }
    destruct (mem_text c path) eqn:Ecpath; [discriminate|].
    apply mem_text_false in Ecp. apply mem_text_false in Ecpath.
    destruct (find_class m c) as [cl|] eqn:Hcl; [|discriminate].
    destruct (fold_o (visit prims m f (c :: path)) (class_bases prims cl) perm) as [p1| |] eqn:E1;
      try discriminate.
    injection H as <-.
    assert (Hfold : forall bs perm0 p,
               fold_o (visit prims m f (c :: path)) bs perm0 = Ok p ->
               topo perm0 -> NoDup perm0 ->
               topo p /\ NoDup p /\ incl perm0 p /\ (forall b, In b bs -> In b p)
               /\ (forall t, In t (c :: path) -> In t p -> In t perm0)).
    { induction bs as [|b bs IHbs]; intros perm0 p Hf Ht0 Hnd0; cbn [fold_o] in Hf.
      - injection Hf as <-. split; [exact Ht0|]. split; [exact Hnd0|]. split; [apply incl_refl|].
        split; [intros b [] | auto].
      - destruct (visit prims m f (c :: path) perm0 b) as [q| |] eqn:Eq; try discriminate.
        destruct (IH _ _ _ _ Eq Ht0 Hnd0) as [Htq [Hndq [Hiq [Hbq Hpq]]]].
        destruct (IHbs _ _ Hf Htq Hndq) as [Htp [Hndp [Hip [Hbp Hpp]]]].
        split; [exact Htp|]. split; [exact Hndp|]. split; [|split].
        + eapply incl_tran; eassumption.
        + intros b' [<-|Hb']; [apply Hip; exact Hbq | apply Hbp; exact Hb'].
        + intros t Htp' Hin. apply Hpq; [exact Htp'|]. apply Hpp; assumption. }
    destruct (Hfold _ _ _ E1 Ht Hnd) as [Ht1 [Hnd1 [Hi1 [Hb1 Hp1]]]].
    assert (Hc1 : ~ In c p1).
    { intro Hin. apply Ecp. apply Hp1; [left; reflexivity | exact Hin]. }
    split; [|split; [|split; [|split]]].
    - apply topo_snoc; [exact Ht1|]. intros b [cl' [Hcl' Hb]].
      rewrite Hcl in Hcl'. injection Hcl' as <-. apply Hb1. exact Hb.
    - apply NoDup_snoc; assumption.
    - intros t Hin. apply in_or_app. left. apply Hi1. exact Hin.
    - apply in_or_app. right. left. reflexivity.
    - intros t Htp Hin. apply in_app_or in Hin. destruct Hin as [Hin|[<-|[]]].
      + apply Hp1; [right; exact Htp | exact Hin].
      + contradiction.
  Qed.

  Lemma topo_sort_sound : forall order, topo_sort prims m = Ok order ->
    topo order /\ NoDup order /\ forall n, In n (names m) -> In n order.
  Proof.
    intros order H. unfold topo_sort in H.
    assert (Hfold : forall cs perm p,
               fold_o (visit prims m (S (length m)) []) cs perm = Ok p ->
               topo perm -> NoDup perm ->
               topo p /\ NoDup p /\ incl perm p /\ forall c, In c cs -> In c p).
    { induction cs as [|c cs IH]; intros perm p Hf Ht Hnd; cbn [fold_o] in Hf.
      - injection Hf as <-. split; [exact Ht|]. split; [exact Hnd|]. split; [apply incl_refl | intros c []].
      - destruct (visit prims m (S (length m)) [] perm c) as [q| |] eqn:Eq; try discriminate.
        destruct (visit_sound _ _ _ _ _ Eq Ht Hnd) as [Htq [Hndq [Hiq [Hcq _]]]].
        destruct (IH _ _ Hf Htq Hndq) as [Htp [Hndp [Hip Hcp]]].
        split; [exact Htp|]. split; [exact Hndp|]. split.
        + eapply incl_tran; eassumption.
        + intros c' [<-|Hc']; [apply Hip; exact Hcq | apply Hcp; exact Hc']. }
    destruct (Hfold _ _ _ H (topo_nil prims m) (NoDup_nil _)) as [Ht [Hnd [_ Hall]]].
    split; [exact Ht|]. split; [exact Hnd|]. intros n Hn. apply Hall. apply sort_names_In. exact Hn.
  Qed.

  (** A hierarchy that passes the parse-stage checks and the DFS is well-formed: in
      particular the DFS reports every cycle. *)
  Theorem sorted_wf : forall order, parse_ok prims m = true -> topo_sort prims m = Ok order ->
    wf prims m.
  Proof.
    intros order Hp Ht. unfold parse_ok in Hp. apply andb_true_iff in Hp. destruct Hp as [Hnd Hb].
    apply nodupb_NoDup in Hnd.
    assert (Hbases : forall cl b, In cl m -> In b (class_bases prims cl) -> In b (names m)).
    { intros cl b Hcl Hbb. rewrite forallb_forall in Hb. specialize (Hb cl Hcl).
      rewrite forallb_forall in Hb. apply mem_text_In. apply Hb. exact Hbb. }
    destruct (topo_sort_sound order Ht) as [Htopo [Hndo Hall]].
    split; [exact Hnd|]. split; [exact Hbases|].
    exists (fun n => pos n order). intros cl b Hcl Hbb.
    assert (Hin : In (c_name cl) order) by (apply Hall; unfold names; apply in_map; exact Hcl).
    destruct (order_split order (c_name cl) Hin Hndo) as [l1 [l2 [Eo [Hn1 _]]]].
    assert (Hb1 : In b l1).
    { eapply (topo_split prims m order Htopo l1 (c_name cl) l2 Eo).
      exists cl. split; [apply find_class_unique; assumption | exact Hbb]. }
    rewrite Eo. rewrite (pos_app_notin _ l1 l2 Hn1). apply pos_In_lt. exact Hb1.
  Qed.
End Sound.

(** Every accepted meta-model is well-formed. *)
Theorem accepted_wf : forall prims m r, translate prims m = Ok r -> wf prims m.
Proof.
  intros prims m r H.
  destruct (translate_inv prims m r H)
    as [order [anc [smap [mmap [kmap [ifm [Hp [Et _]]]]]]]].
  eapply sorted_wf; eassumption.
Qed.

Lemma onto_fold_prims_alone : forall prims m order l acc anc,
  fold_o (onto_step prims m order) l acc = Ok anc ->
  forall n cl, In n l -> find_class m n = Some cl -> has_prim_base prims cl = true ->
    length (c_bases cl) = 1.
Proof.
  intros prims m order. induction l as [|x l IH]; intros acc anc H n cl Hn Hcl Hp; [destruct Hn|].
  cbn [fold_o] in H.
  destruct (onto_step prims m order acc x) as [acc'| |] eqn:E; try discriminate.
  destruct Hn as [->|Hn]; [|eapply IH; eassumption].
  unfold onto_step in E. rewrite Hcl, Hp in E.
  destruct (Nat.eqb (length (c_bases cl)) 1) eqn:El; [|discriminate].
  apply Nat.eqb_eq. exact El.
Qed.

Section Accepted.
  Variable prims : list name.

  Theorem accepted_prims_alone : forall m r, translate prims m = Ok r -> prims_alone prims m.
  Proof.
    intros m r H cl Hcl Hp.
    pose proof (accepted_wf prims m r H) as Hwf. pose proof Hwf as [Hnd _].
    destruct (translate_inv prims m r H)
      as [order [anc [smap [mmap [kmap [ifm [Hpo [Et [Ea _]]]]]]]]].
    destruct (topo_sort_sound prims m order Et) as [_ [_ Hall]].
    unfold onto_ancestors in Ea.
    eapply (onto_fold_prims_alone prims m order order [] anc Ea (c_name cl) cl).
    - apply Hall. unfold names. apply in_map. exact Hcl.
    - apply find_class_unique; assumption.
    - exact Hp.
  Qed.

  (** Ancestors = transitive closure of the declared bases, descendants = inverse relation,
      both without duplicates — for every accepted meta-model. *)
  Theorem ancestors_closure_e2e : forall m r, translate prims m = Ok r ->
    forall c, In c m ->
      exists ci, class_ir r (c_name c) = Some ci
        /\ (forall a, In a (i_ancestors ci) <-> clos_trans name (base prims m) (c_name c) a)
        /\ (forall d, In d (names m) ->
              (In d (i_descendants ci) <-> clos_trans name (base prims m) d (c_name c)))
        /\ NoDup (i_ancestors ci) /\ NoDup (i_descendants ci)
        /\ (i_is_cp ci = false ->
              forall d, In d (i_concrete_descendants ci)
                        <-> In d (i_descendants ci) /\ is_abstract m d = false).
  Proof.
    intros m r H c Hc.
    pose proof (accepted_wf prims m r H) as Hwf. pose proof Hwf as [Hnd _].
    pose proof (accepted_prims_alone m r H) as Hpa.
    destruct (ancestors_closure_thm prims m Hwf Hpa) as [order' [anc' [Et' [Ea' Hclos]]]].
    destruct (translate_inv prims m r H)
      as [order [anc [smap [mmap [kmap [ifm [Hpo [Et [Ea [Hs [Hpv [Hm [Hk [Hi [Hv ->]]]]]]]]]]]]]]].
    rewrite Et in Et'. injection Et' as <-. rewrite Ea in Ea'. injection Ea' as <-.
    assert (Hcn : In (c_name c) (names m)) by (unfold names; apply in_map; exact Hc).
    eexists. split.
    { unfold class_ir. cbn [r_classes]. apply find_map_name; [intro x; reflexivity | exact Hnd | exact Hc]. }
    cbn [ir_of i_ancestors i_descendants i_concrete_descendants i_is_cp].
    split; [intro a; apply Hclos; exact Hcn|]. split.
    - intros d Hd. rewrite (descendants_inverse_thm m anc (c_name c) d Hcn). apply Hclos. exact Hd.
    - split; [apply ancestors_nodup_thm; exact Hnd|]. split; [apply descendants_nodup_thm|].
      intros Hcp d. rewrite Hcp. apply concrete_descendants_thm.
  Qed.

  Theorem properties_stacked_acc : forall m r, translate prims m = Ok r ->
    exists pmap imap : list (name * list (ident name)),
      forall c, In c m ->
        exists ci, class_ir r (c_name c) = Some ci
          /\ i_props ci = map pair_owner (lk (c_name c) pmap)
          /\ i_invs ci = map pair_owner (lk (c_name c) imap)
          /\ lk (c_name c) imap
             = dedup id_eqb (flat_map (fun b => lk b imap) (class_bases prims c))
               ++ own_ids (c_name c) (c_invs c)
          /\ (i_is_cp ci = false ->
                lk (c_name c) pmap
                = dedup id_eqb (flat_map (fun b => lk b pmap) (class_bases prims c))
                  ++ own_ids (c_name c) (c_props c)
                /\ NoDup (map fst (i_props ci))).
  Proof. intros m r H. eapply properties_stacked_e2e; [exact H | eapply accepted_wf; exact H]. Qed.

  Theorem ctor_inlined_acc : forall m r, translate prims m = Ok r ->
    forall c, In c m ->
      exists ci, class_ir r (c_name c) = Some ci
        /\ (i_is_cp ci = false ->
              NoDup (i_inlined ci)
              /\ (forall p, In p (i_inlined ci) <-> In p (map fst (i_props ci)))
              /\ exists stmts : list (ident stmt),
                   i_inlined ci = map (fun x => stmt_prop (id_val x)) stmts
                   /\ forallb (fun x => is_assign (id_val x)) stmts = true).
  Proof. intros m r H. eapply ctor_inlined_e2e; [exact H | eapply accepted_wf; exact H]. Qed.

  Theorem interface_iff_acc : forall m r, translate prims m = Ok r ->
    forall c, In c m ->
      exists ci, class_ir r (c_name c) = Some ci
        /\ (i_is_cp ci = false ->
              (i_iface ci <> None <-> c_abstract c = true \/ i_descendants ci <> [])
              /\ forall l, i_iface ci = Some l -> l = c_bases c).
  Proof. intros m r H. eapply interface_iff_e2e; [exact H | eapply accepted_wf; exact H]. Qed.

  Theorem model_type_consistent_acc : forall m r, translate prims m = Ok r ->
    exists setting : name -> option bool,
      forall c, In c m ->
        exists ci, class_ir r (c_name c) = Some ci
          /\ (i_is_cp ci = false ->
                i_wmt ci = Some (match setting (c_name c) with Some v => v | None => false end)
                /\ (forall b v, In b (c_bases c) -> setting b = Some v -> setting (c_name c) = Some v)
                /\ (forall v, c_wmt c = Some v -> setting (c_name c) = Some v)
                /\ (forall v, setting (c_name c) = Some v ->
                      c_wmt c = Some v \/ exists b, In b (c_bases c) /\ setting b = Some v)).
  Proof. intros m r H. eapply model_type_consistent_e2e; [exact H | eapply accepted_wf; exact H]. Qed.

  (** The type order of an accepted meta-model is a topological permutation. *)
  Theorem topo_acc : forall m r, translate prims m = Ok r ->
    Permutation (r_topo r) (names m)
    /\ forall l1 c l2, r_topo r = l1 ++ c :: l2 -> forall b, base prims m c b -> In b l1.
  Proof.
    intros m r H. pose proof (accepted_wf prims m r H) as Hwf.
    destruct (translate_inv prims m r H)
      as [order [anc [smap [mmap [kmap [ifm [Hpo [Et [Ea [Hs [Hpv [Hm [Hk [Hi [Hv ->]]]]]]]]]]]]]]].
    cbn [r_topo]. destruct (topo_sort_ok prims m Hwf) as [o [Et' [Htopo Hperm]]].
    rewrite Et in Et'. injection Et' as <-. split; [exact Hperm|].
    apply (topo_split prims m order Htopo).
  Qed.
End Accepted.
