(** C08 — the second mechanism: [python/transpilation.py] ([Transpiler]) with the name
    resolution of [_InvariantTranspiler] ([python/lib/_generate_verification.py]): restricted
    tree -> Python expression.

    The model produces a target *AST* ([pyexpr] = [AstRules.pyast]) with an explicit [PParen]
    node exactly where the code writes parentheses, and a printer to a token list. The tables
    ([ptables]: comparison map, [no_parentheses_types] tuples) are parameters; [Props/C08.v]
    instantiates them with the tables re-translated from the source on every run.

    Names: the target identifiers are the SDK identifiers, taken from a naming table
    [g_naming] (kind, meta-model identifier) -> SDK identifier; the checks fill it by calling
    the real [python/naming.py]. [self] becomes [that], a constant [C] becomes
    [aas_constants.<C>], an enumeration [E] becomes [aas_types.<E>].

    Types: [transform_member] consults the inferred types of the instance and of the member;
    [ty_of] is the small part of the type inference that this needs.

    Not modelled: the line-breaking heuristics (they only insert white space inside
    parentheses) and the assertion that formatted values of an f-string contain no line break.
    Executable definitions only. *)
From Coq Require Import List NArith ZArith Bool.
From Coq Require Strings.String.
Import Coq.Strings.String.StringSyntax.
From Acg Require Import Base.Str Base.Outcome Model.Tree Model.PyEval Model.AstRules
  Model.PyTranspileKinds.
Import ListNotations.
Open Scope Z_scope.

Definition pyexpr : Type := pyast.

Inductive ty : Type :=
| TyClass (c : text) | TyEnum (e : text) | TyEnumType (e : text) | TyList (t : ty)
| TyMethod (ret : ty) | TyOther.

Inductive nkind : Type := NProp | NMethod | NEnumLit | NEnum | NConst | NFn | NVar.

Definition nkind_eqb (a b : nkind) : bool :=
  match a, b with
  | NProp, NProp | NMethod, NMethod | NEnumLit, NEnumLit | NEnum, NEnum | NConst, NConst
  | NFn, NFn | NVar, NVar => true
  | _, _ => false
  end.

Record tyenv : Type := mkTyenv {
  g_locals : list (text * ty);          (* [self] and, while inside a quantifier, its variable *)
  g_loopvars : list text;               (* [_variable_name_set] *)
  g_consts : list text;                 (* [symbol_table.constants_by_name] *)
  g_fns : list (text * ty);             (* verification functions with their return type *)
  g_enums : list (text * list text);    (* enumerations with their literals *)
  g_classes : list (text * (list (text * ty) * list (text * ty)));  (* properties, methods *)
  g_naming : list (nkind * text * text);
  g_args : list (text * text);          (* arguments of the transpiled function with their SDK
                                           names: [(self, that)] for an invariant, the
                                           [_argument_name_set] of a verification function *)
  g_check_reserved : bool               (* [_InvariantTranspiler] refuses loop variables that
                                           shadow [that] or the modules *)
}.

Fixpoint pyname_in (l : list (nkind * text * text)) (k : nkind) (n : text) : option text :=
  match l with
  | [] => None
  | (k', n', p) :: rest => if nkind_eqb k k' && text_eqb n n' then Some p else pyname_in rest k n
  end.

Definition pyname (G : tyenv) (k : nkind) (n : text) : outcome text unit :=
  match pyname_in (g_naming G) k n with Some p => Ok p | None => Crash KeyError end.

Definition push_var (G : tyenv) (x : text) (t : ty) : tyenv :=
  mkTyenv ((x, t) :: g_locals G) (x :: g_loopvars G) (g_consts G) (g_fns G) (g_enums G)
          (g_classes G) (g_naming G) (g_args G) (g_check_reserved G).

(** The inferred type of an expression, as far as [transform_member] needs it (Optional is
    ignored, as [beneath_optional] does). *)
Fixpoint ty_of (G : tyenv) (e : expr) : ty :=
  match e with
  | Name x =>
      match lookup x (g_locals G) with
      | Some t => t
      | None => match lookup x (g_enums G) with Some _ => TyEnumType x | None => TyOther end
      end
  | Member i n =>
      match ty_of G i with
      | TyClass c =>
          match lookup c (g_classes G) with
          | Some (props, meths) =>
              match lookup n props with
              | Some t => t
              | None => match lookup n meths with Some t => TyMethod t | None => TyOther end
              end
          | None => TyOther
          end
      | TyEnumType e' => TyEnum e'
      | _ => TyOther
      end
  | Index c _ => match ty_of G c with TyList t => t | _ => TyOther end
  | FunctionCall f _ => match lookup f (g_fns G) with Some t => t | None => TyOther end
  | MethodCall i m _ =>
      match ty_of G i with
      | TyClass c =>
          match lookup c (g_classes G) with
          | Some (_, meths) => match lookup m meths with Some t => t | None => TyOther end
          | None => TyOther
          end
      | _ => TyOther
      end
  | _ => TyOther
  end.

Definition item_ty (t : ty) : ty := match t with TyList u => u | _ => TyOther end.

Definition pcmp_of_text (s : text) : option pcmp :=
  if text_eqb s (s2l "<") then Some CLt
  else if text_eqb s (s2l "<=") then Some CLe
  else if text_eqb s (s2l ">") then Some CGt
  else if text_eqb s (s2l ">=") then Some CGe
  else if text_eqb s (s2l "==") then Some CEq
  else if text_eqb s (s2l "!=") then Some CNe
  else None.

Fixpoint cmp_lookup (op : cmpop) (l : list (cmpop * text)) : option text :=
  match l with
  | [] => None
  | (o, s) :: r => if cmpop_eqb op o then Some s else cmp_lookup op r
  end.

(** The operator the transpiler writes for [op]: [_PYTHON_COMPARISON_MAP[node.op]] (a missing
    key is a [KeyError]; a text that is not a Python comparison operator cannot be parsed
    back and is reported as an error of the model). *)
Definition cmp_target (T : ptables) (op : cmpop) : outcome pcmp unit :=
  match cmp_lookup op (cmp_map T) with
  | None => Crash KeyError
  | Some s => match pcmp_of_text s with Some c => Ok c | None => err end
  end.

Definition paren_unless (b : bool) (a : pyexpr) : pyexpr := if b then a else PParen a.

Definition target_const (c : const) : pyexpr :=
  match c with
  | CBool b => PConstant (KBool b)
  | CInt z => if z <? 0 then PUnaryOp USub (PConstant (KInt (- z))) else PConstant (KInt z)
  | CFloat q => if q <? 0 then PUnaryOp USub (PConstant (KFloat (- q))) else PConstant (KFloat q)
  | CStr s => PConstant (KStr s)
  end.

(** Names that the generated verification code uses itself. *)
Definition reserved_var (p : text) : bool :=
  text_eqb p (s2l "that") || text_eqb p (s2l "aas_types") || text_eqb p (s2l "aas_constants").

(** [_InvariantTranspiler.transform_name] and [_TranspilableVerificationTranspiler.transform_name]:
    local variables, then the arguments, then constants, verification functions, enumerations. *)
Definition transpile_name (G : tyenv) (x : text) : outcome pyexpr unit :=
  if mem_text x (g_loopvars G) then
    match pyname G NVar x with
    | Ok p => if g_check_reserved G && reserved_var p then err   (* would shadow the instance or a module *)
              else Ok (PName p)
    | Err e => Err e | Crash k => Crash k
    end
  else match lookup x (g_args G) with
  | Some p => Ok (PName p)          (* arguments shadow the globals of the meta-model *)
  | None =>
  if mem_text x (g_consts G) then
    match pyname G NConst x with
    | Ok p => Ok (PAttribute (PName (s2l "aas_constants")) p)
    | Err e => Err e | Crash k => Crash k
    end
  else match lookup x (g_fns G) with
       | Some _ =>
           match pyname G NFn x with Ok p => Ok (PName p) | Err e => Err e | Crash k => Crash k end
       | None =>
           match lookup x (g_enums G) with
           | Some _ =>
               match pyname G NEnum x with
               | Ok p => Ok (PAttribute (PName (s2l "aas_types")) p)
               | Err e => Err e | Crash k => Crash k
               end
           | None => err
           end
       end
  end.

(** [transform_member]: which naming applies, or an error. *)
Definition member_name (G : tyenv) (inst : expr) (n : text) : outcome text unit :=
  let it := ty_of G inst in
  let mt := ty_of G (Member inst n) in
  match it with
  | TyEnum _ => pyname G NEnumLit n
  | _ =>
      match mt with
      | TyMethod _ => pyname G NMethod n
      | _ =>
          match it with
          | TyClass c =>
              match lookup c (g_classes G) with
              | Some (props, _) =>
                  match lookup n props with Some _ => pyname G NProp n | None => err end
              | None => err
              end
          | TyEnumType e' =>
              match lookup e' (g_enums G) with
              | Some lits => if mem_text n lits then pyname G NEnumLit n else err
              | None => err
              end
          | _ => err
          end
      end
  end.

Definition is_len (f : text) : bool := text_eqb f (s2l "len").

Section Transpile.
  Variable T : ptables.

  Fixpoint transpile (G : tyenv) (e : expr) {struct e} : outcome pyexpr unit :=
    let np (tbl : ptables -> list nk) (x : expr) : bool := nk_in (nk_of x) (tbl T) in
    match e with
    | Name x => transpile_name G x
    | Constant c => Ok (target_const c)
    | Member i n =>
        match transpile G i with
        | Ok i' => match member_name G i n with
                   | Ok p => Ok (PAttribute i' p)
                   | Err x => Err x | Crash k => Crash k
                   end
        | Err x => Err x | Crash k => Crash k
        end
    | Index c i =>
        match transpile G c with
        | Ok c' => match transpile G i with
                   | Ok i' => Ok (PSubscript (paren_unless (np np_index c) c') i')
                   | Err x => Err x | Crash k => Crash k
                   end
        | Err x => Err x | Crash k => Crash k
        end
    | Comparison op l r =>
        match cmp_target T op with
        | Ok o =>
            match transpile G l with
            | Ok l' =>
                match transpile G r with
                | Ok r' =>
                    let plain := np np_comparison l && np np_comparison r in
                    Ok (PCompare (paren_unless plain l') [(o, paren_unless plain r')])
                | Err x => Err x | Crash k => Crash k
                end
            | Err x => Err x | Crash k => Crash k
            end
        | Err x => Err x | Crash k => Crash k
        end
    | IsIn m c =>
        match transpile G m with
        | Ok m' =>
            match transpile G c with
            | Ok c' => Ok (PCompare (paren_unless (np np_is_in m) m') [(CIn, paren_unless (np np_is_in c) c')])
            | Err x => Err x | Crash k => Crash k
            end
        | Err x => Err x | Crash k => Crash k
        end
    | IsNone v =>
        match transpile G v with
        | Ok v' => Ok (PCompare (paren_unless (np np_is_none v) v') [(CIs, PConstant KNone)])
        | Err x => Err x | Crash k => Crash k
        end
    | IsNotNone v =>
        match transpile G v with
        | Ok v' => Ok (PCompare (paren_unless (np np_is_not_none v) v') [(CIsNot, PConstant KNone)])
        | Err x => Err x | Crash k => Crash k
        end
    | Not v =>
        match transpile G v with
        | Ok v' => Ok (PUnaryOp UNot (paren_unless (np np_not v) v'))
        | Err x => Err x | Crash k => Crash k
        end
    | Implication a c =>
        match transpile G a with
        | Ok a' =>
            match transpile G c with
            | Ok c' => Ok (PBoolOp BOr [PUnaryOp UNot (paren_unless (np np_implication a) a');
                                        paren_unless (np np_implication c) c'])
            | Err x => Err x | Crash k => Crash k
            end
        | Err x => Err x | Crash k => Crash k
        end
    | And vs | Or vs =>
        match seq_map (fun v => match transpile G v with
                                | Ok v' => Ok (paren_unless (np np_and_or v) v')
                                | Err x => Err x | Crash k => Crash k
                                end) vs with
        | Ok vs' =>
            match vs' with
            | [] => Crash AssertionError             (* assert len(values) >= 1 *)
            | [v'] => Ok v'
            | _ => Ok (PParen (PBoolOp (match e with And _ => BAnd | _ => BOr end) vs'))
            end
        | Err x => Err x | Crash k => Crash k
        end
    | Add l r | Sub l r =>
        match transpile G l with
        | Ok l' =>
            match transpile G r with
            | Ok r' => Ok (PBinOp (match e with Add _ _ => OAdd | _ => OSub end)
                                  (paren_unless (np np_add_sub l) l') (paren_unless (np np_add_sub r) r'))
            | Err x => Err x | Crash k => Crash k
            end
        | Err x => Err x | Crash k => Crash k
        end
    | FunctionCall f args =>
        match seq_map (transpile G) args with
        | Ok args' =>
            match lookup f (g_fns G) with
            | Some _ =>
                match transpile_name G f with
                | Ok f' => Ok (PCall f' args' 0)
                | Err x => Err x | Crash k => Crash k
                end
            | None =>
                if is_len f then
                  match args' with
                  | [a'] => Ok (PCall (PName (s2l "len")) [a'] 0)
                  | _ => Crash AssertionError
                  end
                else err
            end
        | Err x => Err x | Crash k => Crash k
        end
    | MethodCall i m args =>
        match transpile G i with
        | Ok i' =>
            match seq_map (transpile G) args with
            | Ok args' =>
                match pyname G NMethod m with
                | Ok p => Ok (PCall (PAttribute (paren_unless (np np_method_call i) i') p) args' 0)
                | Err x => Err x | Crash k => Crash k
                end
            | Err x => Err x | Crash k => Crash k
            end
        | Err x => Err x | Crash k => Crash k
        end
    | Any x g c | All x g c =>
        let qual := match e with Any _ _ _ => s2l "any" | _ => s2l "all" end in
        let src : outcome pyexpr unit :=
          match g with
          | ForEach it =>
              match transpile G it with
              | Ok it' => Ok (paren_unless (np np_any_all it) it')
              | Err y => Err y | Crash k => Crash k
              end
          | ForRange a b =>
              match transpile G a with
              | Ok a' => match transpile G b with
                         | Ok b' => Ok (PCall (PName (s2l "range")) [a'; b'] 0)
                         | Err y => Err y | Crash k => Crash k
                         end
              | Err y => Err y | Crash k => Crash k
              end
          end in
        let vt := match g with ForEach it => item_ty (ty_of G it) | ForRange _ _ => TyOther end in
        let G' := push_var G x vt in
        match src with
        | Ok s =>
            match transpile G' c with
            | Ok c' =>
                match transpile_name G' x with
                | Ok v' => Ok (PCall (PName qual) [PGeneratorExp c' [(v', s, [])]] 0)
                | Err y => Err y | Crash k => Crash k
                end
            | Err y => Err y | Crash k => Crash k
            end
        | Err y => Err y | Crash k => Crash k
        end
    | JoinedStr ps =>
        if forallb (fun p => match p with JLit _ => true | JFmt _ => false end) ps then
          Ok (PConstant (KStr (flat_map (fun p => match p with JLit s => s | JFmt _ => [] end) ps)))
        else
          match seq_map (fun p => match p with
                                  | JLit s => Ok (PJLit s)
                                  | JFmt a => match transpile G a with
                                              | Ok a' => Ok (PJFmt a' (-1) false)
                                              | Err y => Err y | Crash k => Crash k
                                              end
                                  end) ps with
          | Ok ps' => Ok (PJoinedStr ps')
          | Err y => Err y | Crash k => Crash k
          end
    end.

  (** [_transpile_invariant]: the condition of the generated [if]: [not <expr>] or
      [not (<expr>)]. (For expressions longer than 50 characters or with a line break the
      code always writes the parentheses; a line break occurs exactly for the multi-line
      forms, all of which are outside [np_top]; the length rule is not modelled: it only adds
      redundant parentheses around the [np_top] kinds.) *)
  Definition transpile_condition (G : tyenv) (e : expr) : outcome pyexpr unit :=
    match transpile G e with
    | Ok e' => Ok (PUnaryOp UNot (paren_unless (nk_in (nk_of e) (np_top T)) e'))
    | Err x => Err x | Crash k => Crash k
    end.
End Transpile.

(** ** Printer: the token list of a target expression *)
Inductive tok : Type :=
| TkOp (s : text) | TkName (s : text) | TkInt (z : Z) | TkFloat (q : Z) | TkStr (s : text) | TkFStr.

Definition tok_eqb (a b : tok) : bool :=
  match a, b with
  | TkOp x, TkOp y | TkName x, TkName y | TkStr x, TkStr y => text_eqb x y
  | TkInt x, TkInt y | TkFloat x, TkFloat y => Z.eqb x y
  | TkFStr, TkFStr => true
  | _, _ => false
  end.

Definition pcmp_toks (c : pcmp) : list tok :=
  match c with
  | CLt => [TkOp (s2l "<")] | CLe => [TkOp (s2l "<=")] | CGt => [TkOp (s2l ">")]
  | CGe => [TkOp (s2l ">=")] | CEq => [TkOp (s2l "==")] | CNe => [TkOp (s2l "!=")]
  | CIs => [TkName (s2l "is")] | CIsNot => [TkName (s2l "is"); TkName (s2l "not")]
  | CIn => [TkName (s2l "in")] | CNotIn => [TkName (s2l "not"); TkName (s2l "in")]
  end.

Fixpoint sep_by {A} (sep : list A) (ls : list (list A)) : list A :=
  match ls with
  | [] => []
  | [l] => l
  | l :: rest => l ++ sep ++ sep_by sep rest
  end.

Fixpoint print_toks (a : pyast) {struct a} : list tok :=
  match a with
  | PParen e => TkOp (s2l "(") :: print_toks e ++ [TkOp (s2l ")")]
  | PName x => [TkName x]
  | PConstant c =>
      match c with
      | KNone => [TkName (s2l "None")]
      | KBool true => [TkName (s2l "True")]
      | KBool false => [TkName (s2l "False")]
      | KInt z => [TkInt z]
      | KFloat q => [TkFloat q]
      | KStr s => [TkStr s]
      | KOther => [TkOp (s2l "?")]
      end
  | PAttribute v n => print_toks v ++ [TkOp (s2l "."); TkName n]
  | PSubscript v i => print_toks v ++ TkOp (s2l "[") :: print_toks i ++ [TkOp (s2l "]")]
  | PCompare l rest =>
      print_toks l ++ flat_map (fun oc => pcmp_toks (fst oc) ++ print_toks (snd oc)) rest
  | PUnaryOp op e =>
      match op with
      | UNot => TkName (s2l "not") :: print_toks e
      | USub => TkOp (s2l "-") :: print_toks e
      | UAdd => TkOp (s2l "+") :: print_toks e
      | UInvert => TkOp (s2l "~") :: print_toks e
      end
  | PBoolOp op vs =>
      sep_by [TkName (match op with BAnd => s2l "and" | BOr => s2l "or" end)] (map print_toks vs)
  | PBinOp op l r =>
      print_toks l ++ TkOp (match op with OAdd => s2l "+" | OSub => s2l "-" | OOther => s2l "?" end)
        :: print_toks r
  | PCall f args _ =>
      print_toks f ++ TkOp (s2l "(") :: sep_by [TkOp (s2l ",")] (map print_toks args) ++ [TkOp (s2l ")")]
  | PGeneratorExp elt gens =>
      print_toks elt ++
      flat_map (fun g => match g with
                         | (t, i, ifs) =>
                             TkName (s2l "for") :: print_toks t ++ TkName (s2l "in") :: print_toks i
                             ++ flat_map (fun c => TkName (s2l "if") :: print_toks c) ifs
                         end) gens
  | PJoinedStr _ => [TkFStr]
  | POther => [TkOp (s2l "?")]
  end.
