(** C11 — JSON Schema is valid and never rejects valid data.

    Theorems over the schema semantics [Model/JsonSchemaSem.v], the generator model
    [Model/JsonSchemaGen.v] and the specification [Model/JsonSchemaSpec.v], instantiated
    with [_PRIMITIVE_MAP] as regenerated from the source on every run
    ([Gen/GenJsonSchema.v]). Only statements, [exact]s and [Print Assumptions].

    Third-party behaviour enters as hypotheses of the theorems, never as axioms:
    [search16 (fixp p) s = matches p s] (the UTF-16 image of a pattern found by the
    schema's regex engine in the UTF-16 image of [s] iff the SDK's [re.match] accepts
    [s]: property C17 + both engines) and [zlen (b64 b) = b64len (zlen b)] (base64 with
    padding). *)
From Coq Require Import List NArith ZArith Bool.
From Coq Require Strings.String.
Import Coq.Strings.String.StringSyntax.
From Acg Require Import Base.Str Base.Outcome Model.JsonSchemaSem Model.JsonSchemaGen
  Model.JsonSchemaSpec Proofs.JsonSchemaFacts Proofs.JsonSchemaGenFacts
  Proofs.JsonSchemaClassFacts Proofs.JsonSchemaFlatFacts Gen.GenJsonSchema.
Import ListNotations.
Open Scope Z_scope.

(** Generated side conditions. *)
Theorem C11_gen_primitive_map :
  map (prim_jtype primitive_map) [PBool; PInt; PFloat; PStr; PBytes]
  = [Some TyBoolean; Some TyInteger; Some TyNumber; Some TyString; Some TyString].
Proof. vm_compute. reflexivity. Qed.
Print Assumptions C11_gen_primitive_map.

Theorem C11_gen_plumbing :
  text_eqb execute_fix_pattern (s2l "fix_pattern_for_utf16")
  && text_eqb content_encoding (s2l "base64") = true.
Proof. vm_compute. reflexivity. Qed.
Print Assumptions C11_gen_plumbing.

Lemma pm_ok : forall p, prim_jtype primitive_map p = Some (expected_jtype p).
Proof. intros p. destruct p; vm_compute; reflexivity. Qed.

(** The fuel-indexed verdict is stable: more fuel never changes a verdict. *)
Theorem C11_validates_monotone : forall search16 defs f f' s v b,
  (f <= f')%nat -> validates search16 defs f s v = Some b -> validates search16 defs f' s v = Some b.
Proof. exact validates_le. Qed.
Print Assumptions C11_validates_monotone.

(** Value level, the generated definition of a primitive / list type *decides* the
    inferred constraints as visible on the JSON text (byte arrays through base64). *)
Theorem C11_define_type_decides :
  forall fixp search16 matches b64 int_tok defs,
    (forall p s, search16 (fixp p) s = matches p s) ->
    (forall b, zlen (b64 b) = b64len (zlen b)) ->
  forall m t d, prim_only t = true -> define_type primitive_map fixp m t = Some d ->
  forall v f, typedb t v = true -> (tdepth t + 2 <= f)%nat ->
    validates search16 defs f (Schema d) (to_json b64 int_tok v)
    = Some (admitsb matches true m t v).
Proof.
  intros fixp search16 matches b64 int_tok defs Hfix Hb64.
  exact (define_type_decides primitive_map fixp search16 matches b64 int_tok defs pm_ok Hfix Hb64).
Qed.
Print Assumptions C11_define_type_decides.

(** [kw_sound]: a well-typed value that satisfies every inferred constraint of its
    (nested) type annotation -- byte arrays measured in bytes -- validates. *)
Theorem C11_kw_sound :
  forall fixp search16 matches b64 int_tok defs,
    (forall p s, search16 (fixp p) s = matches p s) ->
    (forall b, zlen (b64 b) = b64len (zlen b)) ->
  forall m t d v, prim_only t = true -> define_type primitive_map fixp m t = Some d ->
    typedb t v = true -> admitsb matches false m t v = true ->
  forall f, (tdepth t + 2 <= f)%nat ->
    validates search16 defs f (Schema d) (to_json b64 int_tok v) = Some true.
Proof.
  intros fixp search16 matches b64 int_tok defs Hfix Hb64.
  exact (kw_sound primitive_map fixp search16 matches b64 int_tok defs pm_ok Hfix Hb64).
Qed.
Print Assumptions C11_kw_sound.

(** Non-vacuity: 3 bytes against [min 2, max 3] (the witness of the repaired defect: the
    text has 4 characters) inside a list with [maxItems 2], and a string with two patterns. *)
Example C11_kw_sound_nonvacuous :
  let m := [(0%N, mkC (Some (None, Some 2)) None);
            (1%N, mkC (Some (Some 2, Some 3)) None);
            (2%N, mkC (Some (Some 1, None)) (Some [s2l "p"; s2l "q"]))] in
  let t := TAList 0 (TAPrim 1 PBytes) in
  let v := VList [VBytes [1%N; 2%N; 3%N]] in
  prim_only t = true /\ typedb t v = true
  /\ admitsb (fun _ _ => true) false m t v = true
  /\ option_map (fun d => validates (fun _ _ => true) [] 3 (Schema d)
                            (to_json (fun b => repeat 65%N (Z.to_nat (b64len (zlen b)))) (fun _ => []) v))
       (define_type primitive_map (fun p => p) m t) = Some (Some true)
  /\ option_map (fun d => validates (fun _ _ => true) [] 3 (Schema d) (JStr (s2l "ab")))
       (define_type primitive_map (fun p => p) m (TAPrim 2 PStr)) = Some (Some true).
Proof. vm_compute. repeat split; reflexivity. Qed.
Print Assumptions C11_kw_sound_nonvacuous.

(** [refs_resolve] -- full statement (NOT proved in general):
      for every view [ts] of an accepted meta-model, [gen ts = Ok ds] implies that every
      [$ref] in [ds] is a key of [ds].
    It is false of the faithful model and of the code: a property whose type is an abstract
    class without concrete descendants refers to a definition that is never generated. *)
Definition leaf_view : list our_type :=
  [OClass (mkCls (s2l "Leafy") true false [] [] true
             [mkProp (s2l "x") false true (TAPrim 0 PInt)] []);
   OClass (mkCls (s2l "Holder") false false [] [] false
             [mkProp (s2l "leafy") true true (TAClass 1 (s2l "Leafy") false);
              mkProp (s2l "n") false true (TAPrim 2 PInt)] [])].

Theorem C11_refs_resolve_refuted :
  exists ds, gen primitive_map (fun p => p) leaf_view = Ok ds /\ refs_resolveb 20 ds = false.
Proof. eexists. split; [vm_compute; reflexivity|vm_compute; reflexivity]. Qed.
Print Assumptions C11_refs_resolve_refuted.

(** ... while the definition shapes of a hierarchy with concrete descendants are closed
    (abstract root, concrete child with its own child, a class referring to the root). *)
Definition family_view : list our_type :=
  [OEnum (s2l "Color") [s2l "red"; s2l "blue"];
   OClass (mkCls (s2l "Root") true true [] [s2l "Mid"; s2l "Leaf"] true
             [mkProp (s2l "s") false true (TAPrim 0 PStr)]
             [(0%N, mkC (Some (None, Some 10)) None)]);
   OClass (mkCls (s2l "Mid") false true [mkParent (s2l "Root") true true] [s2l "Leaf"] false
             [mkProp (s2l "s") false false (TAPrim 0 PStr);
              mkProp (s2l "c") true true (TAEnum 1 (s2l "Color"))]
             [(0%N, mkC (Some (None, Some 5)) None)]);
   OClass (mkCls (s2l "Leaf") false true [mkParent (s2l "Mid") false true] [] false
             [mkProp (s2l "s") false false (TAPrim 0 PStr);
              mkProp (s2l "c") true false (TAEnum 1 (s2l "Color"))]
             [(0%N, mkC (Some (Some 2, Some 5)) None)]);
   OClass (mkCls (s2l "Holder") false false [] [] false
             [mkProp (s2l "items") false true (TAList 3 (TAClass 2 (s2l "Root") true))] [])].

Example C11_refs_resolve_example :
  match gen primitive_map (fun p => p) family_view with
  | Ok ds => refs_resolveb 20 ds && Nat.eqb (length ds) 9
  | _ => false
  end = true.
Proof. vm_compute. reflexivity. Qed.
Print Assumptions C11_refs_resolve_example.

(** [schema_accepts_valid], class level, proved for *flat* classes (no parents, no
    descendants, every property of primitive / list type, optional or not, with or without
    [modelType]): for every instance that respects the class -- every present value well
    typed and satisfying the constraints inferred for the class (byte arrays in bytes),
    every required property present -- the document the SDK writes validates against the
    generated concrete definition. *)
Theorem C11_schema_accepts_valid_flat :
  forall fixp search16 matches b64 int_tok defs cons_of,
    (forall p s, search16 (fixp p) s = matches p s) ->
    (forall b, zlen (b64 b) = b64len (zlen b)) ->
  forall c n s fields,
    flatb c = true -> concrete_definition primitive_map fixp cons_of c = Ok (n, s) ->
    instance_okb matches false c fields = true ->
    lookup model_type_kw fields = None ->
  forall f, (cdepth c + 3 <= f)%nat ->
    validates search16 defs f s (instance_doc b64 int_tok c fields) = Some true.
Proof.
  intros fixp search16 matches b64 int_tok defs cons_of Hfix Hb64.
  exact (schema_accepts_valid_flat primitive_map fixp search16 matches b64 int_tok defs cons_of
           pm_ok Hfix Hb64).
Qed.
Print Assumptions C11_schema_accepts_valid_flat.

Definition blob_cls : cls :=
  mkCls (s2l "Blob") false true [] [] false
    [mkProp (s2l "data") false true (TAPrim 0 PBytes);
     mkProp (s2l "tags") true true (TAList 1 (TAPrim 2 PStr))]
    [(0%N, mkC (Some (Some 2, Some 3)) None); (1%N, mkC (Some (None, Some 2)) None);
     (2%N, mkC (Some (Some 1, None)) (Some [s2l "p"]))].

Example C11_schema_accepts_valid_flat_nonvacuous :
  let fields := [(s2l "data", VBytes [1%N; 2%N; 3%N]);
                 (s2l "tags", VList [VStr (s2l "ab"); VStr (s2l "c")])] in
  flatb blob_cls = true
  /\ instance_okb (fun _ _ => true) false blob_cls fields = true
  /\ lookup model_type_kw fields = None
  /\ match concrete_definition primitive_map (fun p => p) (fun _ => None) blob_cls with
     | Ok (_, s) =>
         validates (fun _ _ => true) [] 4 s
           (instance_doc (fun b => repeat 65%N (Z.to_nat (b64len (zlen b)))) (fun _ => [])
              blob_cls fields)
     | _ => None
     end = Some true.
Proof. vm_compute. repeat split; reflexivity. Qed.
Print Assumptions C11_schema_accepts_valid_flat_nonvacuous.

(** [schema_accepts_valid] -- full statement (NOT proved): for every well-formed instance
    [i] of a class of the view that satisfies the recognised constraints,
    [validates (gen ts) (KRef (choice_or_class (cls i))) (to_json i) = Some true].
    Proved part: flat classes ([C11_schema_accepts_valid_flat]) and the property level
    ([C11_kw_sound]). The composition over
    [allOf] inheritance chains and [oneOf] dispatch is covered by the in-Coq correspondence
    of [gen] with the real schema and by the oracle on the real artefacts only.
    On the example hierarchy a valid [Leaf] document is accepted through the choice of
    [Root] (exactly one [oneOf] branch), and so is the list holding it. *)
Example C11_schema_accepts_valid_example :
  match gen primitive_map (fun p => p) family_view with
  | Ok ds =>
      let leaf := JObj [(s2l "s", JStr (s2l "abc")); (s2l "c", JStr (s2l "red"));
                        (s2l "modelType", JStr (s2l "Leaf"))] in
      (validates (fun _ _ => true) ds 40 (Schema [KRef (s2l "Root_choice")]) leaf,
       validates (fun _ _ => true) ds 40 (Schema [KRef (s2l "Holder")])
         (JObj [(s2l "items", JArr [leaf])]))
  | _ => (None, None)
  end = (Some true, Some true).
Proof. vm_compute. reflexivity. Qed.
Print Assumptions C11_schema_accepts_valid_example.
