(** C02 — Generators never crash on accepted meta-models (partial).

    The text-emitting bulk of the eight generators is not modelled; it is searched
    (harness/props/c02.py: accepted meta-models x 8 targets + smoke, risky features on).
    Proved here, over the skeleton of [main.execute] re-translated from the source on
    every run: on every path of the dispatcher an exit code is returned, a value that
    was produced together with an error is never read on the path where the error is
    set ("no use before check"), and no [assert ... is not None] can fire — for every
    behaviour of the environment (which callee reports an error, which target is
    selected).

    The crash-bearing generator cores are proved total in the developments of other
    properties and are linked at the end of this file when installed. *)
From Coq Require Import List NArith Arith Bool.
From Acg Require Import Base.Outcome Model.LoadSkel Proofs.LoadSkelFacts Gen.GenLoadModel.
Import ListNotations.
Open Scope nat_scope.

Theorem C02_gen_execute_paths_ok : check good_int execute_skel [] = true.
Proof. vm_compute. reflexivity. Qed.
Print Assumptions C02_gen_execute_paths_ok.

(** [skeleton_no_use_before_check] for the dispatcher. *)
Theorem C02_execute_no_use_before_check :
  forall o k, run execute_skel [] o <> RCrash k.
Proof.
  exact (check_no_crash good_int execute_skel [] (fun k => eq_refl) C02_gen_execute_paths_ok).
Qed.
Print Assumptions C02_execute_no_use_before_check.

Theorem C02_execute_returns_exit_code : forall o, run execute_skel [] o = RInt.
Proof.
  intros o. pose proof (check_sound good_int execute_skel [] C02_gen_execute_paths_ok o) as G.
  destruct (run execute_skel [] o); try discriminate G. reflexivity.
Qed.
Print Assumptions C02_execute_returns_exit_code.

(** The generators receive the symbol table only on the path where [load_model]
    reported no error: the same discipline holds inside [load_model] for the three
    stages of the front end. *)
Theorem C02_load_model_no_use_before_check :
  forall o k, run load_model_skel [] o <> RCrash k.
Proof.
  assert (H : check good_xor load_model_skel [] = true) by (vm_compute; reflexivity).
  exact (check_no_crash good_xor load_model_skel [] (fun k => eq_refl) H).
Qed.
Print Assumptions C02_load_model_no_use_before_check.

(** Non-vacuity: the checker rejects a dispatcher that reads the symbol table before
    testing the error, and the dispatcher skeleton has one leaf per target at least. *)
Example C02_check_rejects_unchecked_use :
  check good_int (PairCall true 0 1 (Use 0 (IfNotNone 1 RetInt RetInt))) [] = false
  /\ Nat.leb 12 (leaves execute_skel) = true.
Proof. vm_compute. split; reflexivity. Qed.
Print Assumptions C02_check_rejects_unchecked_use.

(** ** Linked from C15 and C17: crash-bearing generator cores are total.

    The models and proofs belong to those properties (where they are also tied to the
    code); re-stated here because they are the pre-conditions / assertions behind the
    schema generators ([infer_for_schema]) and the UTF-16 targets. *)
From Coq Require Import ZArith.
From Acg Require Import Base.Str Model.InferExpr Model.LenInfer Proofs.InferLen
  Model.Utf16Tree Model.Utf16Fix Proofs.Utf16Lang.

(** [LenConstraint.__init__]'s pre-condition [0 < min <= max] is never violated by
    [_reduce_constraints] ... *)
Theorem C02_len_reduce_total : forall cs k, reduce cs <> Crash k.
Proof. exact reduce_total. Qed.
Print Assumptions C02_len_reduce_total.

(** ... nor by merging along inheritance, for ranges the added check does not flag. *)
Theorem C02_len_merge_total : forall a b,
  wf_opt a -> wf_opt b -> len_contradict a b = false ->
  exists c, merge_len (E := unit) a b = Ok c /\ wf_opt c.
Proof. exact (merge_total unit). Qed.
Print Assumptions C02_len_merge_total.

(** No assertion of [fix_for_utf16_regex_in_place] can fail on a tree the front end
    accepts. *)
Theorem C02_fix_utf16_total : forall u,
  accepted_union u = true -> exists u', fix_utf16 u = Ok u'.
Proof. exact fix_utf16_total. Qed.
Print Assumptions C02_fix_utf16_total.

(* Still to be linked when their totality theorems are installed (see docs/C02.md):
     C18  Revm        translate_total (C18 states correctness, [C18_translate_correct_partial])
     C21  Collisions  verify_total
   and the per-target [execute] skeletons of C03 (Gen/GenSkeletons.v). *)
