(** C08 — soundness of the transpiler model [Model/PyTranspile.v]: the Python expression
    that [transpile] writes has, in the SDK environment, the value (or raises the exception)
    that the invariant has in the meta-model environment, up to the renaming of identifiers
    ([Model/PyTranspileRename.v]). Values AND raised exceptions; all expressions. *)
From Coq Require Import List NArith ZArith Bool Lia.
From Coq Require Strings.String.
Import Coq.Strings.String.StringSyntax.
From Acg Require Import Base.Str Base.Outcome Model.Tree Model.PyEval Model.AstRules
  Model.PyTranspileKinds Model.PyTranspile Model.PyTranspileRename Proofs.AstRulesFacts
  Proofs.PyTranspileRen.
Import ListNotations.
Open Scope Z_scope.

(** ** Texts *)
Lemma teqb_refl : forall a : text, text_eqb a a = true.
Proof. induction a as [|x a IH]; cbn; [reflexivity|]. rewrite N.eqb_refl. exact IH. Qed.

Lemma teqb_eq : forall a b : text, text_eqb a b = true -> a = b.
Proof.
  induction a as [|x a IH]; destruct b as [|y b]; cbn; intros H; try discriminate; [reflexivity|].
  apply andb_true_iff in H. destruct H as [Hxy Hab].
  apply N.eqb_eq in Hxy. subst y. f_equal. apply IH. exact Hab.
Qed.

Lemma teqb_neq : forall a b : text, a <> b -> text_eqb a b = false.
Proof.
  intros a b Hne. destruct (text_eqb a b) eqn:E; [|reflexivity].
  exfalso. apply Hne. apply teqb_eq. exact E.
Qed.

Lemma teqb_false_neq : forall a b : text, text_eqb a b = false -> a <> b.
Proof. intros a b H ->. rewrite teqb_refl in H. discriminate. Qed.

Lemma result_eta (x : pyresult) : match x with Raise e => Raise e | Val v => Val v end = x.
Proof. destruct x; reflexivity. Qed.

Lemma eval_py_paren_unless b r a fuel : eval_py r (paren_unless b a) fuel = eval_py r a fuel.
Proof. destruct b; reflexivity. Qed.

(** Literal texts: normalise [s2l "..."] to the list of code points. *)
Ltac norm_s2l_in H :=
  repeat match type of H with
         | context [s2l ?x] => let t := eval vm_compute in (s2l x) in change (s2l x) with t in H
         end.
Ltac norm_s2l :=
  repeat match goal with
         | |- context [s2l ?x] => let t := eval vm_compute in (s2l x) in change (s2l x) with t
         end.

(** ** Names *)
Lemma pyname_nm nm G k n p : table_ok nm G -> pyname G k n = Ok p -> p = nm_of nm k n.
Proof.
  intros Ht H. unfold pyname in H.
  destruct (pyname_in (g_naming G) k n) as [q|] eqn:E; try discriminate.
  injection H as <-. apply (Ht k n q E).
Qed.

Lemma lookup_bind_same x v r : lookup x (vars (bind_var x v r)) = Some v.
Proof. cbn. rewrite teqb_refl. reflexivity. Qed.

Lemma lookup_bind_other x y v r : y <> x -> lookup y (vars (bind_var x v r)) = lookup y (vars r).
Proof. intros Hne. cbn. rewrite (teqb_neq y x Hne). reflexivity. Qed.

Section Names.
  Variable nm : naming.
  Hypothesis Hok : naming_ok nm.

  Lemma name_sound G x t r r' fuel :
    table_ok nm G -> env_rel nm G r r' ->
    transpile_name G x = Ok t ->
    eval_py r' t fuel = ren_result nm (eval r (Name x) fuel).
  Proof.
    intros Ht Hr H. unfold transpile_name in H. cbn [eval].
    destruct (mem_text x (g_loopvars G)) eqn:Hlv.
    - destruct (pyname G NVar x) as [p| |] eqn:Hp; try discriminate.
      destruct (g_check_reserved G && reserved_var p); try discriminate. injection H as <-.
      apply (pyname_nm nm) in Hp; [|exact Ht]. cbn in Hp. subst p.
      cbn [eval_py]. rewrite (er_vars _ _ _ _ Hr x Hlv).
      destruct (lookup x (vars r)); reflexivity.
    - destruct (lookup x (g_args G)) as [pa|] eqn:Ha.
      + injection H as <-. cbn [eval_py]. rewrite (er_args _ _ _ _ Hr x pa Ha Hlv).
        destruct (lookup x (vars r)); reflexivity.
      + destruct (mem_text x (g_consts G)) eqn:Hc.
        * destruct (pyname G NConst x) as [p| |] eqn:Hp; try discriminate. injection H as <-.
          apply (pyname_nm nm) in Hp; [|exact Ht]. cbn in Hp. subst p.
          destruct (er_consts _ _ _ _ Hr x Hc Hlv Ha) as (oid & cl & cfs & v & Hm & Hv & Hl).
          norm_s2l_in Hm. cbn [eval_py]. rewrite Hm, Hl, Hv. reflexivity.
        * destruct (lookup x (g_fns G)) as [tf|] eqn:Hf.
          -- destruct (pyname G NFn x) as [p| |] eqn:Hp; try discriminate. injection H as <-.
             apply (pyname_nm nm) in Hp; [|exact Ht]. cbn in Hp. subst p.
             cbn [eval_py]. rewrite (er_fns _ _ _ _ Hr x tf Hf Hlv Ha).
             destruct (lookup x (vars r)); reflexivity.
          -- destruct (lookup x (g_enums G)) as [ls|] eqn:He; try discriminate.
             destruct (pyname G NEnum x) as [p| |] eqn:Hp; try discriminate. injection H as <-.
             apply (pyname_nm nm) in Hp; [|exact Ht]. cbn in Hp. subst p.
             destruct (er_enums _ _ _ _ Hr x ls He Hlv Ha) as (oid & cl & efs & v & Hm & Hv & Hl).
             norm_s2l_in Hm. cbn [eval_py]. rewrite Hm, Hl, Hv. reflexivity.
  Qed.

  (** A function name is written as a plain name, bound to the renamed value. *)
  Lemma fn_name_sound G f tf t r r' :
    table_ok nm G -> names_disjoint G -> env_rel nm G r r' ->
    lookup f (g_fns G) = Some tf -> transpile_name G f = Ok t ->
    exists p, t = PName p /\
              lookup p (vars r') = option_map (ren_value nm) (lookup f (vars r)).
  Proof.
    intros Ht Hd Hr Hf H. pose proof (Hd f tf Hf) as Hnc.
    unfold transpile_name in H.
    destruct (mem_text f (g_loopvars G)) eqn:Hlv.
    - destruct (pyname G NVar f) as [p| |] eqn:Hp; try discriminate.
      destruct (g_check_reserved G && reserved_var p); try discriminate. injection H as <-.
      apply (pyname_nm nm) in Hp; [|exact Ht]. cbn in Hp. subst p.
      exists (nm_var nm f). split; [reflexivity|]. apply (er_vars _ _ _ _ Hr f Hlv).
    - destruct (lookup f (g_args G)) as [pa|] eqn:Ha.
      + injection H as <-. exists pa. split; [reflexivity|]. apply (er_args _ _ _ _ Hr f pa Ha Hlv).
      + rewrite Hnc, Hf in H.
        destruct (pyname G NFn f) as [p| |] eqn:Hp; try discriminate. injection H as <-.
        apply (pyname_nm nm) in Hp; [|exact Ht]. cbn in Hp. subst p.
        exists (nm_fn nm f). split; [reflexivity|]. apply (er_fns _ _ _ _ Hr f tf Hf Hlv Ha).
  Qed.

  Lemma mem_text_cons x y l : mem_text x (y :: l) = text_eqb x y || mem_text x l.
  Proof. reflexivity. Qed.

  (** Going under a quantifier keeps the environments related. *)
  Lemma env_rel_push G x vt item r r' :
    var_ok nm G x -> env_rel nm G r r' ->
    env_rel nm (push_var G x vt) (bind_var x item r) (bind_var (nm_var nm x) (ren_value nm item) r').
  Proof.
    intros (Hargs & Htypes & Hconsts & Hfn & Hlen & _) Hr.
    constructor; cbn [push_var g_loopvars g_consts g_fns g_enums g_args].
    - intros y Hy. rewrite mem_text_cons in Hy.
      destruct (text_eqb y x) eqn:Eyx.
      + apply teqb_eq in Eyx. subst y. rewrite !lookup_bind_same. reflexivity.
      + cbn [orb] in Hy. pose proof (teqb_false_neq _ _ Eyx) as Hne.
        rewrite (lookup_bind_other x y item r Hne).
        rewrite lookup_bind_other; [apply (er_vars _ _ _ _ Hr y Hy)|].
        intros Heq. apply Hne. apply (inj_var nm Hok). exact Heq.
    - intros a p Ha Hlv. rewrite mem_text_cons in Hlv. apply orb_false_iff in Hlv. destruct Hlv as [Eax Hlv].
      pose proof (teqb_false_neq _ _ Eax) as Hne.
      rewrite (lookup_bind_other x a item r Hne).
      rewrite lookup_bind_other; [apply (er_args _ _ _ _ Hr a p Ha Hlv)|].
      intros Heq. apply Hne. symmetry. apply (Hargs a p Ha). symmetry. exact Heq.
    - intros c Hc Hlv Ha. rewrite mem_text_cons in Hlv. apply orb_false_iff in Hlv. destruct Hlv as [Ecx Hlv].
      destruct (er_consts _ _ _ _ Hr c Hc Hlv Ha) as (oid & cl & cfs & v & Hm & Hv & Hl).
      exists oid, cl, cfs, v. split; [|split; [|exact Hl]].
      + rewrite lookup_bind_other; [exact Hm|]. intros Heq. apply Hconsts. symmetry. exact Heq.
      + rewrite (lookup_bind_other x c item r (teqb_false_neq _ _ Ecx)). exact Hv.
    - intros f t Hf Hlv Ha. rewrite mem_text_cons in Hlv. apply orb_false_iff in Hlv. destruct Hlv as [Efx Hlv].
      pose proof (teqb_false_neq _ _ Efx) as Hne.
      rewrite (lookup_bind_other x f item r Hne).
      rewrite lookup_bind_other; [apply (er_fns _ _ _ _ Hr f t Hf Hlv Ha)|].
      intros Heq. apply Hne. symmetry. apply (Hfn f t Hf). symmetry. exact Heq.
    - intros e ls He Hlv Ha. rewrite mem_text_cons in Hlv. apply orb_false_iff in Hlv. destruct Hlv as [Eex Hlv].
      destruct (er_enums _ _ _ _ Hr e ls He Hlv Ha) as (oid & cl & efs & v & Hm & Hv & Hl).
      exists oid, cl, efs, v. split; [|split; [|exact Hl]].
      + rewrite lookup_bind_other; [exact Hm|]. intros Heq. apply Htypes. symmetry. exact Heq.
      + rewrite (lookup_bind_other x e item r (teqb_false_neq _ _ Eex)). exact Hv.
    - destruct (text_eqb x (s2l "len")) eqn:Exl.
      + pose proof (teqb_eq _ _ Exl) as Hx. pose proof (teqb_eq _ _ Hlen) as Hx'.
        subst x. rewrite Hx'. rewrite !lookup_bind_same. reflexivity.
      + rewrite (lookup_bind_other x (s2l "len") item r).
        2:{ intros Heq. rewrite <- Heq, teqb_refl in Exl. discriminate. }
        rewrite lookup_bind_other; [apply (er_len _ _ _ _ Hr)|].
        intros Heq. rewrite <- Heq, teqb_refl in Hlen. discriminate.
    - apply (er_fn_impl _ _ _ _ Hr).
    - apply (er_meth_impl _ _ _ _ Hr).
    - apply (er_enum_lits _ _ _ _ Hr).
  Qed.
End Names.

(** ** Induction on the nested expression type *)
Definition gen_all (P : expr -> Prop) (g : gen expr) : Prop :=
  match g with ForEach i => P i | ForRange a b => P a /\ P b end.
Definition jpart_all (P : expr -> Prop) (p : jpart expr) : Prop :=
  match p with JLit _ => True | JFmt e => P e end.

Section ExprInd.
  Variable P : expr -> Prop.
  Hypothesis HMember : forall i n, P i -> P (Member i n).
  Hypothesis HName : forall x, P (Name x).
  Hypothesis HConstant : forall c, P (Constant c).
  Hypothesis HIndex : forall c i, P c -> P i -> P (Index c i).
  Hypothesis HComparison : forall op l r, P l -> P r -> P (Comparison op l r).
  Hypothesis HIsIn : forall m c, P m -> P c -> P (IsIn m c).
  Hypothesis HIsNone : forall v, P v -> P (IsNone v).
  Hypothesis HIsNotNone : forall v, P v -> P (IsNotNone v).
  Hypothesis HNot : forall e, P e -> P (Not e).
  Hypothesis HAnd : forall vs, Forall P vs -> P (And vs).
  Hypothesis HOr : forall vs, Forall P vs -> P (Or vs).
  Hypothesis HImplication : forall a c, P a -> P c -> P (Implication a c).
  Hypothesis HFunctionCall : forall f args, Forall P args -> P (FunctionCall f args).
  Hypothesis HMethodCall : forall i m args, P i -> Forall P args -> P (MethodCall i m args).
  Hypothesis HAdd : forall l r, P l -> P r -> P (Add l r).
  Hypothesis HSub : forall l r, P l -> P r -> P (Sub l r).
  Hypothesis HAny : forall x g c, gen_all P g -> P c -> P (Any x g c).
  Hypothesis HAll : forall x g c, gen_all P g -> P c -> P (All x g c).
  Hypothesis HJoinedStr : forall ps, Forall (jpart_all P) ps -> P (JoinedStr ps).

  Fixpoint expr_ind2 (e : expr) : P e :=
    let list_ind' :=
      fix go (l : list expr) : Forall P l :=
        match l with
        | [] => Forall_nil P
        | x :: r => Forall_cons x (expr_ind2 x) (go r)
        end in
    let gen_ind' (g : gen expr) : gen_all P g :=
      match g return gen_all P g with
      | ForEach i => expr_ind2 i
      | ForRange a b => conj (expr_ind2 a) (expr_ind2 b)
      end in
    match e return P e with
    | Member i n => HMember i n (expr_ind2 i)
    | Name x => HName x
    | Constant c => HConstant c
    | Index c i => HIndex c i (expr_ind2 c) (expr_ind2 i)
    | Comparison op l r => HComparison op l r (expr_ind2 l) (expr_ind2 r)
    | IsIn m c => HIsIn m c (expr_ind2 m) (expr_ind2 c)
    | IsNone v => HIsNone v (expr_ind2 v)
    | IsNotNone v => HIsNotNone v (expr_ind2 v)
    | Not a => HNot a (expr_ind2 a)
    | And vs => HAnd vs (list_ind' vs)
    | Or vs => HOr vs (list_ind' vs)
    | Implication a c => HImplication a c (expr_ind2 a) (expr_ind2 c)
    | FunctionCall f args => HFunctionCall f args (list_ind' args)
    | MethodCall i m args => HMethodCall i m args (expr_ind2 i) (list_ind' args)
    | Add l r => HAdd l r (expr_ind2 l) (expr_ind2 r)
    | Sub l r => HSub l r (expr_ind2 l) (expr_ind2 r)
    | Any x g c => HAny x g c (gen_ind' g) (expr_ind2 c)
    | All x g c => HAll x g c (gen_ind' g) (expr_ind2 c)
    | JoinedStr ps =>
        HJoinedStr ps
          ((fix go (l : list (jpart expr)) : Forall (jpart_all P) l :=
              match l with
              | [] => Forall_nil _
              | p :: r =>
                  Forall_cons p
                    (match p return jpart_all P p with
                     | JLit _ => I
                     | JFmt a => expr_ind2 a
                     end) (go r)
              end) ps)
    end.
End ExprInd.

(** ** Side conditions of the context *)
Definition ctx_ok (nm : naming) (G : tyenv) : Prop :=
  table_ok nm G /\ names_disjoint G /\ range_free nm G.

Lemma ctx_ok_push nm G x t : ctx_ok nm G -> var_ok nm G x -> ctx_ok nm (push_var G x t).
Proof.
  intros (Ht & Hd & Hf & Hl & Ha) (_ & _ & _ & _ & _ & Hrg).
  split; [exact Ht|]. split; [exact Hd|]. split; [exact Hf|]. split; [|exact Ha].
  intros y Hy. cbn [push_var g_loopvars] in Hy. cbn [mem_text] in Hy.
  destruct (text_eqb y x) eqn:E.
  - apply teqb_eq in E. subst y. exact Hrg.
  - apply Hl. exact Hy.
Qed.

(** ** The comparison map *)
Lemma cmp_sound_spec T op o :
  cmp_map_sound T = true -> cmp_target T op = Ok o -> cmpop_of o = Some op.
Proof.
  intros HT Ho. unfold cmp_map_sound in HT. rewrite forallb_forall in HT.
  assert (Hin : In op [Lt; Le; Gt; Ge; Eq; Ne]) by (destruct op; cbn; tauto).
  specialize (HT op Hin). rewrite Ho in HT.
  destruct (cmpop_of o) as [op'|]; try discriminate.
  destruct op', op; try discriminate; reflexivity.
Qed.

Lemma cmp1_cmpop o op a b : cmpop_of o = Some op -> cmp1 o a b = py_compare op a b.
Proof. destruct o; cbn; intros H; try discriminate; injection H as <-; reflexivity. Qed.

(** ** Shape of the output *)
Definition head_ok (a : pyast) : Prop :=
  match a with
  | PGeneratorExp _ _ => False
  | PCall f _ _ => match f with PName rg => is_range rg = false | _ => True end
  | _ => True
  end.

Lemma head_ok_paren b a : head_ok a -> head_ok (paren_unless b a).
Proof. destruct b; [trivial|]. intros _. exact I. Qed.

Lemma fn_name_shape nm G f tf t :
  table_ok nm G -> names_disjoint G -> lookup f (g_fns G) = Some tf -> transpile_name G f = Ok t ->
  (t = PName (nm_var nm f) /\ mem_text f (g_loopvars G) = true) \/
  (exists pa, t = PName pa /\ lookup f (g_args G) = Some pa) \/
  t = PName (nm_fn nm f).
Proof.
  intros Ht Hd Hf H. pose proof (Hd f tf Hf) as Hnc.
  unfold transpile_name in H.
  destruct (mem_text f (g_loopvars G)) eqn:Hlv.
  - destruct (pyname G NVar f) as [p| |] eqn:Hp; try discriminate.
    destruct (g_check_reserved G && reserved_var p); try discriminate. injection H as <-.
    apply (pyname_nm nm) in Hp; [|exact Ht]. cbn in Hp. subst p. left. split; reflexivity.
  - destruct (lookup f (g_args G)) as [pa|] eqn:Ha.
    + injection H as <-. right. left. exists pa. split; reflexivity.
    + rewrite Hnc, Hf in H.
      destruct (pyname G NFn f) as [p| |] eqn:Hp; try discriminate. injection H as <-.
      apply (pyname_nm nm) in Hp; [|exact Ht]. cbn in Hp. subst p. right. right. reflexivity.
Qed.

Lemma transpile_name_head G x t : transpile_name G x = Ok t -> head_ok t.
Proof.
  unfold transpile_name. intros H.
  repeat match type of H with
         | context [if ?c then _ else _] => destruct c
         | context [match pyname ?a ?b ?c with _ => _ end] => destruct (pyname a b c)
         | context [match lookup ?a ?b with _ => _ end] => destruct (lookup a b)
         end; try discriminate H; injection H as <-; exact I.
Qed.

Lemma seq_map_singleton {A B} (f : A -> outcome B unit) l y :
  seq_map f l = Ok [y] -> exists x, l = [x] /\ f x = Ok y.
Proof.
  destruct l as [|x [|x2 l]]; cbn; intros H.
  - discriminate.
  - destruct (f x) as [y0| |] eqn:E; try discriminate. injection H as <-. exists x. split; [reflexivity | exact E].
  - destruct (f x) as [y0| |]; try discriminate.
    destruct (f x2) as [y2| |]; try discriminate.
    destruct (seq_map f l) as [ys| |]; discriminate.
Qed.

Section Head.
  Variable nm : naming.
  Variable T : ptables.

  Lemma transpile_head : forall e G e',
    ctx_ok nm G -> transpile T G e = Ok e' -> head_ok e'.
  Proof.
    apply (expr_ind2 (fun e => forall G e', ctx_ok nm G -> transpile T G e = Ok e' -> head_ok e')).
    - intros i n IHi G e' Hc H. cbn [transpile] in H.
      destruct (transpile T G i); try discriminate. destruct (member_name G i n); try discriminate.
      injection H as <-. exact I.
    - intros x G e' Hc H. eapply transpile_name_head. exact H.
    - intros c G e' Hc H. cbn [transpile] in H. injection H as <-.
      destruct c; cbn; try exact I; destruct (_ <? 0); exact I.
    - intros c i IHc IHi G e' Hc H. cbn [transpile] in H.
      destruct (transpile T G c); try discriminate. destruct (transpile T G i); try discriminate.
      injection H as <-. exact I.
    - intros op l r IHl IHr G e' Hc H. cbn [transpile] in H.
      destruct (cmp_target T op); try discriminate.
      destruct (transpile T G l); try discriminate. destruct (transpile T G r); try discriminate.
      injection H as <-. exact I.
    - intros m c IHm IHc G e' Hc H. cbn [transpile] in H.
      destruct (transpile T G m); try discriminate. destruct (transpile T G c); try discriminate.
      injection H as <-. exact I.
    - intros v IHv G e' Hc H. cbn [transpile] in H.
      destruct (transpile T G v); try discriminate. injection H as <-. exact I.
    - intros v IHv G e' Hc H. cbn [transpile] in H.
      destruct (transpile T G v); try discriminate. injection H as <-. exact I.
    - intros v IHv G e' Hc H. cbn [transpile] in H.
      destruct (transpile T G v); try discriminate. injection H as <-. exact I.
    - (* And *)
      intros vs IHvs G e' Hc H. cbn [transpile] in H.
      match type of H with match ?s with _ => _ end = _ => destruct s as [vs'| |] eqn:Hs; try discriminate end.
      destruct vs' as [|v' [|v2 vs']]; try discriminate.
      + injection H as <-. apply seq_map_singleton in Hs. destruct Hs as (x & -> & Hx).
        destruct (transpile T G x) as [x'| |] eqn:Ex; try discriminate. injection Hx as <-.
        apply head_ok_paren. inversion IHvs as [|? ? Hpx _]; subst. eapply Hpx; eassumption.
      + injection H as <-. exact I.
    - (* Or *)
      intros vs IHvs G e' Hc H. cbn [transpile] in H.
      match type of H with match ?s with _ => _ end = _ => destruct s as [vs'| |] eqn:Hs; try discriminate end.
      destruct vs' as [|v' [|v2 vs']]; try discriminate.
      + injection H as <-. apply seq_map_singleton in Hs. destruct Hs as (x & -> & Hx).
        destruct (transpile T G x) as [x'| |] eqn:Ex; try discriminate. injection Hx as <-.
        apply head_ok_paren. inversion IHvs as [|? ? Hpx _]; subst. eapply Hpx; eassumption.
      + injection H as <-. exact I.
    - intros a c IHa IHc G e' Hc H. cbn [transpile] in H.
      destruct (transpile T G a); try discriminate. destruct (transpile T G c); try discriminate.
      injection H as <-. exact I.
    - (* FunctionCall *)
      intros f args IHargs G e' Hc H. cbn [transpile] in H.
      destruct (seq_map (transpile T G) args) as [args'| |]; try discriminate.
      destruct Hc as (Ht & Hd & Hrf & Hrl & Hra).
      destruct (lookup f (g_fns G)) as [tf|] eqn:Hf.
      + destruct (transpile_name G f) as [f'| |] eqn:Hn; try discriminate. injection H as <-.
        destruct (fn_name_shape nm G f tf f' Ht Hd Hf Hn) as [[-> Hlv]|[(pa & -> & Hpa)| ->]]; cbn.
        * apply Hrl. exact Hlv.
        * eapply Hra. exact Hpa.
        * eapply Hrf. exact Hf.
      + destruct (is_len f); try discriminate.
        destruct args' as [|a' [|a2 args']]; try discriminate. injection H as <-. reflexivity.
    - (* MethodCall *)
      intros i m args IHi IHargs G e' Hc H. cbn [transpile] in H.
      destruct (transpile T G i); try discriminate.
      destruct (seq_map (transpile T G) args); try discriminate.
      destruct (pyname G NMethod m); try discriminate. injection H as <-. exact I.
    - intros l r IHl IHr G e' Hc H. cbn [transpile] in H.
      destruct (transpile T G l); try discriminate. destruct (transpile T G r); try discriminate.
      injection H as <-. exact I.
    - intros l r IHl IHr G e' Hc H. cbn [transpile] in H.
      destruct (transpile T G l); try discriminate. destruct (transpile T G r); try discriminate.
      injection H as <-. exact I.
    - (* Any *)
      intros x g c IHg IHc G e' Hc H. cbn [transpile] in H.
      match type of H with match ?s with _ => _ end = _ => destruct s; try discriminate end.
      match type of H with match ?s with _ => _ end = _ => destruct s; try discriminate end.
      match type of H with match ?s with _ => _ end = _ => destruct s; try discriminate end.
      injection H as <-. reflexivity.
    - (* All *)
      intros x g c IHg IHc G e' Hc H. cbn [transpile] in H.
      match type of H with match ?s with _ => _ end = _ => destruct s; try discriminate end.
      match type of H with match ?s with _ => _ end = _ => destruct s; try discriminate end.
      match type of H with match ?s with _ => _ end = _ => destruct s; try discriminate end.
      injection H as <-. reflexivity.
    - (* JoinedStr *)
      intros ps IHps G e' Hc H. cbn [transpile] in H.
      match type of H with (if ?c then _ else _) = _ => destruct c end.
      + injection H as <-. exact I.
      + match type of H with match ?s with _ => _ end = _ => destruct s; try discriminate end.
        injection H as <-. exact I.
  Qed.
End Head.

Lemma member_name_nm nm G i n p :
  table_ok nm G -> member_name G i n = Ok p -> p = nm_member nm n.
Proof.
  intros Ht H. unfold member_name in H.
  repeat match type of H with
         | pyname _ ?k _ = Ok _ => apply (pyname_nm nm) in H; [exact H | exact Ht]
         | context [match ty_of ?a ?b with _ => _ end] => destruct (ty_of a b)
         | context [match lookup ?a ?b with _ => _ end] => destruct (lookup a b)
         | context [let (_, _) := ?pr in _] => destruct pr
         | context [if ?c then _ else _] => destruct c
         end; try discriminate H.
Qed.

Section Sound.
  Variable nm : naming.
  Hypothesis Hok : naming_ok nm.
  Variable T : ptables.
  Hypothesis HT : cmp_map_sound T = true.
  Variable fuel : nat.

  Definition tsound (e : expr) : Prop :=
    forall G e' r r', ctx_ok nm G -> (forall x, In x (bvars e) -> var_ok nm G x) ->
      env_rel nm G r r' -> transpile T G e = Ok e' ->
      eval_py r' e' fuel = ren_result nm (eval r e fuel).

  Lemma tsound_Member i n : tsound i -> tsound (Member i n).
  Proof.
    intros IHi G e' r r' Hc Hv Hr H. cbn [transpile] in H.
    destruct (transpile T G i) as [i'| |] eqn:Ei; try discriminate.
    destruct (member_name G i n) as [p| |] eqn:Ep; try discriminate. injection H as <-.
    assert (Hp : p = nm_member nm n) by (eapply member_name_nm; [apply Hc | exact Ep]).
    subst p. cbn [eval_py eval]. rewrite (IHi G i' r r' Hc Hv Hr Ei).
    destruct (eval r i fuel) as [v|x]; [|reflexivity]. cbn [ren_result].
    destruct v as [ | vb | vz | vq | vs | vbs | vl | vl | ven vlit | oid cls fs | vf | ven ];
      cbn [ren_value]; try reflexivity.
    (* enumeration literal / enumeration class: the members are the literals *)
    all: try solve [ rewrite (er_enum_lits _ _ _ _ Hr), (ren_mem_member nm Hok);
                     match goal with |- context [if mem_text ?a ?l then _ else _] => destruct (mem_text a l) end;
                     reflexivity ].
    (* object: the members are the fields *)
    fold (ren_fields nm fs). rewrite (ren_lookup_member nm Hok).
    destruct (lookup n fs); reflexivity.
  Qed.

  Lemma tsound_Name x : tsound (Name x).
  Proof.
    intros G e' r r' Hc Hv Hr H. cbn [transpile] in H.
    destruct Hc as (Ht & _). apply (name_sound nm G x e' r r' fuel Ht Hr H).
  Qed.

  Lemma tsound_Constant c : tsound (Constant c).
  Proof.
    intros G e' r r' Hc Hv Hr H. cbn [transpile] in H. injection H as <-.
    destruct c; cbn [target_const eval]; try reflexivity.
    - destruct (z <? 0); cbn; rewrite ?Z.opp_involutive; reflexivity.
    - destruct (q <? 0); cbn; rewrite ?Z.opp_involutive; reflexivity.
  Qed.

  Lemma bv_l (a b : list text) (P : text -> Prop) :
    (forall x, In x (a ++ b) -> P x) -> forall x, In x a -> P x.
  Proof. intros H x Hx. apply H. apply in_or_app. left. exact Hx. Qed.
  Lemma bv_r (a b : list text) (P : text -> Prop) :
    (forall x, In x (a ++ b) -> P x) -> forall x, In x b -> P x.
  Proof. intros H x Hx. apply H. apply in_or_app. right. exact Hx. Qed.

  Lemma tsound_Index c i : tsound c -> tsound i -> tsound (Index c i).
  Proof.
    intros IHc IHi G e' r r' Hc Hv Hr H. cbn [transpile] in H. cbn [bvars] in Hv.
    destruct (transpile T G c) as [c'| |] eqn:Ec; try discriminate.
    destruct (transpile T G i) as [i'| |] eqn:Ei; try discriminate. injection H as <-.
    cbn [eval_py eval]. rewrite eval_py_paren_unless.
    rewrite (IHc G c' r r' Hc (bv_l _ _ _ Hv) Hr Ec), (IHi G i' r r' Hc (bv_r _ _ _ Hv) Hr Ei).
    destruct (eval r c fuel) as [vc|x]; [|reflexivity].
    destruct (eval r i fuel) as [vi|x]; [|reflexivity]. cbn [ren_result]. apply ren_py_index.
  Qed.

  Lemma tsound_Comparison op l r0 : tsound l -> tsound r0 -> tsound (Comparison op l r0).
  Proof.
    intros IHl IHr G e' r r' Hc Hv Hr H. cbn [transpile] in H. cbn [bvars] in Hv.
    destruct (cmp_target T op) as [o| |] eqn:Eo; try discriminate.
    destruct (transpile T G l) as [l'| |] eqn:El; try discriminate.
    destruct (transpile T G r0) as [r0'| |] eqn:Er; try discriminate. injection H as <-.
    cbn [eval_py eval map fst snd cmp_chain]. rewrite !eval_py_paren_unless.
    rewrite (IHl G l' r r' Hc (bv_l _ _ _ Hv) Hr El), (IHr G r0' r r' Hc (bv_r _ _ _ Hv) Hr Er).
    destruct (eval r l fuel) as [vl|x]; [|reflexivity].
    destruct (eval r r0 fuel) as [vr|x]; [|reflexivity]. cbn [ren_result].
    rewrite (cmp1_cmpop o op _ _ (cmp_sound_spec T op o HT Eo)).
    rewrite (ren_py_compare nm Hok). destruct (py_compare op vl vr); reflexivity.
  Qed.

  Lemma tsound_IsIn m c : tsound m -> tsound c -> tsound (IsIn m c).
  Proof.
    intros IHm IHc G e' r r' Hc Hv Hr H. cbn [transpile] in H. cbn [bvars] in Hv.
    destruct (transpile T G m) as [m'| |] eqn:Em; try discriminate.
    destruct (transpile T G c) as [c'| |] eqn:Ec; try discriminate. injection H as <-.
    cbn [eval_py eval map fst snd cmp_chain]. rewrite !eval_py_paren_unless.
    rewrite (IHm G m' r r' Hc (bv_l _ _ _ Hv) Hr Em), (IHc G c' r r' Hc (bv_r _ _ _ Hv) Hr Ec).
    destruct (eval r m fuel) as [vm|x]; [|reflexivity].
    destruct (eval r c fuel) as [vc|x]; [|reflexivity]. cbn [ren_result cmp1].
    rewrite (ren_py_in nm Hok). destruct (py_in vm vc); reflexivity.
  Qed.

  Lemma tsound_IsNone v : tsound v -> tsound (IsNone v).
  Proof.
    intros IHv G e' r r' Hc Hv Hr H. cbn [transpile] in H. cbn [bvars] in Hv.
    destruct (transpile T G v) as [v'| |] eqn:Ev; try discriminate. injection H as <-.
    cbn [eval_py eval map fst snd cmp_chain const_value]. rewrite !eval_py_paren_unless.
    rewrite (IHv G v' r r' Hc Hv Hr Ev).
    destruct (eval r v fuel) as [w|x]; [|reflexivity]. cbn [ren_result cmp1].
    rewrite ren_is_none. reflexivity.
  Qed.

  Lemma tsound_IsNotNone v : tsound v -> tsound (IsNotNone v).
  Proof.
    intros IHv G e' r r' Hc Hv Hr H. cbn [transpile] in H. cbn [bvars] in Hv.
    destruct (transpile T G v) as [v'| |] eqn:Ev; try discriminate. injection H as <-.
    cbn [eval_py eval map fst snd cmp_chain const_value]. rewrite !eval_py_paren_unless.
    rewrite (IHv G v' r r' Hc Hv Hr Ev).
    destruct (eval r v fuel) as [w|x]; [|reflexivity]. cbn [ren_result cmp1].
    rewrite ren_is_none. reflexivity.
  Qed.

  Lemma tsound_Not v : tsound v -> tsound (Not v).
  Proof.
    intros IHv G e' r r' Hc Hv Hr H. cbn [transpile] in H. cbn [bvars] in Hv.
    destruct (transpile T G v) as [v'| |] eqn:Ev; try discriminate. injection H as <-.
    cbn [eval_py eval]. rewrite !eval_py_paren_unless. rewrite (IHv G v' r r' Hc Hv Hr Ev).
    destruct (eval r v fuel) as [w|x]; [|reflexivity]. cbn [ren_result].
    rewrite ren_truthy. reflexivity.
  Qed.

  Lemma tsound_Implication a c : tsound a -> tsound c -> tsound (Implication a c).
  Proof.
    intros IHa IHc G e' r r' Hc Hv Hr H. cbn [transpile] in H. cbn [bvars] in Hv.
    destruct (transpile T G a) as [a'| |] eqn:Ea; try discriminate.
    destruct (transpile T G c) as [c'| |] eqn:Ec; try discriminate. injection H as <-.
    cbn [eval_py eval map or_results]. rewrite !eval_py_paren_unless.
    rewrite (IHa G a' r r' Hc (bv_l _ _ _ Hv) Hr Ea), (IHc G c' r r' Hc (bv_r _ _ _ Hv) Hr Ec).
    destruct (eval r a fuel) as [va|x]; [|reflexivity]. cbn [ren_result truthy].
    rewrite ren_truthy. destruct (truthy va); cbn [negb].
    - destruct (eval r c fuel); reflexivity.
    - reflexivity.
  Qed.

  Lemma tsound_Arith (add : bool) l r0 :
    tsound l -> tsound r0 -> tsound (if add then Add l r0 else Sub l r0).
  Proof.
    intros IHl IHr G e' r r' Hc Hv Hr H.
    assert (Hv' : forall x, In x (bvars l ++ bvars r0) -> var_ok nm G x) by (destruct add; exact Hv).
    assert (H' : match transpile T G l with
                 | Ok l' => match transpile T G r0 with
                            | Ok r' => Ok (PBinOp (if add then OAdd else OSub)
                                             (paren_unless (nk_in (nk_of l) (np_add_sub T)) l')
                                             (paren_unless (nk_in (nk_of r0) (np_add_sub T)) r'))
                            | Err x => Err x | Crash k => Crash k
                            end
                 | Err x => Err x | Crash k => Crash k
                 end = Ok e') by (destruct add; exact H).
    clear H.
    destruct (transpile T G l) as [l'| |] eqn:El; try discriminate.
    destruct (transpile T G r0) as [r0'| |] eqn:Er; try discriminate. injection H' as <-.
    cbn [eval_py]. rewrite !eval_py_paren_unless.
    rewrite (IHl G l' r r' Hc (bv_l _ _ _ Hv') Hr El), (IHr G r0' r r' Hc (bv_r _ _ _ Hv') Hr Er).
    destruct add; cbn [eval];
      (destruct (eval r l fuel) as [vl|x]; [|reflexivity]);
      (destruct (eval r r0 fuel) as [vr|x]; [|reflexivity]); cbn [ren_result]; apply ren_py_arith.
  Qed.

  (** *** Lists of sub-expressions *)
  Lemma tsound_list vs : Forall tsound vs ->
    forall G r r' (F : expr -> outcome pyast unit) vs',
    ctx_ok nm G -> (forall x, In x (flat_map bvars vs) -> var_ok nm G x) -> env_rel nm G r r' ->
    (forall v y, F v = Ok y ->
       exists v', transpile T G v = Ok v' /\ eval_py r' y fuel = eval_py r' v' fuel) ->
    seq_map F vs = Ok vs' ->
    map (fun a => eval_py r' a fuel) vs' = map (ren_result nm) (map (fun v => eval r v fuel) vs).
  Proof.
    intros IH G r r' F vs' Hc Hv Hr HF Hs. rewrite map_map.
    apply (seq_map_map F (fun a => eval_py r' a fuel) (fun v => ren_result nm (eval r v fuel)) vs vs' Hs).
    intros x y Hin Hx. destruct (HF x y Hx) as (v' & Hv' & ->).
    rewrite Forall_forall in IH. apply (IH x Hin G v' r r' Hc); [|exact Hr|exact Hv'].
    intros z Hz. apply Hv. apply in_flat_map. exists x. split; assumption.
  Qed.

  Lemma tsound_BoolOp (is_and : bool) vs :
    Forall tsound vs -> tsound (if is_and then And vs else Or vs).
  Proof.
    intros IH G e' r r' Hc Hv Hr H.
    assert (Hv' : forall x, In x (flat_map bvars vs) -> var_ok nm G x) by (destruct is_and; exact Hv).
    set (F := fun v => match transpile T G v with
                       | Ok v' => Ok (paren_unless (nk_in (nk_of v) (np_and_or T)) v')
                       | Err x => Err x | Crash k => Crash k
                       end).
    assert (H' : match seq_map F vs with
                 | Ok vs' => match vs' with
                             | [] => Crash AssertionError
                             | [v'] => Ok v'
                             | _ => Ok (PParen (PBoolOp (if is_and then BAnd else BOr) vs'))
                             end
                 | Err x => Err x | Crash k => Crash k
                 end = Ok e') by (destruct is_and; exact H).
    clear H.
    destruct (seq_map F vs) as [vs'| |] eqn:Hs; try discriminate.
    assert (Hmap := tsound_list vs IH G r r' F vs' Hc Hv' Hr).
    assert (HF : forall v y, F v = Ok y ->
               exists v', transpile T G v = Ok v' /\ eval_py r' y fuel = eval_py r' v' fuel).
    { intros v y Hy. unfold F in Hy. destruct (transpile T G v) as [v'| |]; try discriminate.
      injection Hy as <-. exists v'. split; [reflexivity | apply eval_py_paren_unless]. }
    specialize (Hmap HF Hs).
    destruct vs' as [|v' [|v2 vs']]; try discriminate.
    - injection H' as <-.
      destruct vs as [|v [|v2 vs]]; cbn [map] in Hmap; try discriminate.
      injection Hmap as Hm. rewrite Hm.
      destruct is_and; cbn [eval map and_results or_results]; rewrite result_eta; reflexivity.
    - injection H' as <-. cbn [eval_py].
      destruct is_and; cbn [eval]; rewrite Hmap; [apply ren_and_results | apply ren_or_results].
  Qed.

  Lemma eval_py_call_name' r id args :
    (forall elt gens, args <> [PGeneratorExp elt gens]) ->
    eval_py r (PCall (PName id) args 0) fuel =
    match lookup id (vars r) with
    | None => Raise NameErr
    | Some fv =>
        match args_results (map (fun x => eval_py r x fuel) args) with
        | LRaise x => Raise x
        | LVal vs =>
            match fv with
            | VFun g => if text_eqb g (s2l "len") then py_len vs else fn_impl r g vs
            | VNone => Raise NoneDeref
            | _ => Raise TypeErr
            end
        end
    end.
  Proof.
    intros Hng. destruct args as [|garg [|a2 args]]; try reflexivity.
    destruct garg; try reflexivity. exfalso. eapply Hng. reflexivity.
  Qed.

  Lemma args_not_genexp G args args' :
    ctx_ok nm G -> seq_map (transpile T G) args = Ok args' ->
    forall elt gens, args' <> [PGeneratorExp elt gens].
  Proof.
    intros Hc Hs elt gens ->. apply seq_map_singleton in Hs. destruct Hs as (x & _ & Hx).
    apply (transpile_head nm T x G _ Hc Hx).
  Qed.

  Lemma call_value_sound r r' p f args' args :
    (forall g vs, fn_impl r' (nm_fn nm g) (map (ren_value nm) vs) = ren_result nm (fn_impl r g vs)) ->
    (forall elt gens, args' <> [PGeneratorExp elt gens]) ->
    lookup p (vars r') = option_map (ren_value nm) (lookup f (vars r)) ->
    map (fun a => eval_py r' a fuel) args' = map (ren_result nm) (map (fun v => eval r v fuel) args) ->
    eval_py r' (PCall (PName p) args' 0) fuel = ren_result nm (eval r (FunctionCall f args) fuel).
  Proof.
    intros Himpl Hng Hl Hmap. rewrite (eval_py_call_name' r' p args' Hng). cbn [eval].
    rewrite Hl, Hmap, ren_args_results.
    destruct (lookup f (vars r)) as [fv|]; cbn [option_map]; [|reflexivity].
    destruct (args_results (map (fun v => eval r v fuel) args)) as [vs|x]; cbn [ren_lres]; [|reflexivity].
    destruct fv as [ | vb | vz | vq | vs0 | vbs | vl | vl | ven vlit | oid cls fs | g | ven ];
      cbn [ren_value ren_result]; try reflexivity.
    rewrite (fn_len nm Hok). destruct (text_eqb g (s2l "len")); [apply ren_py_len | apply Himpl].
  Qed.

  Lemma tsound_FunctionCall f args : Forall tsound args -> tsound (FunctionCall f args).
  Proof.
    intros IH G e' r r' Hc Hv Hr H. cbn [transpile] in H. cbn [bvars] in Hv.
    destruct (seq_map (transpile T G) args) as [args'| |] eqn:Hs; try discriminate.
    assert (Hmap := tsound_list args IH G r r' (transpile T G) args' Hc Hv Hr).
    assert (HF : forall v y, transpile T G v = Ok y ->
               exists v', transpile T G v = Ok v' /\ eval_py r' y fuel = eval_py r' v' fuel).
    { intros v y Hy. exists y. split; [exact Hy | reflexivity]. }
    specialize (Hmap HF Hs).
    pose proof (args_not_genexp G args args' Hc Hs) as Hng.
    destruct (lookup f (g_fns G)) as [tf|] eqn:Hf.
    - destruct (transpile_name G f) as [f'| |] eqn:Hn; try discriminate. injection H as <-.
      destruct Hc as (Ht & Hd & _).
      destruct (fn_name_sound nm G f tf f' r r' Ht Hd Hr Hf Hn) as (p & -> & Hl).
      apply (call_value_sound r r' p f args' args (er_fn_impl _ _ _ _ Hr) Hng Hl Hmap).
    - destruct (is_len f) eqn:Hlen; try discriminate.
      destruct args' as [|a' [|a2 args']]; try discriminate. injection H as <-.
      unfold is_len in Hlen. apply teqb_eq in Hlen. subst f.
      apply (call_value_sound r r' _ _ [a'] args (er_fn_impl _ _ _ _ Hr) Hng).
      + pose proof (er_len _ _ _ _ Hr) as Hl. norm_s2l_in Hl. norm_s2l. exact Hl.
      + exact Hmap.
  Qed.

  Lemma tsound_MethodCall i m args : tsound i -> Forall tsound args -> tsound (MethodCall i m args).
  Proof.
    intros IHi IH G e' r r' Hc Hv Hr H. cbn [transpile] in H. cbn [bvars] in Hv.
    destruct (transpile T G i) as [i'| |] eqn:Ei; try discriminate.
    destruct (seq_map (transpile T G) args) as [args'| |] eqn:Hs; try discriminate.
    destruct (pyname G NMethod m) as [p| |] eqn:Hp; try discriminate. injection H as <-.
    assert (Hmap := tsound_list args IH G r r' (transpile T G) args' Hc (bv_r _ _ _ Hv) Hr).
    assert (HF : forall v y, transpile T G v = Ok y ->
               exists v', transpile T G v = Ok v' /\ eval_py r' y fuel = eval_py r' v' fuel).
    { intros v y Hy. exists y. split; [exact Hy | reflexivity]. }
    specialize (Hmap HF Hs).
    apply (pyname_nm nm) in Hp; [|apply Hc]. cbn [nm_of] in Hp. subst p.
    rewrite eval_py_call_meth, eval_py_paren_unless.
    rewrite (IHi G i' r r' Hc (bv_l _ _ _ Hv) Hr Ei). cbn [eval].
    destruct (eval r i fuel) as [v|x]; [|reflexivity]. cbn [ren_result].
    destruct v as [ | vb | vz | vq | vs0 | vbs | vl | vl | ven vlit | oid cls fs | vf | ven ];
      cbn [ren_value]; try reflexivity.
    fold (ren_fields nm fs). rewrite Hmap, ren_args_results.
    destruct (args_results (map (fun v => eval r v fuel) args)) as [vs|x]; cbn [ren_lres]; [|reflexivity].
    rewrite (ren_lookup_member nm Hok). destruct (lookup m fs) as [w|]; cbn [option_map].
    - destruct w; reflexivity.
    - apply (er_meth_impl _ _ _ _ Hr).
  Qed.

  (** *** Quantifiers *)
  Lemma loopvar_name G x t v' :
    table_ok nm G -> transpile_name (push_var G x t) x = Ok v' -> v' = PName (nm_var nm x).
  Proof.
    intros Ht H. unfold transpile_name in H. cbn [push_var g_loopvars g_naming mem_text] in H.
    rewrite teqb_refl in H. cbn [orb] in H.
    destruct (pyname (push_var G x t) NVar x) as [p| |] eqn:Hp; try discriminate.
    destruct (g_check_reserved (push_var G x t) && reserved_var p); try discriminate. injection H as <-.
    apply (pyname_nm nm) in Hp; [|exact Ht]. cbn in Hp. subst p. reflexivity.
  Qed.

  Lemma py_items_plain r b it : head_ok it ->
    py_items r fuel (paren_unless b it) = gen_items fuel (ForEach (eval_py r it fuel)).
  Proof.
    intros Hh. destruct b; [|reflexivity]. cbn [paren_unless].
    destruct it; try reflexivity. destruct it; try reflexivity.
    cbn in Hh. unfold py_items. rewrite Hh. reflexivity.
  Qed.

  Lemma py_items_range r rg a b : is_range rg = true ->
    py_items r fuel (PCall (PName rg) [a; b] 0) =
    gen_items fuel (ForRange (eval_py r a fuel) (eval_py r b fuel)).
  Proof. intros H. unfold py_items. rewrite H. reflexivity. Qed.

  Lemma quant_body_sound (is_all : bool) G x vt c c' r r' items :
    tsound c -> ctx_ok nm G -> var_ok nm G x ->
    (forall y, In y (bvars c) -> var_ok nm G y) -> env_rel nm G r r' ->
    transpile T (push_var G x vt) c = Ok c' ->
    (let rs := map (fun item => eval_py (bind_var (nm_var nm x) item r') c' fuel)
                   (map (ren_value nm) items) in
     if is_all then all_results rs else any_results rs) =
    ren_result nm (if is_all then all_results (map (fun it => eval (bind_var x it r) c fuel) items)
                   else any_results (map (fun it => eval (bind_var x it r) c fuel) items)).
  Proof.
    intros IHc Hc Hx Hv Hr Ec. cbv zeta. rewrite map_map.
    rewrite (map_ext _ (fun item => ren_result nm (eval (bind_var x item r) c fuel))).
    2:{ intros item. apply (IHc (push_var G x vt) c' _ _ (ctx_ok_push nm G x vt Hc Hx)); [exact Hv| |exact Ec].
        apply (env_rel_push nm Hok G x vt item r r'); [exact Hx | exact Hr]. }
    rewrite <- (map_map (fun it => eval (bind_var x it r) c fuel) (ren_result nm)).
    destruct is_all; [apply ren_all_results | apply ren_any_results].
  Qed.

  Lemma tsound_Quant (is_all : bool) x g c :
    gen_all tsound g -> tsound c -> tsound (if is_all then All x g c else Any x g c).
  Proof.
    intros IHg IHc G e' r r' Hc Hv Hr H.
    assert (Hv' : forall y, In y (x :: match g with ForEach i => bvars i | ForRange a b => bvars a ++ bvars b end
                                   ++ bvars c) -> var_ok nm G y) by (destruct is_all; exact Hv).
    clear Hv.
    assert (Hx : var_ok nm G x) by (apply Hv'; left; reflexivity).
    assert (Hvc : forall y, In y (bvars c) -> var_ok nm G y).
    { intros y Hy. apply Hv'. right. apply in_or_app. right. exact Hy. }
    set (qual := if is_all then s2l "all" else s2l "any").
    assert (Hq : is_any_all qual = Some is_all) by (destruct is_all; reflexivity).
    destruct g as [it|a b].
    - (* for x in <iterable> *)
      set (G' := push_var G x (item_ty (ty_of G it))).
      assert (H' : match transpile T G it with
                   | Ok it' =>
                       match transpile T G' c with
                       | Ok c' => match transpile_name G' x with
                                  | Ok v' => Ok (PCall (PName qual)
                                                   [PGeneratorExp c' [(v', paren_unless (nk_in (nk_of it) (np_any_all T)) it', [])]] 0)
                                  | Err y => Err y | Crash k => Crash k
                                  end
                       | Err y => Err y | Crash k => Crash k
                       end
                   | Err y => Err y | Crash k => Crash k
                   end = Ok e').
      { destruct is_all; cbn [transpile] in H; fold G' in H;
          destruct (transpile T G it); try discriminate H; exact H. }
      clear H.
      destruct (transpile T G it) as [it'| |] eqn:Eit; try discriminate.
      destruct (transpile T G' c) as [c'| |] eqn:Ec; try discriminate.
      destruct (transpile_name G' x) as [v'| |] eqn:Ex; try discriminate. injection H' as <-.
      apply (loopvar_name G x _ v') in Ex; [|apply Hc]. subst v'.
      rewrite (eval_py_anyall r' qual is_all c' (nm_var nm x) _ fuel Hq).
      rewrite (py_items_plain r' _ it' (transpile_head nm T it G it' Hc Eit)).
      cbn [gen_all] in IHg.
      rewrite (IHg G it' r r' Hc).
      2:{ intros y Hy. apply Hv'. right. apply in_or_app. left. exact Hy. }
      2: exact Hr. 2: exact Eit.
      change (ForEach (ren_result nm (eval r it fuel))) with (ren_gen nm (ForEach (eval r it fuel))).
      rewrite ren_gen_items.
      assert (Hsrc : eval r (if is_all then All x (ForEach it) c else Any x (ForEach it) c) fuel =
                     match gen_items fuel (ForEach (eval r it fuel)) with
                     | inr ex => Raise ex
                     | inl items => if is_all then all_results (map (fun i0 => eval (bind_var x i0 r) c fuel) items)
                                    else any_results (map (fun i0 => eval (bind_var x i0 r) c fuel) items)
                     end).
      { destruct is_all; cbn [eval]; destruct (gen_items fuel (ForEach (eval r it fuel))); reflexivity. }
      rewrite Hsrc.
      destruct (gen_items fuel (ForEach (eval r it fuel))) as [items|ex]; cbn [ren_items]; [|reflexivity].
      apply (quant_body_sound is_all G x _ c c' r r' items IHc Hc Hx Hvc Hr Ec).
    - (* for x in range(a, b) *)
      set (G' := push_var G x TyOther).
      assert (H' : match transpile T G a with
                   | Ok a' =>
                       match transpile T G b with
                       | Ok b' =>
                           match transpile T G' c with
                           | Ok c' => match transpile_name G' x with
                                      | Ok v' => Ok (PCall (PName qual)
                                                       [PGeneratorExp c' [(v', PCall (PName (s2l "range")) [a'; b'] 0, [])]] 0)
                                      | Err y => Err y | Crash k => Crash k
                                      end
                           | Err y => Err y | Crash k => Crash k
                           end
                       | Err y => Err y | Crash k => Crash k
                       end
                   | Err y => Err y | Crash k => Crash k
                   end = Ok e').
      { destruct is_all; cbn [transpile] in H; fold G' in H;
          destruct (transpile T G a); try discriminate H;
          destruct (transpile T G b); try discriminate H; exact H. }
      clear H.
      destruct (transpile T G a) as [a'| |] eqn:Ea; try discriminate.
      destruct (transpile T G b) as [b'| |] eqn:Eb; try discriminate.
      destruct (transpile T G' c) as [c'| |] eqn:Ec; try discriminate.
      destruct (transpile_name G' x) as [v'| |] eqn:Ex; try discriminate. injection H' as <-.
      apply (loopvar_name G x _ v') in Ex; [|apply Hc]. subst v'.
      rewrite (eval_py_anyall r' qual is_all c' (nm_var nm x) _ fuel Hq).
      rewrite py_items_range by reflexivity.
      cbn [gen_all] in IHg. destruct IHg as [IHa IHb].
      rewrite (IHa G a' r r' Hc), (IHb G b' r r' Hc); try exact Hr; try assumption.
      2:{ intros y Hy. apply Hv'. right. apply in_or_app. left. apply in_or_app. right. exact Hy. }
      2:{ intros y Hy. apply Hv'. right. apply in_or_app. left. apply in_or_app. left. exact Hy. }
      change (ForRange (ren_result nm (eval r a fuel)) (ren_result nm (eval r b fuel)))
        with (ren_gen nm (ForRange (eval r a fuel) (eval r b fuel))).
      rewrite ren_gen_items.
      assert (Hsrc : eval r (if is_all then All x (ForRange a b) c else Any x (ForRange a b) c) fuel =
                     match gen_items fuel (ForRange (eval r a fuel) (eval r b fuel)) with
                     | inr ex => Raise ex
                     | inl items => if is_all then all_results (map (fun i0 => eval (bind_var x i0 r) c fuel) items)
                                    else any_results (map (fun i0 => eval (bind_var x i0 r) c fuel) items)
                     end).
      { destruct is_all; cbn [eval];
          destruct (gen_items fuel (ForRange (eval r a fuel) (eval r b fuel))); reflexivity. }
      rewrite Hsrc.
      destruct (gen_items fuel (ForRange (eval r a fuel) (eval r b fuel))) as [items|ex];
        cbn [ren_items]; [|reflexivity].
      apply (quant_body_sound is_all G x _ c c' r r' items IHc Hc Hx Hvc Hr Ec).
  Qed.

  (** *** f-strings *)
  Definition lit_of (p : jpart expr) : text := match p with JLit s => s | JFmt _ => [] end.

  Lemma joined_lits_args r ps :
    forallb (fun p => match p with JLit _ => true | JFmt _ => false end) ps = true ->
    args_results (map (fun p => match p with JLit s => Val (VStr s) | JFmt a => eval r a fuel end) ps)
    = LVal (map (fun p => VStr (lit_of p)) ps).
  Proof.
    induction ps as [|p ps IH]; intros H; [reflexivity|].
    cbn [forallb] in H. apply andb_true_iff in H. destruct H as [Hp Hps].
    destruct p as [s|a]; try discriminate. cbn [map args_results]. rewrite (IH Hps). reflexivity.
  Qed.

  Lemma joined_lits_str ps :
    flat_map py_str (map (fun p => VStr (lit_of p)) ps) = flat_map lit_of ps.
  Proof. induction ps as [|p ps IH]; [reflexivity|]. cbn [map flat_map py_str]. rewrite IH. reflexivity. Qed.

  Lemma tsound_JoinedStr ps : Forall (jpart_all tsound) ps -> tsound (JoinedStr ps).
  Proof.
    intros IH G e' r r' Hc Hv Hr H. cbn [transpile] in H. cbn [bvars] in Hv.
    destruct (forallb (fun p => match p with JLit _ => true | JFmt _ => false end) ps) eqn:Hall.
    - injection H as <-. cbn [eval_py const_value eval]. unfold join_results.
      rewrite (joined_lits_args r ps Hall), joined_lits_str. reflexivity.
    - match type of H with match seq_map ?F ps with _ => _ end = _ => set (F0 := F) in H end.
      destruct (seq_map F0 ps) as [ps'| |] eqn:Hs; try discriminate. injection H as <-.
      cbn [eval_py eval].
      match goal with |- join_results (map ?g ps') = _ => set (g0 := g) end.
      match goal with |- _ = ren_result nm (join_results (map ?h ps)) => set (h0 := h) end.
      assert (Hmap : map g0 ps' = map (fun p => ren_result nm (h0 p)) ps).
      { apply (seq_map_map F0 g0 (fun p => ren_result nm (h0 p)) ps ps' Hs).
        intros p y Hin Hp. unfold F0 in Hp. destruct p as [s|a].
        - injection Hp as <-. reflexivity.
        - destruct (transpile T G a) as [a'| |] eqn:Ea; try discriminate. injection Hp as <-.
          unfold g0, h0. cbn.
          rewrite Forall_forall in IH. apply (IH (JFmt a) Hin G a' r r' Hc); [|exact Hr|exact Ea].
          intros z Hz. apply Hv. apply in_flat_map. exists (JFmt a). split; assumption. }
      rewrite Hmap, <- (map_map h0 (ren_result nm)). apply ren_join_results.
  Qed.

  (** *** All expressions *)
  Theorem transpile_sound_rel : forall e, tsound e.
  Proof.
    apply (expr_ind2 tsound).
    - exact tsound_Member.
    - exact tsound_Name.
    - exact tsound_Constant.
    - exact tsound_Index.
    - exact tsound_Comparison.
    - exact tsound_IsIn.
    - exact tsound_IsNone.
    - exact tsound_IsNotNone.
    - exact tsound_Not.
    - exact (tsound_BoolOp true).
    - exact (tsound_BoolOp false).
    - exact tsound_Implication.
    - exact tsound_FunctionCall.
    - exact tsound_MethodCall.
    - exact (tsound_Arith true).
    - exact (tsound_Arith false).
    - exact (tsound_Quant false).
    - exact (tsound_Quant true).
    - exact tsound_JoinedStr.
  Qed.
End Sound.

(** ** The theorem *)

(** The expression written by the transpiler evaluates, in every SDK environment related to
    the meta-model environment, to the renamed result of the invariant: the same value up to
    the naming of identifiers, and the same exception. *)
Theorem transpile_sound :
  forall nm T G e e' r r' fuel,
    naming_ok nm -> cmp_map_sound T = true -> ctx_ok nm G ->
    (forall x, In x (bvars e) -> var_ok nm G x) ->
    env_rel nm G r r' ->
    transpile T G e = Ok e' ->
    eval_py r' e' fuel = ren_result nm (eval r e fuel).
Proof.
  intros nm T G e e' r r' fuel Hok HT Hc Hv Hr H.
  exact (transpile_sound_rel nm Hok T HT fuel e G e' r r' Hc Hv Hr H).
Qed.

(** Invariants are Boolean: whenever the invariant yields a Boolean or raises, the generated
    expression yields exactly the same Boolean / raises exactly the same exception. *)
Definition plain_result (x : pyresult) : Prop :=
  match x with Val (VBool _) | Val VNone | Val (VInt _) | Val (VFloat _) | Val (VStr _) | Val (VBytes _)
             | Raise _ => True | _ => False end.

Corollary transpile_sound_plain :
  forall nm T G e e' r r' fuel,
    naming_ok nm -> cmp_map_sound T = true -> ctx_ok nm G ->
    (forall x, In x (bvars e) -> var_ok nm G x) ->
    env_rel nm G r r' ->
    transpile T G e = Ok e' ->
    plain_result (eval r e fuel) ->
    eval_py r' e' fuel = eval r e fuel.
Proof.
  intros nm T G e e' r r' fuel Hok HT Hc Hv Hr H Hp.
  rewrite (transpile_sound nm T G e e' r r' fuel Hok HT Hc Hv Hr H).
  destruct (eval r e fuel) as [v|x]; [|reflexivity]. destruct v; try contradiction; reflexivity.
Qed.

(** The generated condition [if not (<expr>)]: an error is reported iff the invariant is falsy. *)
Corollary transpile_condition_sound :
  forall nm T G e c r r' fuel,
    naming_ok nm -> cmp_map_sound T = true -> ctx_ok nm G ->
    (forall x, In x (bvars e) -> var_ok nm G x) ->
    env_rel nm G r r' ->
    transpile_condition T G e = Ok c ->
    eval_py r' c fuel = match eval r e fuel with
                        | Val w => Val (VBool (negb (truthy w)))
                        | Raise x => Raise x
                        end.
Proof.
  intros nm T G e c r r' fuel Hok HT Hc Hv Hr H. unfold transpile_condition in H.
  destruct (transpile T G e) as [e'| |] eqn:E; try discriminate. injection H as <-.
  cbn [eval_py]. rewrite eval_py_paren_unless.
  rewrite (transpile_sound nm T G e e' r r' fuel Hok HT Hc Hv Hr E).
  destruct (eval r e fuel) as [w|x]; [|reflexivity]. cbn [ren_result]. rewrite ren_truthy. reflexivity.
Qed.

(** ** The identity naming: a computed SDK environment (non-vacuity of [env_rel]) *)
Lemma ren_value_id : forall v, ren_value nm_id v = v.
Proof.
  induction v using value_ind_nested; cbn [ren_value nm_id nm_member nm_enum nm_fn]; try reflexivity.
  - f_equal. induction H as [|x l Hx Hl IH]; [reflexivity|]. cbn [map]. rewrite Hx, IH. reflexivity.
  - f_equal. induction H as [|x l Hx Hl IH]; [reflexivity|]. cbn [map]. rewrite Hx, IH. reflexivity.
  - f_equal. induction H as [|x l Hx Hl IH]; [reflexivity|]. cbn [map]. rewrite Hx, IH.
    destruct x; reflexivity.
Qed.

Lemma map_ren_id vs : map (ren_value nm_id) vs = vs.
Proof. induction vs as [|v vs IH]; [reflexivity|]. cbn [map]. rewrite ren_value_id, IH. reflexivity. Qed.

Lemma ren_result_id x : ren_result nm_id x = x.
Proof. destruct x; [cbn; rewrite ren_value_id|]; reflexivity. Qed.

Lemma ren_fields_id fs : ren_fields nm_id fs = fs.
Proof.
  unfold ren_fields. induction fs as [|[n v] fs IH]; [reflexivity|]. cbn [map fst snd].
  rewrite ren_value_id, IH. reflexivity.
Qed.

Lemma option_map_ren_id (o : option value) : option_map (ren_value nm_id) o = o.
Proof. destruct o; [cbn; rewrite ren_value_id|]; reflexivity. Qed.

Lemma naming_ok_id : naming_ok nm_id.
Proof. constructor; try (intros a b H; exact H). intros f. reflexivity. Qed.

Lemma module_lookup names r c v :
  In c names -> lookup c (vars r) = Some v ->
  lookup c (flat_map (fun n => match lookup n (vars r) with Some w => [(n, w)] | None => [] end) names) = Some v.
Proof.
  induction names as [|n names IH]; intros Hin Hc; [contradiction|].
  cbn [flat_map]. destruct (text_eqb c n) eqn:E.
  - apply teqb_eq in E. subst n. rewrite Hc. cbn [app lookup]. rewrite teqb_refl. reflexivity.
  - destruct Hin as [->|Hin]; [rewrite teqb_refl in E; discriminate|].
    destruct (lookup n (vars r)); cbn [app lookup]; [rewrite E|]; apply IH; assumption.
Qed.

Lemma mem_text_In' x l : mem_text x l = true -> In x l.
Proof.
  induction l as [|y l IH]; cbn; intros H; [discriminate|].
  apply orb_true_iff in H. destruct H as [H|H]; [left; symmetry; apply teqb_eq; exact H | right; apply IH; exact H].
Qed.

Lemma lookup_In_fst {A} x (l : list (text * A)) a : lookup x l = Some a -> In x (map fst l).
Proof.
  induction l as [|[k b] l IH]; cbn; intros H; [discriminate|].
  destruct (text_eqb x k) eqn:E; [left; symmetry; apply teqb_eq; exact E | right; apply IH; exact H].
Qed.

Lemma env_rel_rename G r : env_fits G r -> env_rel nm_id G r (rename G r).
Proof.
  intros (Hlv & Hargs & (vs & Hself) & Hconsts & Henums & Hfns).
  assert (Hother : forall y, y <> s2l "that" -> y <> s2l "aas_types" -> y <> s2l "aas_constants" ->
                   lookup y (vars (rename G r)) = lookup y (vars r)).
  { intros y H1 H2 H3. unfold rename. cbn [vars]. rewrite Hself. cbn [app lookup].
    rewrite (teqb_neq _ _ H1), (teqb_neq _ _ H2), (teqb_neq _ _ H3). reflexivity. }
  constructor.
  - intros x Hx. rewrite Hlv in Hx. discriminate.
  - intros a p Ha _. rewrite Hargs in Ha. cbn [lookup] in Ha.
    destruct (text_eqb a (s2l "self")) eqn:Ea; [|discriminate]. injection Ha as <-.
    apply teqb_eq in Ea. subst a. unfold rename. cbn [vars]. rewrite Hself. cbn [app lookup].
    rewrite teqb_refl. rewrite option_map_ren_id. reflexivity.
  - intros c Hc _ _. destruct (Hconsts c Hc) as [v Hv].
    exists 0%nat, (s2l "module"),
      (flat_map (fun n => match lookup n (vars r) with Some w => [(n, w)] | None => [] end) (g_consts G)), v.
    split; [|split; [exact Hv|]].
    + unfold rename. cbn [vars]. rewrite Hself. reflexivity.
    + rewrite ren_value_id. apply module_lookup; [apply mem_text_In'; exact Hc | exact Hv].
  - intros f t Hf _ _. destruct (Hfns f t Hf) as (H1 & H2 & H3).
    cbn [nm_id nm_fn]. rewrite (Hother f H1 H2 H3), option_map_ren_id. reflexivity.
  - intros e ls He _ _. destruct (Henums e ls He) as [v Hv].
    exists 0%nat, (s2l "module"),
      (flat_map (fun n => match lookup n (vars r) with Some w => [(n, w)] | None => [] end) (map fst (g_enums G))), v.
    split; [|split; [exact Hv|]].
    + unfold rename. cbn [vars]. rewrite Hself. reflexivity.
    + rewrite ren_value_id. apply module_lookup; [eapply lookup_In_fst; exact He | exact Hv].
  - rewrite Hother, option_map_ren_id; [reflexivity| | |]; intros H; discriminate H.
  - intros g vs0. cbn [nm_id nm_fn]. rewrite map_ren_id, ren_result_id. reflexivity.
  - intros cls fs m vs0. cbn [nm_id nm_member]. rewrite ren_fields_id, map_ren_id, ren_result_id. reflexivity.
  - intros e. cbn [nm_id nm_enum nm_member]. rewrite map_id. reflexivity.
Qed.

(** With the identity naming: the generated expression, evaluated in the SDK environment
    [rename G r] ([that] for [self], the modules), has exactly the value of the invariant in
    [r], and raises exactly the same exception. *)
Theorem transpile_sound_rename :
  forall T G e e' r fuel,
    cmp_map_sound T = true -> ctx_ok nm_id G ->
    (forall x, In x (bvars e) -> var_ok nm_id G x) ->
    env_fits G r ->
    transpile T G e = Ok e' ->
    eval_py (rename G r) e' fuel = eval r e fuel.
Proof.
  intros T G e e' r fuel HT Hc Hv Hf H.
  rewrite (transpile_sound nm_id T G e e' r (rename G r) fuel naming_ok_id HT Hc Hv (env_rel_rename G r Hf) H).
  apply ren_result_id.
Qed.
