(** C26: position-level specification of the main loop of [_remove_noops_in_place]:
    where the statement carrying (the image of) each label ends up, relative to the
    no-ops that will be deleted. *)
From Coq Require Import List NArith Bool Arith Lia.
From Acg Require Import Base.Outcome Base.Str Model.Flow Model.Linear
  Proofs.LinearSem Proofs.LinearRaw Proofs.LinearPasses Proofs.LinearTargets Proofs.LinearPos.
Import ListNotations.
Open Scope nat_scope.

(** [Res cin cout t t']: the statement labelled [t] in [cin] (position [n1]) and the
    statement labelled [t'] in [cout] (position [n2]; the lists are aligned) are
    separated only by statements of [cout] that the final filter deletes — either
    forward, or (trailing block) [t'] sits on a kept no-op just before. *)
Definition Res (cin cout : list stmt) (t t' : nat) : Prop :=
  exists n1 n2 s s',
    nth_error cin n1 = Some s /\ s_label s = Some t /\
    nth_error cout n2 = Some s' /\ s_label s' = Some t' /\
    ((n1 <= n2 /\ forall j, n1 <= j < n2 -> unkept cout j)
     \/ (n2 < n1 /\ s_kind s' = KNoop /\ forall j, n2 < j <= n1 -> unkept cout j)).

Lemma unkept_shift : forall pre cout j, unkept cout j -> unkept (pre ++ cout) (length pre + j).
Proof.
  intros pre cout j [x [H K]]. exists x. split; [|exact K].
  rewrite nth_error_app2 by lia. replace (length pre + j - length pre) with j by lia. exact H.
Qed.

Lemma Res_shift : forall pre pre' cin cout t t', length pre = length pre' ->
  Res cin cout t t' -> Res (pre ++ cin) (pre' ++ cout) t t'.
Proof.
  intros pre pre' cin cout t t' Hl [n1 [n2 [s [s' [H1 [L1 [H2 [L2 Hc]]]]]]]].
  exists (length pre + n1), (length pre + n2), s, s'.
  split; [rewrite nth_error_app2 by lia; replace (length pre + n1 - length pre) with n1 by lia; exact H1|].
  split; [exact L1|].
  split; [rewrite Hl; rewrite nth_error_app2 by lia;
          replace (length pre' + n2 - length pre') with n2 by lia; exact H2|].
  split; [exact L2|].
  destruct Hc as [[Hle Hu]|[Hlt [Hk Hu]]].
  - left. split; [lia|]. intros j Hj.
    replace j with (length pre' + (j - length pre)) by lia. apply unkept_shift. apply Hu. lia.
  - right. split; [lia|]. split; [exact Hk|]. intros j Hj.
    replace j with (length pre' + (j - length pre)) by lia. apply unkept_shift. apply Hu. lia.
Qed.

Lemma labels_in_nth : forall c t, In t (labels c) ->
  exists q s, nth_error c q = Some s /\ s_label s = Some t.
Proof.
  induction c as [|x c IH]; intros t H; [contradiction|].
  rewrite labels_cons in H. apply in_app_or in H. destruct H as [H|H].
  - destruct (s_label x) as [l|] eqn:E; cbn in H; [|contradiction]. destruct H as [->|[]].
    exists 0, x. split; [reflexivity|exact E].
  - destruct (IH t H) as [q [s [A B]]]. exists (S q), s. split; assumption.
Qed.

Lemma unkept_unlabel : forall blk pre post j, (forall b, In b blk -> is_noop b = true) ->
  length pre <= j < length pre + length blk -> unkept (pre ++ map unlabel blk ++ post) j.
Proof.
  intros blk pre post j Hn Hj.
  destruct (nth_error blk (j - length pre)) as [b|] eqn:E; [|apply nth_error_None in E; lia].
  exists (unlabel b). split.
  - rewrite nth_error_app2 by lia. rewrite nth_error_app1 by (rewrite map_length; lia).
    rewrite nth_error_map, E. reflexivity.
  - unfold keep_stmt, unlabel, is_noop. cbn [s_kind s_label is_some].
    specialize (Hn b (nth_error_In _ _ E)). unfold is_noop in Hn. rewrite Hn. reflexivity.
Qed.

Lemma noop_loop_pos : forall l blk m out m',
  noop_loop l blk m = Ok (out, m') ->
  NoDup (labels (blk ++ l)) ->
  (forall t, In t (labels (blk ++ l)) -> dict_get m t = None) ->
  (forall b, In b blk -> is_noop b = true) ->
  forall t, In t (labels (blk ++ l)) -> Res (blk ++ l) out t (remap m' t).
Proof.
  induction l as [|s l IH]; intros blk m out m' H Hnd Hm Hblk t Hin.
  - rewrite app_nil_r in *. cbn [noop_loop] in H. destruct blk as [|b0 bs]; [contradiction|].
    destruct (map_trailing bs (s_label b0) m) as [m1| |] eqn:Em; cbn [bind] in H; try discriminate.
    inversion H; subst out m'. clear H.
    destruct (s_label b0) as [t0|] eqn:E0.
    + pose proof (map_trailing_spec _ _ _ _ Em) as Sp.
      rewrite labels_cons, E0 in Hnd, Hm, Hin. cbn [opt_list app] in *.
      destruct (in_dec Nat.eq_dec t (labels bs)) as [Hr|Hr].
      * (* a later no-op of the trailing block *)
        destruct (labels_in_nth bs t Hr) as [q [b [Hq Lq]]].
        unfold remap. rewrite (proj1 (Sp t) Hr).
        exists (S q), 0, b, b0. repeat split; try assumption.
        right. split; [lia|]. split.
        -- specialize (Hblk b0 (or_introl eq_refl)). unfold is_noop in Hblk.
           destruct (s_kind b0); try discriminate. reflexivity.
        -- intros j Hj. rewrite <- (app_nil_r (map unlabel bs)). apply (unkept_unlabel bs [b0] [] j).
           ++ intros x Hx. apply Hblk. right. exact Hx.
           ++ cbn [length]. assert (q < length bs) by (apply nth_error_Some; congruence). lia.
      * destruct Hin as [<-|Hin]; [|contradiction].
        unfold remap. rewrite (proj2 (Sp t0) Hr), (Hm t0 (or_introl eq_refl)).
        exists 0, 0, b0, b0. repeat split; try assumption. left. split; [lia|]. intros j Hj. lia.
    + destruct bs as [|b1 bs]; [|cbn in Em; destruct (s_label b1); discriminate].
      rewrite labels_cons, E0 in Hin. cbn in Hin. contradiction.
  - cbn [noop_loop] in H. destruct (is_noop s) eqn:En.
    + specialize (IH (blk ++ [s]) m out m' H). rewrite <- app_assoc in IH. cbn [app] in IH.
      apply IH; try assumption.
      intros b Hb. apply in_app_or in Hb. destruct Hb as [Hb|[<-|[]]]; [apply Hblk; exact Hb|exact En].
    + destruct blk as [|b0 bs].
      * destruct (noop_loop l [] m) as [[out' m'']| |] eqn:Er; cbn [bind fst snd] in H; try discriminate.
        inversion H; subst out m'. clear H. cbn [app] in *.
        rewrite labels_cons in Hnd, Hm, Hin.
        assert (Hnd_l : NoDup (labels ([] ++ l))) by (cbn [app]; apply nodup_app_r in Hnd; exact Hnd).
        assert (Hm_l : forall t, In t (labels ([] ++ l)) -> dict_get m t = None).
        { cbn [app]. intros x Hx. apply Hm. apply in_or_app. right. exact Hx. }
        destruct (noop_loop_remap _ _ _ _ _ Er Hnd_l Hm_l) as [I1 _]. cbn [app] in I1.
        apply in_app_or in Hin. destruct Hin as [Hin|Hin].
        -- assert (Hnl : ~ In t (labels l)) by (intros Hl; exact (nodup_app_disj _ _ t Hnd Hin Hl)).
           unfold remap. rewrite (I1 t Hnl), (Hm t) by (apply in_or_app; left; exact Hin).
           destruct (s_label s) as [x|] eqn:Es; cbn in Hin; [|contradiction]. destruct Hin as [<-|[]].
           exists 0, 0, s, s. repeat split; try assumption. left. split; [lia|]. intros j Hj. lia.
        -- apply (Res_shift [s] [s] l out'); [reflexivity|].
           apply (IH [] m out' m'' Er Hnd_l Hm_l); [intros b []|exact Hin].
      * set (blk := b0 :: bs) in *.
        destruct (match s_label s with
                  | Some x => Ok x
                  | None => match s_label b0 with Some x => Ok x | None => Crash AssertionError end
                  end) as [lbl| |] eqn:El; cbn [bind] in H; try discriminate.
        destruct (map_block blk lbl m) as [m1| |] eqn:Em; cbn [bind] in H; try discriminate.
        destruct (noop_loop l [] m1) as [[out' m'']| |] eqn:Er; cbn [bind fst snd] in H; try discriminate.
        inversion H; subst out m'. clear H.
        change (Res (blk ++ s :: l) (map unlabel blk ++ mk_stmt (Some lbl) (s_kind s) :: out') t (remap m'' t)).
        pose proof (map_block_spec _ _ _ _ Em) as Sp.
        rewrite labels_app, labels_cons in Hnd, Hm, Hin.
        assert (Hnd_l : NoDup (labels ([] ++ l))).
        { cbn [app]. apply nodup_app_r in Hnd. apply nodup_app_r in Hnd. exact Hnd. }
        assert (Hdisj1 : forall t, In t (labels blk) -> ~ In t (labels l)).
        { intros x Hb Hl. apply (nodup_app_disj _ _ x Hnd Hb). apply in_or_app. right. exact Hl. }
        assert (Hdisj2 : forall t, In t (opt_list (s_label s)) -> ~ In t (labels l) /\ ~ In t (labels blk)).
        { intros x Hs. split.
          - intros Hl. apply nodup_app_r in Hnd. exact (nodup_app_disj _ _ x Hnd Hs Hl).
          - intros Hb. apply (nodup_app_disj _ _ x Hnd Hb). apply in_or_app. left. exact Hs. }
        assert (Hm_l : forall t, In t (labels ([] ++ l)) -> dict_get m1 t = None).
        { cbn [app]. intros x Hx. rewrite (proj2 (Sp x)) by (intros Hb; exact (Hdisj1 x Hb Hx)).
          apply Hm. apply in_or_app. right. apply in_or_app. right. exact Hx. }
        destruct (noop_loop_remap _ _ _ _ _ Er Hnd_l Hm_l) as [I1 _]. cbn [app] in I1.
        set (k := length blk).
        assert (Hk : nth_error (map unlabel blk ++ mk_stmt (Some lbl) (s_kind s) :: out') k
                     = Some (mk_stmt (Some lbl) (s_kind s))).
        { rewrite nth_error_app2 by (rewrite map_length; unfold k; lia).
          rewrite map_length. unfold k. rewrite Nat.sub_diag. reflexivity. }
        assert (Hunk : forall j, j < k -> unkept (map unlabel blk ++ mk_stmt (Some lbl) (s_kind s) :: out') j).
        { intros j Hj. apply (unkept_unlabel blk [] _ j Hblk). cbn [length]. unfold k in Hj. lia. }
        apply in_app_or in Hin. destruct Hin as [Hin|Hin].
        -- (* a no-op of the block *)
           destruct (labels_in_nth blk t Hin) as [q [b [Hq Lq]]].
           assert (Hqk : q < k) by (unfold k; apply nth_error_Some; congruence).
           unfold remap. rewrite (I1 t (Hdisj1 t Hin)), (proj1 (Sp t) Hin).
           exists q, k, b, (mk_stmt (Some lbl) (s_kind s)).
           split; [rewrite nth_error_app1 by (unfold k in Hqk; exact Hqk); exact Hq|].
           split; [exact Lq|]. split; [exact Hk|]. split; [reflexivity|].
           left. split; [lia|]. intros j Hj. apply Hunk. lia.
        -- apply in_app_or in Hin. destruct Hin as [Hin|Hin].
           ++ destruct (Hdisj2 t Hin) as [Hnl Hnb].
              unfold remap. rewrite (I1 t Hnl), (proj2 (Sp t) Hnb).
              rewrite (Hm t) by (apply in_or_app; right; apply in_or_app; left; exact Hin).
              destruct (s_label s) as [x|] eqn:Es; cbn in Hin; [|contradiction].
              destruct Hin as [<-|[]]. inversion El; subst lbl.
              exists k, k, s, (mk_stmt (Some x) (s_kind s)).
              split; [rewrite nth_error_app2 by (unfold k; lia); unfold k; rewrite Nat.sub_diag; reflexivity|].
              split; [exact Es|]. split; [exact Hk|]. split; [reflexivity|].
              left. split; [lia|]. intros j Hj. lia.
           ++ replace (blk ++ s :: l) with ((blk ++ [s]) ++ l) by (rewrite <- app_assoc; reflexivity).
              replace (map unlabel blk ++ mk_stmt (Some lbl) (s_kind s) :: out')
                with ((map unlabel blk ++ [mk_stmt (Some lbl) (s_kind s)]) ++ out')
                by (rewrite <- app_assoc; reflexivity).
              apply Res_shift; [rewrite !app_length, map_length; reflexivity|].
              apply (IH [] m1 out' m'' Er Hnd_l Hm_l); [intros b []|exact Hin].
Qed.
