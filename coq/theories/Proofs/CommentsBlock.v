(** C20 — block comments: the first star-slash of the emitted comment is its end. *)
From Coq Require Import List NArith ZArith Bool Lia.
From Acg Require Import Base.Str Model.Comments Proofs.CommentsReplace.
Import ListNotations.
Open Scope N_scope.

Definition hd_not (b : N) (s : text) : bool :=
  match s with c :: _ => negb (c =? b) | [] => true end.
Fixpoint adj_free (a b : N) (s : text) : bool :=
  match s with
  | [] => true
  | c :: r => (negb (c =? a) || hd_not b r) && adj_free a b r
  end.

Lemma adj_free_app : forall a b A B,
  adj_free a b A = true -> hd_not b B = true -> adj_free a b B = true -> adj_free a b (A ++ B) = true.
Proof.
  induction A as [|c A IH]; intros B HA HB HB'; [exact HB'|].
  cbn [app adj_free] in *. apply andb_true_iff in HA. destruct HA as [H1 H2].
  rewrite (IH B H2 HB HB'), andb_true_r.
  destruct A; [|exact H1]. cbn [app]. rewrite HB. apply orb_true_r.
Qed.

Lemma find_skip : forall S X, adj_free 42 47 S = true -> hd_not 47 X = true ->
  find_star_slash (S ++ X) = find_star_slash X.
Proof.
  induction S as [|c S IH]; intros X HS HX; [reflexivity|].
  cbn [app adj_free] in *. apply andb_true_iff in HS. destruct HS as [H1 H2].
  cbn [find_star_slash]. destruct (c =? 42) eqn:E; [|apply IH; assumption].
  cbn [negb orb] in H1. destruct S as [|d S'].
  - cbn [app]. destruct X as [|x X]; [reflexivity|]. cbn [hd_not] in HX.
    apply negb_true_iff in HX. rewrite HX. reflexivity.
  - cbn [app]. cbn [hd_not] in H1. apply negb_true_iff in H1. rewrite H1.
    apply (IH X H2 HX).
Qed.

Lemma java_unescape_id : forall S e, adj_free 92 117 S = true ->
  java_unescape_from (JN e) S = Some S.
Proof.
  induction S as [|c S IH]; intros e HS; [reflexivity|].
  cbn [adj_free] in HS. apply andb_true_iff in HS. destruct HS as [H1 H2].
  cbn [java_unescape_from]. destruct (c =? 92) eqn:E.
  - destruct S as [|d S']; [reflexivity|].
    cbn [negb orb hd_not] in H1. apply negb_true_iff in H1. rewrite H1, andb_false_r.
    rewrite (IH (negb e) H2). reflexivity.
  - rewrite (IH true H2). reflexivity.
Qed.

Section Repl.
  Variables (a b : N) (new : text).

  (** replacing [a b] by [new] leaves no adjacent [a b] *)
  Lemma replace2_kills :
    (forall rest, adj_free a b (new ++ rest) = adj_free a b rest) ->
    (forall rest, hd_not b (new ++ rest) = true) ->
    forall n t, (length t <= n)%nat -> adj_free a b (replace [a; b] new t) = true.
  Proof.
    intros H1 H2. induction n as [|n IH]; intros t Hn.
    - destruct t; [reflexivity|cbn in Hn; lia].
    - destruct t as [|c r]; [reflexivity|]. cbn in Hn.
      destruct (starts_with [a; b] (c :: r)) eqn:Hs.
      + destruct r as [|d r']; [cbn in Hs; rewrite andb_false_r in Hs; discriminate|].
        cbn [starts_with] in Hs. rewrite andb_true_r in Hs. apply andb_true_iff in Hs.
        destruct Hs as [Ea Eb]. apply N.eqb_eq in Ea, Eb. subst c d.
        rewrite replace2_hit, H1. apply IH. cbn in Hn. lia.
      + rewrite replace2_miss by assumption. cbn [adj_free]. rewrite (IH r) by lia.
        rewrite andb_true_r. destruct (c =? a) eqn:Ea; [|reflexivity]. cbn [negb orb].
        apply N.eqb_eq in Ea. subst c.
        destruct r as [|d r']; [reflexivity|].
        cbn [starts_with] in Hs. rewrite N.eqb_refl, andb_true_r in Hs. cbn [andb] in Hs.
        destruct (starts_with [a; b] (d :: r')) eqn:Hs2.
        * destruct r' as [|d2 r'']; [cbn in Hs2; rewrite andb_false_r in Hs2; discriminate|].
          cbn [starts_with] in Hs2. rewrite andb_true_r in Hs2. apply andb_true_iff in Hs2.
          destruct Hs2 as [E1 E2]. apply N.eqb_eq in E1, E2. subst d d2.
          rewrite replace2_hit. apply H2.
        * rewrite replace2_miss by assumption. cbn [hd_not]. rewrite N.eqb_sym, Hs. reflexivity.
  Qed.

  (** ... and keeps a text free of adjacent [x y] *)
  Lemma replace2_keeps : forall x y,
    (forall rest, adj_free x y (new ++ rest) = adj_free x y rest) ->
    (forall rest, hd_not y (new ++ rest) = true) ->
    forall n s, (length s <= n)%nat -> adj_free x y s = true ->
      adj_free x y (replace [a; b] new s) = true
      /\ (hd_not y s = true -> hd_not y (replace [a; b] new s) = true).
  Proof.
    intros x y H1 H2. induction n as [|n IH]; intros s Hn Hs0.
    - destruct s; [split; reflexivity|cbn in Hn; lia].
    - destruct s as [|c r]; [split; reflexivity|]. cbn in Hn.
      destruct (starts_with [a; b] (c :: r)) eqn:Hs.
      + destruct r as [|d r']; [cbn in Hs; rewrite andb_false_r in Hs; discriminate|].
        cbn [starts_with] in Hs. rewrite andb_true_r in Hs. apply andb_true_iff in Hs.
        destruct Hs as [Ea Eb]. apply N.eqb_eq in Ea, Eb. subst c d.
        rewrite replace2_hit. split; [|intros _; apply H2].
        rewrite H1. cbn [adj_free] in Hs0. apply andb_true_iff in Hs0. destruct Hs0 as [_ Hs0].
        apply andb_true_iff in Hs0. destruct Hs0 as [_ Hs0].
        apply IH; [cbn in Hn; lia|exact Hs0].
      + rewrite replace2_miss by assumption. cbn [adj_free] in Hs0 |- *.
        apply andb_true_iff in Hs0. destruct Hs0 as [Hc Hr].
        destruct (IH r ltac:(lia) Hr) as [IH1 IH2]. split; [|intros Hh; exact Hh].
        rewrite IH1, andb_true_r. destruct (negb (c =? x)); [reflexivity|].
        cbn [orb] in Hc |- *. apply IH2. exact Hc.
  Qed.
End Repl.

(** ** The [/** ... */] wrappers of typescript and java *)
Section Block.
  Variables (a b : N) (spaces : list N) (repls : list (text * text)).
  Hypothesis Hpre : forall rest, adj_free a b (32 :: 42 :: 32 :: rest) = adj_free a b rest.
  Hypothesis Hemp : forall rest, adj_free a b (32 :: 42 :: 10 :: rest) = adj_free a b rest.
  Hypothesis Hnl : forall rest, adj_free a b (10 :: rest) = adj_free a b rest.
  Hypothesis Hb32 : (32 =? b) = false.
  Hypothesis Hb10 : (10 =? b) = false.
  Hypothesis Hrep : forall line, adj_free a b (apply_repls repls line) = true.

  Definition bcfg : line_cfg :=
    {| c_open := [47; 42; 42; 10]; c_prefix := [32; 42; 32]; c_suffix := [10];
       c_empty := [32; 42; 10]; c_sep := []; c_close := [32; 42; 47]; c_by_strip := true;
       c_repls := repls; c_stripped := true |}.

  Lemma piece_ok : forall line rest, adj_free a b rest = true ->
    adj_free a b (render_line spaces bcfg line ++ rest) = true
    /\ hd_not b (render_line spaces bcfg line ++ rest) = true.
  Proof.
    intros line rest Hr. unfold render_line.
    cbn [c_by_strip c_empty c_prefix c_suffix c_repls bcfg].
    destruct (is_blank spaces line).
    - cbn [app]. rewrite Hemp. split; [assumption|]. cbn [hd_not]. rewrite Hb32. reflexivity.
    - rewrite <- !app_assoc. cbn [app]. rewrite Hpre.
      split; [|cbn [hd_not]; rewrite Hb32; reflexivity].
      apply adj_free_app; [apply Hrep|cbn [hd_not]; rewrite Hb10; reflexivity|].
      rewrite Hnl. assumption.
  Qed.

  Lemma body_ok : forall lines Z, adj_free a b Z = true -> hd_not b Z = true ->
    adj_free a b (join [] (map (render_line spaces bcfg) lines) ++ Z) = true
    /\ hd_not b (join [] (map (render_line spaces bcfg) lines) ++ Z) = true.
  Proof.
    induction lines as [|l ls IH]; intros Z HZ1 HZ2.
    - cbn [map join app]. split; assumption.
    - destruct ls as [|l2 ls'].
      + cbn [map join]. apply piece_ok. assumption.
      + specialize (IH Z HZ1 HZ2). cbn [map] in IH. cbn [map join]. cbn [app].
        rewrite <- app_assoc. apply piece_ok. apply IH.
  Qed.
End Block.

Definition ts_repls : list (text * text) := [([42; 47], [42; 92; 47])].
Definition java_repls : list (text * text) :=
  [([42; 47], [42; 38; 35; 52; 55; 59]); ([92; 117], [38; 35; 57; 50; 59; 117])].

Lemma ts_rep_ok : forall line, adj_free 42 47 (apply_repls ts_repls line) = true.
Proof.
  intros line. cbn [apply_repls ts_repls fold_left fst snd].
  apply (replace2_kills 42 47 [42; 92; 47]) with (n := length line);
    [intros; reflexivity|intros; reflexivity|lia].
Qed.

Lemma java_rep_ok_star : forall line, adj_free 42 47 (apply_repls java_repls line) = true.
Proof.
  intros line. cbn [apply_repls java_repls fold_left fst snd].
  set (s := replace [42; 47] [42; 38; 35; 52; 55; 59] line).
  apply (replace2_keeps 92 117 [38; 35; 57; 50; 59; 117] 42 47) with (n := length s);
    [intros; reflexivity|intros; reflexivity|lia|].
  apply (replace2_kills 42 47 [42; 38; 35; 52; 55; 59]) with (n := length line);
    [intros; reflexivity|intros; reflexivity|lia].
Qed.

Lemma java_rep_ok_bs : forall line, adj_free 92 117 (apply_repls java_repls line) = true.
Proof.
  intros line. cbn [apply_repls java_repls fold_left fst snd].
  set (s := replace [42; 47] [42; 38; 35; 52; 55; 59] line).
  apply (replace2_kills 92 117 [38; 35; 57; 50; 59; 117]) with (n := length s);
    [intros; reflexivity|intros; reflexivity|lia].
Qed.

Lemma block_closed_generic : forall spaces repls,
  (forall line, adj_free 42 47 (apply_repls repls line) = true) ->
  forall lines,
  lex_block_comment ([47; 42; 42; 10] ++ join [] (map (render_line spaces (bcfg repls)) lines)
                     ++ [32; 42; 47]) = Some [].
Proof.
  intros spaces repls Hrep lines.
  set (body := join [] (map (render_line spaces (bcfg repls)) lines)).
  change (find_star_slash ((42 :: 10 :: body) ++ [32; 42; 47]) = Some []).
  rewrite find_skip; [reflexivity| |reflexivity].
  cbn [adj_free]. cbn [N.eqb Pos.eqb negb orb hd_not andb].
  destruct (body_ok 42 47 spaces repls) with (lines := lines) (Z := @nil N) as [H _];
    try (intros; reflexivity); try assumption.
  fold body in H. rewrite app_nil_r in H. exact H.
Qed.

Theorem ts_block_closed : forall breaks spaces t,
  lex_block_comment (wrap_lines breaks spaces (bcfg ts_repls) t) = Some [].
Proof. intros. apply block_closed_generic. apply ts_rep_ok. Qed.

Theorem java_block_closed : forall breaks spaces t,
  java_lex_block_comment (wrap_lines breaks spaces (bcfg java_repls) t) = Some [].
Proof.
  intros breaks spaces t. unfold java_lex_block_comment, java_unescape.
  rewrite java_unescape_id.
  - apply block_closed_generic. apply java_rep_ok_star.
  - unfold wrap_lines. cbn [c_open c_sep c_close bcfg].
    destruct (body_ok 92 117 spaces java_repls) with (lines := splitlines breaks t) (Z := [32; 42; 47])
      as [H _]; try (intros; reflexivity); try apply java_rep_ok_bs.
    cbn [app adj_free]. cbn [N.eqb Pos.eqb negb orb hd_not andb]. exact H.
Qed.

(** The unpatched wrappers (no replacement) are refuted. *)
Lemma block_unpatched_refuted : exists t,
  lex_block_comment (wrap_lines [10] [32] (bcfg []) t) <> Some [].
Proof. exists [42; 47]. vm_compute. discriminate. Qed.

(** Versions for a configuration given by an equation (closed by conversion in
    [Props/C20.v] with the configuration regenerated from the source). *)
Lemma ts_block_closed_gen : forall g, mk_cfg g = bcfg ts_repls ->
  forall breaks spaces t, lex_block_comment (wrap_lines breaks spaces (mk_cfg g) t) = Some [].
Proof. intros g -> breaks spaces t. apply ts_block_closed. Qed.
Lemma java_block_closed_gen : forall g, mk_cfg g = bcfg java_repls ->
  forall breaks spaces t, java_lex_block_comment (wrap_lines breaks spaces (mk_cfg g) t) = Some [].
Proof. intros g -> breaks spaces t. apply java_block_closed. Qed.

(** Line comments of C++: a trailing backslash splices the next line onto the comment. *)
Definition cpp_line_cfg : line_cfg :=
  {| c_open := []; c_prefix := [47; 47; 47; 32]; c_suffix := []; c_empty := [47; 47; 47];
     c_sep := [10]; c_close := []; c_by_strip := true; c_repls := []; c_stripped := true |}.
Lemma cpp_line_comment_refuted : exists t,
  trailing_splice (last (splitlines [10] t) []) = true /\
  strip_line_comments (M2 47 47) nl_cpp true LCode (wrap_lines [10] [32] cpp_line_cfg t ++ [10; 88])
  <> [10; 88].
Proof. exists [97; 32; 92]. split; [reflexivity|]. vm_compute. discriminate. Qed.
Lemma cpp_line_comment_example :
  strip_line_comments (M2 47 47) nl_cpp true LCode
    (wrap_lines [10] [32] cpp_line_cfg [97; 92; 10; 98] ++ [10; 88]) = [10; 88].
Proof. vm_compute. reflexivity. Qed.

(** XML: characters outside the XML [Char] production are not removed by the escaper. *)
Lemma csharp_xml_refuted : exists t, xml_chardata_ok (xml_escape t) = false.
Proof. exists [1]. vm_compute. reflexivity. Qed.
