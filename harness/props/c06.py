"""C06 — Accepted meta-models satisfy the structural rules.

Translation validation of the front end's verdicts against the reference checker
``rulesb`` of Model/Rules.v (proved equivalent to the declarative ``Rules`` in
Props/C06.v): for generated valid meta-models and their single-rule mutants

    front end accepts            =>  rulesb = true      (compared inside Coq)
    rulesb = false               =>  the front end reports an error (no acceptance, no crash)
"""
from __future__ import annotations

import collections
import random
import re
from concurrent.futures import ThreadPoolExecutor
from typing import Any, Dict, List, Optional, Tuple

from harness import lib
from harness.gen import metamodel as mmg
from harness.gen import rules as gr
from harness.translate import rules as tr

META = {
    "title": "Accepted meta-models satisfy the structural rules",
    "design_ref": "§4 C06",
    "level_text": (
        "Coq proof that the executable reference checker rulesb decides the declarative rules "
        "(Rules mm: unique/non-reserved names, well-founded inheritance from existing classes, no "
        "re-declared inherited member, constructor arguments = stacked properties in name, type, "
        "order with optional => None, type shapes, unique invariant descriptions, resolvable "
        "references, anchored non-empty patterns) for ALL abstract meta-models, with the reserved-name "
        "tables re-translated from parse/_translate.py on every run; the implementation is tied to "
        "it by translation validation of verdicts: the real front end is run on generated valid "
        "meta-models and all their single-rule mutants, and `accepted => rulesb = true` is "
        "compared inside Coq; a crash or an acceptance of a rule-breaking model is reported "
        "with the model text as replay."
    ),
    "level_note": (
        "Partial: nothing is proved about the code of _verify_symbol_table / map_symbol_table_to_ontology "
        "/ _verify themselves; the claim about the implementation is checked on the generated "
        "models and mutants only (the proof is about the reference checker). Trusted: the conversion "
        "of the generator's abstract meta-model to source text and to the Coq term."
    ),
    "technique": "Coq reflection proof of a reference checker + in-Coq validation of the front end's verdicts",
}
GEN = ["GenRules"]
MODEL = ["Model/Rules", "Gen/GenRules"]
TRUSTED = [
    "harness/gen/metamodel.py render_source and harness/gen/rules.py mm_to_coq describe the same "
    "abstract meta-model (text for the front end, term for Coq)",
    "harness/translate/rules.py (reserved-name sets, prefix/suffix tests and their uses) via Python's ast",
    "harness/impl/frontend.py classifies the outcome of the real front end as ok / rejected / crash",
    "names are ASCII identifiers (str.lower() = ASCII lower-casing)",
]
RULE = ("case = one meta-model text (a generated valid model or one single-rule mutant of it: mmgen's 18 "
        "operators at random sites plus site-exhaustive operators for reserved names per kind of "
        "name drawn from the translated lists, duplicates, cycles, re-declared methods, constructor "
        "order/type/default, nested type shapes, inherited invariant descriptions, every kind of "
        "documentation reference, every pattern function); non-trivial = a mutant (distinct by text); "
        "distinct by (rule, text)")

RULE_NAMES = ["types_unique", "bases_exist", "acyclic", "types_not_reserved", "members_unique",
              "members_not_reserved", "constants_unique", "constants_not_reserved", "functions_unique",
              "functions_not_reserved", "no_redeclared_member", "constructor_matches", "type_shapes",
              "invariant_descriptions_unique", "references_resolvable", "patterns_anchored",
              "stacked_members_unique", "toplevel_names_unique"]

HEADER = """From Coq Require Import List NArith Bool.
From Coq Require Strings.String.
Import Coq.Strings.String.StringSyntax.
From Acg Require Import Base.Str Model.Rules Gen.GenRules.
Import ListNotations.
Open Scope N_scope.
(* case = (meta-model, the front end accepted it, verdict the generator predicts) *)
Definition case_bad (c : mm * bool * bool) : bool :=
  match c with
  | (m, accepted, predicted) =>
      let v := rulesb reserved_data m in
      negb (Bool.eqb v predicted) || (accepted && negb v)
  end.
Fixpoint bad_from (i : nat) (cs : list (mm * bool * bool)) : list nat :=
  match cs with
  | [] => []
  | c :: r => if case_bad c then i :: bad_from (S i) r else bad_from (S i) r
  end.
Definition bad := bad_from 0.
"""


# ---------------------------------------------------------------------------------
# corpus: minimal hand-built models (past findings), always run first
# ---------------------------------------------------------------------------------
def _mini(prop_type: Any = None, dup_literal: bool = False) -> mmg.MetaModel:
    mm = mmg.MetaModel(doc=mmg.Doc("Provide a tiny meta-model."), version="V0.1",
                       xml_namespace="https://example.com/mini")
    lits = [mmg.EnumLiteral("First", "first"), mmg.EnumLiteral("Second", "second")]
    if dup_literal:
        lits.append(mmg.EnumLiteral("First", "third"))
    mm.enumerations.append(mmg.Enumeration("Kind_of_item", lits, mmg.Doc("Enumerate the kinds.")))
    mm.classes.append(mmg.Class("Item", properties=[mmg.Property("amount", mmg.TPrim("int"))],
                                doc=mmg.Doc("Represent an item.")))
    if prop_type is not None:
        mm.classes.append(mmg.Class("Thing", properties=[mmg.Property("parts", prop_type)],
                                    doc=mmg.Doc("Represent a thing.")))
    return mm


def corpus() -> List[Tuple[str, mmg.MetaModel, str, bool]]:
    """(rule, model, note, predicted verdict of the reference checker)."""
    item = mmg.TOur("Item")
    L, O = mmg.TList, mmg.TOpt
    out = [
        ("valid", _mini(L(item)), "corpus: minimal valid model", True),
        ("valid", _mini(L(L(item))), "corpus: list of lists", True),
        ("deep_list_of_optional", _mini(L(L(O(item)))), "corpus: Thing.parts: List[List[Optional[Item]]]", False),
        ("deep_nested_optional", _mini(L(L(O(O(item))))),
         "corpus: Thing.parts: List[List[Optional[Optional[Item]]]]", False),
        ("deep_list_of_optional", _mini(O(L(L(O(item))))),
         "corpus: Thing.parts: Optional[List[List[Optional[Item]]]]", False),
        ("list_of_optional", _mini(L(O(item))), "corpus: Thing.parts: List[Optional[Item]]", False),
        ("nested_optional", _mini(O(O(item))), "corpus: Thing.parts: Optional[Optional[Item]]", False),
        ("duplicate_enum_literal", _mini(L(item), dup_literal=True),
         "corpus: literal Kind_of_item.First declared twice", False),
    ]
    return out


# ---------------------------------------------------------------------------------
def _run_front_end(texts: List[str], chunk: int = 25) -> List[Dict[str, Any]]:
    chunks = [texts[k:k + chunk] for k in range(0, len(texts), chunk)]

    def call(ch: List[str]) -> List[Dict[str, Any]]:
        return lib.impl_call("frontend.py", {"models": ch, "view": False}, timeout=1800)

    with ThreadPoolExecutor(max_workers=min(lib.NCPU, 14)) as ex:
        parts = list(ex.map(call, chunks))
    return [r for p in parts for r in p]


def _verdicts_many(ctx: lib.Ctx, terms: List[str], tag: str, header: str = HEADER) -> List[Dict[str, Any]]:
    """rulesb and the per-rule verdicts of the reference checker (diagnostics), one coqc run."""
    if not terms:
        return []
    raw = lib.coq_eval(ctx.work, f"verdicts_{tag}", header,
                       "[" + ";\n".join(f"(rulesb reserved_data {t}, rule_verdicts reserved_data {t})"
                                         for t in terms) + "]", timeout=900)
    flat = " ".join(raw.split())
    found = re.findall(r"\((true|false),\s*\[([^\]]*)\]\)", flat)
    if len(found) != len(terms):
        return [{"raw": raw[-800:]} for _ in terms]
    out = []
    for verdict, vec in found:
        vs = [x.strip() == "true" for x in vec.split(";")]
        out.append({"rulesb": verdict == "true",
                    "violated_rules": [n for n, v in zip(RULE_NAMES, vs) if not v]})
    return out


def _generate(ctx: lib.Ctx, n_models: int, profiles: List[str], reserved: Dict[str, Any],
              repeats: int) -> List[Dict[str, Any]]:
    items: List[Dict[str, Any]] = []
    for i in range(n_models):
        profile = profiles[i % len(profiles)]
        seed = ctx.rng.getrandbits(64)
        mm = mmg.random_metamodel(random.Random(seed), profile)
        items.append({"rule": "valid", "mm": mm, "text": mmg.render_source(mm), "predicted": True,
                      "note": f"generated valid model (profile {profile}, seed {seed})", "base": i})
        for mu in gr.all_mutants(mm, random.Random(ctx.rng.getrandbits(64)), reserved, repeats=repeats):
            items.append({"rule": mu.rule, "mm": mu.mm, "text": mu.text,
                          "predicted": mu.rule.startswith("valid"),
                          "note": mu.note, "base": i})
    return items


def _check(ctx: lib.Ctx, items: List[Dict[str, Any]], stream: str, name: str) -> None:
    results = _run_front_end([it["text"] for it in items])
    cases = []
    intern = gr.Interner()
    for it, res in zip(items, results):
        it["status"] = res["status"]
        it["result"] = {k: (v[-1500:] if isinstance(v, str) else v) for k, v in res.items() if k != "view"}
        it["term"] = gr.mm_to_coq(it["mm"], intern)
        cases.append(lib.coq_pair(it["term"], lib.coq_bool(res["status"] == "ok"),
                                  lib.coq_bool(it["predicted"])))
    header = HEADER + intern.header()
    bad, _log = lib.run_cases(ctx.work, name, header, "mm * bool * bool", "bad", cases, shard=100)
    bad_set = set(bad)

    outcome = collections.Counter()
    per_rule = collections.Counter()
    viol: Dict[str, List[Dict[str, Any]]] = collections.defaultdict(list)
    gaps: List[Dict[str, Any]] = []
    for i, it in enumerate(items):
        outcome[it["status"]] += 1
        per_rule[f"{it['rule']}:{it['status']}"] += 1
        if it["status"] == "crash":
            exc = it["result"].get("exception", "?")
            viol[f"crash:{exc}:{it['rule']}"].append(it)
            # no claim inside Coq for a crash, but the prediction is still compared
            if i in bad_set:
                gaps.append(it)
            continue
        if it["predicted"] and it["status"] == "rejected":
            # a valid model / control that the front end refuses: its mutants prove nothing
            it["result"]["note"] = "valid model or control rejected by the front end"
            gaps.append(it)
            continue
        if i not in bad_set:
            continue
        if it["status"] == "ok":
            if it["predicted"]:
                # a generated "valid" model that the reference checker refuses but the front end accepts
                viol[f"accepted:{it['rule']}"].append(it)
            else:
                it["_ambiguous"] = True
                viol[f"accepted:{it['rule']}"].append(it)
        else:
            gaps.append(it)  # rejected, but the reference checker did not predict as the generator said

    # diagnostics for the few interesting cases, in one coqc run; an accepted mutant is a
    # violation iff rulesb is false for it (otherwise the mutation was ineffective)
    need: List[Dict[str, Any]] = []
    for key in sorted(viol):
        group = sorted(viol[key], key=lambda it: len(it["text"]))
        viol[key] = group
        need += [it for it in group if it.get("_ambiguous")][:3]
        if group[0] not in need:
            need.append(group[0])
    need += gaps[:8]
    for it, v in zip(need, _verdicts_many(ctx, [it["term"] for it in need], name, header)):
        it["verdicts"] = v
    n_ineffective = 0
    for key in sorted(viol):
        kept = []
        for it in viol[key]:
            if it.get("_ambiguous") and it.get("verdicts", {}).get("rulesb") is True:
                n_ineffective += 1
                continue
            kept.append(it)
        kept = [it for it in kept if "verdicts" in it] or kept
        if not kept:
            continue
        it = kept[0]   # the smallest text of this key is the replay
        it.setdefault("verdicts", {})
        what = (f"the front end crashed ({it['result'].get('exception')}) instead of reporting an error"
                if key.startswith("crash:") else
                f"the front end accepted a meta-model that breaks the rules {it['verdicts'].get('violated_rules')}")
        ctx.impl_failure(
            key, what,
            {"mutation": it["rule"], "note": it["note"], "model_text": it["text"],
             "others_with_this_key": len(viol[key]) - 1},
            {"front_end": it["result"], "reference_checker": it["verdicts"]},
            stream,
            f"./check C06 --replay <this file>   (runs the real front end of {lib.REPO} on input.model_text)")
    for it in gaps[:8]:
        ctx.corr_break(stream, {"mutation": it["rule"], "note": it["note"], "model_text": it["text"]},
                       {"predicted_rulesb": it["predicted"], "reference_checker": it.get("verdicts")},
                       it["result"],
                       note="the reference checker does not give the verdict the generator predicts for this "
                            "model (the mutation is not seen by rulesb, or a valid model is refused)")

    n_mut = sum(1 for it in items if not it["predicted"])
    ctx.count(stream, len(items),
              nontrivial_keys=[(it["rule"], lib.stable_key(it["text"])) for it in items if not it["predicted"]],
              validated=len(items), outcomes=dict(outcome), mutants=n_mut, valid_models=len(items) - n_mut,
              by_rule_and_outcome=dict(sorted(per_rule.items())), ineffective_mutants=n_ineffective,
              prediction_gaps=len(gaps))


def streams(ctx: lib.Ctx) -> None:
    try:
        reserved = tr.extract()
    except Exception as e:  # the tie T is broken; the driver reports it, the search still runs
        ctx.proof_break("translator:GenRules(streams)", str(e))
        reserved = {
            "type_names": sorted(mmg.RESERVED_TYPE_NAMES), "member_names": sorted(mmg.RESERVED_MEMBER_NAMES),
            "type_prefixes": ["I_", "Must_"], "prop_prefixes": ["mutable"], "method_prefixes": ["mutable"],
            "over_prefix": "over", "over_suffixes": ["or_empty", "orempty"],
        }
    if not (lib.THEORIES / "Gen" / "GenRules.v").exists():
        # fail closed happened in the translator: the in-Coq comparison is impossible; run the
        # property oracle on the implementation alone (mutant accepted / crash) to find an input
        _oracle_only(ctx, reserved)
        return

    items = [{"rule": r, "mm": m, "text": mmg.render_source(m), "predicted": p, "note": n, "base": -1}
             for r, m, n, p in corpus()]
    _check(ctx, items, "corpus", "corpus")

    n_models = ctx.n(12, 60)
    profiles = ["tiny", "small", "small", "tiny", "small"] if not ctx.thorough else \
        ["tiny", "small", "small", "medium", "small", "tiny"]
    items = _generate(ctx, n_models, profiles, reserved, repeats=ctx.n(1, 2))
    _check(ctx, items, "mutants", "cases")
    feats: Dict[str, int] = collections.Counter()
    for it in items:
        if it["rule"] == "valid":
            for k, v in it["mm"].features.items():
                feats[k] += v
    ctx.coverage["generator_features"] = dict(sorted(feats.items()))
    for it in items[:2] + [it for it in items if not it["predicted"]][:4]:
        ctx.sample({"rule": it["rule"], "note": it["note"], "front_end": it["status"],
                    "text_chars": len(it["text"])})

    # a disagreement without a failing input: widen the search once
    if ctx.corr_breaks and not ctx.impl_failures:
        more = _generate(ctx, ctx.n(12, 40), ["small", "tiny"], reserved, repeats=2)
        _check(ctx, more, "mutants-search", "search")
    ctx.coverage["exhaustive"] = False


def _oracle_only(ctx: lib.Ctx, reserved: Dict[str, Any]) -> None:
    items = _generate(ctx, ctx.n(12, 60), ["tiny", "small"], reserved, repeats=1)
    results = _run_front_end([it["text"] for it in items])
    seen = set()
    for it, res in sorted(zip(items, results), key=lambda p: len(p[0]["text"])):
        if it["predicted"]:
            continue
        if res["status"] == "ok":
            key = f"accepted:{it['rule']}"
        elif res["status"] == "crash":
            key = f"crash:{res.get('exception')}:{it['rule']}"
        else:
            continue
        if key in seen:
            continue
        seen.add(key)
        ctx.impl_failure(key, "single-rule mutant not rejected with an error (oracle without the Coq checker)",
                         {"mutation": it["rule"], "note": it["note"], "model_text": it["text"]},
                         {k: v for k, v in res.items() if k != "view"}, "oracle-only")
    ctx.count("oracle-only", len(items), validated=len(items))


def replay(ctx: lib.Ctx, data: Dict[str, Any]) -> int:
    text = data.get("input", {}).get("model_text")
    if text is None:
        cb = data.get("correspondence_breaks") or [{}]
        text = cb[0].get("input", {}).get("model_text")
    if text is None:
        print("no model text in the replay file")
        return 2
    res = _run_front_end([text])[0]
    print({k: (v[-600:] if isinstance(v, str) else v) for k, v in res.items() if k != "view"})
    print("mutation:", data.get("input", {}).get("mutation"), "-", data.get("input", {}).get("note"))
    print("reference checker:", (data.get("observed") or {}).get("reference_checker"))
    return 0 if res["status"] == "rejected" else 1
