(** Explicit outcomes of modelled Python functions.

    [Ok a]    — the function returned a value;
    [Err e]   — the function returned a *reported* error (the
                [Tuple[Optional[X], Optional[Error]]] idiom of the code base);
    [Crash k] — an exception escapes (assert, icontract violation, IndexError, ...).

    Nothing in the models is totalised with default values: an out-of-range index
    of the code is [Crash IndexError] in the model. *)
From Coq Require Import List.
Import ListNotations.

Inductive crash_kind : Type :=
| AssertionError
| Violation        (* icontract ViolationError: pre/post-condition, invariant *)
| IndexError
| KeyError
| TypeError
| ValueError
| NotImplementedError
| RecursionError
| OutOfFuel.       (* model artefact; theorems show it is unreachable *)

Inductive outcome (A E : Type) : Type :=
| Ok (a : A)
| Err (e : E)
| Crash (k : crash_kind).
Arguments Ok {A E} a.
Arguments Err {A E} e.
Arguments Crash {A E} k.

Definition is_crash {A E} (o : outcome A E) : bool :=
  match o with Crash _ => true | _ => false end.
Definition is_ok {A E} (o : outcome A E) : bool :=
  match o with Ok _ => true | _ => false end.
Definition is_err {A E} (o : outcome A E) : bool :=
  match o with Err _ => true | _ => false end.

Definition bind {A B E} (o : outcome A E) (f : A -> outcome B E) : outcome B E :=
  match o with
  | Ok a => f a
  | Err e => Err e
  | Crash k => Crash k
  end.

Definition crash_kind_eqb (a b : crash_kind) : bool :=
  match a, b with
  | AssertionError, AssertionError | Violation, Violation | IndexError, IndexError
  | KeyError, KeyError | TypeError, TypeError | ValueError, ValueError
  | NotImplementedError, NotImplementedError | RecursionError, RecursionError
  | OutOfFuel, OutOfFuel => true
  | _, _ => false
  end.

(** Outcome *class* as compared by the correspondence checks:
    0 = Ok, 1 = Err, 2 = Crash. *)
Definition outcome_class {A E} (o : outcome A E) : nat :=
  match o with Ok _ => 0 | Err _ => 1 | Crash _ => 2 end.

Notation "'do' x <- o ; f" := (bind o (fun x => f))
  (at level 200, x name, o at level 100, f at level 200).
