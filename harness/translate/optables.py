"""C09 tie T: operator tables and connective skeletons of the Python, TypeScript, Java and C++
transpilers -> ``Gen/GenOperatorTables.v`` (fail closed).

Per language ``<l>`` in python, typescript, java, cpp (file ``aas_core_codegen/<l>/transpilation.py``,
class ``Transpiler``):

* ``<l>_comparison_map : cmp_table`` — the dict ``_<L>_COMPARISON_MAP`` in source order,
  ``(name of the parse_tree.Comparator member, emitted token)``;
* ``<l>_cmp_templates : list (list text)`` — for every f-string ``transform_comparison`` can
  return, the names of its holes in emission order (``left``, ``comparator``, ``right``); the
  literal text between the holes may only consist of blanks and parentheses, and
  ``comparator`` must be read from the table with ``node.op``;
* ``<l>_not_shapes``, ``<l>_impl_shapes``, ``<l>_and_shapes``, ``<l>_or_shapes : list shape`` —
  the f-string skeletons of ``transform_not``, ``transform_implication`` (the assignments to
  local variables are substituted into the returned template, every combination), and the
  ``writer.write(f"...")`` of the conjunction / disjunction branch (with the already written
  left part as hole ``prev``), parsed with the precedence rules of the target language by
  ``harness/gen/xtarget_text.parse_expr``.

``extract()`` returns the same data as Python objects for the text-level correspondence.
"""
from __future__ import annotations

import ast
import itertools
from typing import Any, Dict, List, Optional, Sequence, Set, Tuple

from harness.translate.astutil import TranslateError, find_function, parse
from harness.gen import xtarget_text as xt

LANGS = ("python", "typescript", "java", "cpp")
MAP_NAME = {"python": "_PYTHON_COMPARISON_MAP", "typescript": "_TYPESCRIPT_COMPARISON_MAP",
            "java": "_JAVA_COMPARISON_MAP", "cpp": "_CPP_COMPARISON_MAP"}
COMPARATORS = ("LT", "LE", "GT", "GE", "EQ", "NE")


# ----------------------------------------------------------------------------------------
def _class(tree: ast.Module, name: str) -> ast.ClassDef:
    found = [n for n in tree.body if isinstance(n, ast.ClassDef) and n.name == name]
    if len(found) != 1:
        raise TranslateError(f"expected exactly one class {name}")
    return found[0]


def _method(cls: ast.ClassDef, name: str) -> Optional[ast.FunctionDef]:
    found = [n for n in cls.body if isinstance(n, ast.FunctionDef) and n.name == name]
    if len(found) > 1:
        raise TranslateError(f"method {name} defined twice")
    return found[0] if found else None


def comparison_map(lang: str, cls: ast.ClassDef) -> List[Tuple[str, str]]:
    want = MAP_NAME[lang]
    assigns = [n for n in cls.body if isinstance(n, ast.Assign) and len(n.targets) == 1
               and isinstance(n.targets[0], ast.Name) and n.targets[0].id == want]
    if len(assigns) != 1:
        raise TranslateError(f"{lang}: expected exactly one assignment of {want}")
    d = assigns[0].value
    if not isinstance(d, ast.Dict):
        raise TranslateError(f"{lang}: {want} is not a dict display")
    out = []
    for k, v in zip(d.keys, d.values):
        # parse_tree.Comparator.<NAME>
        if not (isinstance(k, ast.Attribute) and isinstance(k.value, ast.Attribute)
                and k.value.attr == "Comparator" and isinstance(k.value.value, ast.Name)):
            raise TranslateError(f"{lang}: unexpected key {ast.dump(k) if k is not None else None}")
        if not (isinstance(v, ast.Constant) and isinstance(v.value, str)):
            raise TranslateError(f"{lang}: non-literal operator for {k.attr}")
        out.append((k.attr, v.value))
    return out


# -- f-string templates ------------------------------------------------------------------
def _hole_name(expr: ast.expr) -> Optional[str]:
    """Name a formatted value stands for; ``None`` for pure indentation (``I``, ``II``...)."""
    if isinstance(expr, ast.Name):
        if set(expr.id) == {"I"}:
            return None
        return expr.id
    if (isinstance(expr, ast.Call) and isinstance(expr.func, ast.Name)
            and expr.func.id == "indent_but_first_line" and len(expr.args) == 2
            and isinstance(expr.args[0], ast.Name)):
        return expr.args[0].id
    raise TranslateError(f"unexpected formatted value {ast.unparse(expr)}")


def template(js: ast.JoinedStr) -> List[Tuple[str, str]]:
    """[("lit", text) | ("hole", name)] of an f-string."""
    parts: List[Tuple[str, str]] = []
    for v in js.values:
        if isinstance(v, ast.Constant):
            parts.append(("lit", str(v.value)))
        elif isinstance(v, ast.FormattedValue):
            if v.conversion != -1 or v.format_spec is not None:
                raise TranslateError("conversion / format spec in a template")
            n = _hole_name(v.value)
            parts.append(("lit", " ") if n is None else ("hole", n))
        else:
            raise TranslateError("unexpected f-string part")
    return parts


def _unwrap_stripped(e: ast.expr) -> ast.expr:
    if isinstance(e, ast.Call) and isinstance(e.func, ast.Name) and e.func.id == "Stripped" and len(e.args) == 1:
        return e.args[0]
    return e


def _returned_value(ret: ast.Return) -> Optional[ast.expr]:
    """``return <value>, None`` -> value; ``return None, <error>`` -> None."""
    v = ret.value
    if isinstance(v, ast.Tuple) and len(v.elts) == 2:
        a, b = v.elts
        if isinstance(b, ast.Constant) and b.value is None:
            return _unwrap_stripped(a)
        if isinstance(a, ast.Constant) and a.value is None:
            return None
    raise TranslateError(f"unexpected return shape: {ast.unparse(ret)[:120]}")


def _shape_of(lang: str, tmpl: Sequence[Tuple[str, str]], prefix: str = ""):
    """Parse a template (holes -> identifiers H_<name>) into a shape tree
    ("hole", n) | ("un", tok, s) | ("bin", tok, l, r)."""
    text = prefix + "".join(t if k == "lit" else f" H_{t} " for k, t in tmpl)
    try:
        tree = xt.parse_expr(lang, text)
    except xt.TextError as e:
        raise TranslateError(f"{lang}: template {text!r} does not parse: {e}")

    def conv(t):
        if t[0] == "name" and t[1].startswith("H_"):
            return ("hole", t[1][2:])
        if t[0] == "un":
            return ("un", t[1], conv(t[2]))
        if t[0] == "bin":
            return ("bin", t[1], conv(t[2]), conv(t[3]))
        raise TranslateError(f"{lang}: template {text!r} contains {t[0]!r}")

    return conv(tree)


def _subst(shape, name: str, repl):
    if shape[0] == "hole":
        return repl if shape[1] == name else shape
    if shape[0] == "un":
        return ("un", shape[1], _subst(shape[2], name, repl))
    return ("bin", shape[1], _subst(shape[2], name, repl), _subst(shape[3], name, repl))


def _holes(shape) -> List[str]:
    if shape[0] == "hole":
        return [shape[1]]
    if shape[0] == "un":
        return _holes(shape[2])
    return _holes(shape[2]) + _holes(shape[3])


def _dedup(xs):
    out = []
    for x in xs:
        if x not in out:
            out.append(x)
    return out


# -- transform_comparison ----------------------------------------------------------------
VALUE_EQ: Dict[str, List[Tuple[bool, List[str]]]] = {}


def comparison_templates(lang: str, fn: ast.FunctionDef) -> List[List[str]]:
    # comparator = Transpiler._X_COMPARISON_MAP[node.op]
    ok = False
    value_eq: List[Tuple[bool, List[str]]] = []
    for n in ast.walk(fn):
        if isinstance(n, ast.Assign) and len(n.targets) == 1 and isinstance(n.targets[0], ast.Name) \
                and n.targets[0].id == "comparator":
            v = n.value
            if (isinstance(v, ast.Subscript) and isinstance(v.value, ast.Attribute)
                    and v.value.attr == MAP_NAME[lang] and ast.unparse(v.slice) == "node.op"):
                ok = True
            else:
                raise TranslateError(f"{lang}: comparator is not read from {MAP_NAME[lang]}[node.op]")
    if not ok:
        raise TranslateError(f"{lang}: no `comparator = {MAP_NAME[lang]}[node.op]`")
    # left / right come from node.left / node.right
    sources = {}
    for n in ast.walk(fn):
        if isinstance(n, ast.Assign) and len(n.targets) == 1 and isinstance(n.targets[0], ast.Tuple):
            names = [e.id for e in n.targets[0].elts if isinstance(e, ast.Name)]
            if names and names[0] in ("left", "right") and isinstance(n.value, ast.Call) and n.value.args:
                sources[names[0]] = ast.unparse(n.value.args[0])
    if sources != {"left": "node.left", "right": "node.right"}:
        raise TranslateError(f"{lang}: operands of the comparison are {sources}")
    out = []
    for n in ast.walk(fn):
        if isinstance(n, ast.Return):
            v = _returned_value(n)
            if v is None:
                continue
            if not isinstance(v, ast.JoinedStr):
                raise TranslateError(f"{lang}: transform_comparison returns a non-template")
            t = template(v)
            residue = "".join(x for k, x in t if k == "lit")
            if lang == "java" and residue.replace(" ", "") in ("Objects.equals(,)", "!Objects.equals(,)"):
                # by-value comparison of two reference operands (strings, boxed numbers)
                value_eq.append((residue.strip().startswith("!"), [x for k, x in t if k == "hole"]))
                continue
            if residue.strip(" ()") != "":
                raise TranslateError(f"{lang}: literal text {residue!r} in a comparison template")
            out.append([x for k, x in t if k == "hole"])
    if not out:
        raise TranslateError(f"{lang}: transform_comparison returns no template")
    if value_eq:
        # they must sit under `node.op in (EQ, NE) and <both operands compared by reference>`
        guards = [ast.unparse(n.test) for n in ast.walk(fn) if isinstance(n, ast.If)]
        if not any("Comparator.EQ" in g and "Comparator.NE" in g and "node.left" in g and "node.right" in g
                   for g in guards):
            raise TranslateError("java: Objects.equals templates without the EQ/NE guard on both operands")
        if not any(g.replace(" ", "") in ("node.opisparse_tree.Comparator.EQ", "node.op==parse_tree.Comparator.EQ")
                   for g in guards):
            raise TranslateError("java: cannot see which Objects.equals template belongs to EQ")
    VALUE_EQ[lang] = value_eq
    return out


# -- transform_not -----------------------------------------------------------------------
def not_shapes(lang: str, fn: ast.FunctionDef):
    src = None
    for n in ast.walk(fn):
        if isinstance(n, ast.Assign) and isinstance(n.targets[0], ast.Tuple):
            names = [e.id for e in n.targets[0].elts if isinstance(e, ast.Name)]
            if names[:1] == ["operand"]:
                src = ast.unparse(n.value.args[0]) if isinstance(n.value, ast.Call) and n.value.args else None
    if src != "node.operand":
        raise TranslateError(f"{lang}: transform_not does not transform node.operand")
    out = []
    for n in ast.walk(fn):
        if isinstance(n, ast.Return):
            v = _returned_value(n)
            if v is None:
                continue
            if not isinstance(v, ast.JoinedStr):
                raise TranslateError(f"{lang}: transform_not returns a non-template")
            out.append(_shape_of(lang, template(v)))
    if not out:
        raise TranslateError(f"{lang}: transform_not returns no template")
    return _dedup(out)


# -- transform_implication ---------------------------------------------------------------
def impl_shapes(lang: str, fn: ast.FunctionDef):
    sources = {}
    assigned: Dict[str, List[Any]] = {}
    for n in ast.walk(fn):
        if not isinstance(n, ast.Assign) or len(n.targets) != 1:
            continue
        tgt = n.targets[0]
        if isinstance(tgt, ast.Tuple):
            names = [e.id for e in tgt.elts if isinstance(e, ast.Name)]
            if names and names[0] in ("antecedent", "consequent"):
                if isinstance(n.value, ast.Call) and n.value.args:
                    sources[names[0]] = ast.unparse(n.value.args[0])
            continue
        if isinstance(tgt, ast.Name):
            v = _unwrap_stripped(n.value)
            if isinstance(v, ast.JoinedStr):
                assigned.setdefault(tgt.id, []).append(_shape_of(lang, template(v)))
            elif tgt.id in ("antecedent", "consequent", "not_antecedent"):
                raise TranslateError(f"{lang}: {tgt.id} assigned from a non-template")
    if sources != {"antecedent": "node.antecedent", "consequent": "node.consequent"}:
        raise TranslateError(f"{lang}: operands of the implication are {sources}")
    finals = []
    for n in ast.walk(fn):
        if isinstance(n, ast.Return):
            v = _returned_value(n)
            if v is None:
                continue
            if not isinstance(v, ast.JoinedStr):
                raise TranslateError(f"{lang}: transform_implication returns a non-template")
            finals.append(_shape_of(lang, template(v)))
    if not finals:
        raise TranslateError(f"{lang}: transform_implication returns no template")
    # substitute the local assignments; a variable may also keep its incoming value when
    # it is an operand itself (`consequent = f"({consequent})"` happens only in one branch)
    out = []
    for final in finals:
        hs = _dedup(_holes(final))
        choices = []
        for h in hs:
            alts = list(assigned.get(h, []))
            if h in ("antecedent", "consequent"):
                alts.append(("hole", h))
            if not alts:
                raise TranslateError(f"{lang}: hole {h} of the implication is never assigned")
            for a in alts:
                inner = set(_holes(a))
                if not inner <= {"antecedent", "consequent"}:
                    raise TranslateError(f"{lang}: nested template for {h} refers to {inner}")
            choices.append([(h, a) for a in alts])
        for combo in itertools.product(*choices):
            s = final
            # simultaneous substitution (holes of the replacements are operands, never
            # re-substituted): rename first
            for h, a in combo:
                s = _subst(s, h, ("hole", "\0" + h))
            for h, a in combo:
                a2 = a
                for op in ("antecedent", "consequent"):
                    a2 = _subst(a2, op, ("hole", "\1" + op))
                s = _subst(s, "\0" + h, a2)
            for op in ("antecedent", "consequent"):
                s = _subst(s, "\1" + op, ("hole", op))
            out.append(s)
    return _dedup(out)


# -- conjunction / disjunction -----------------------------------------------------------
def _writes(body: Sequence[ast.stmt]) -> List[ast.JoinedStr]:
    out = []
    for st in body:
        for n in ast.walk(st):
            if (isinstance(n, ast.Call) and isinstance(n.func, ast.Attribute) and n.func.attr == "write"
                    and len(n.args) == 1 and isinstance(n.args[0], ast.JoinedStr)):
                out.append(n.args[0])
    return out


def _is_instance_test(test: ast.expr, cls_name: str) -> bool:
    return (isinstance(test, ast.Call) and isinstance(test.func, ast.Name) and test.func.id == "isinstance"
            and len(test.args) == 2 and ast.unparse(test.args[0]) == "node"
            and ast.unparse(test.args[1]) == f"parse_tree.{cls_name}")


def and_or_shapes(lang: str, cls: ast.ClassDef):
    """Shapes of the text written for the 2nd, 3rd ... operand of And / Or."""
    res = {}
    shared = _method(cls, "_transform_and_or_or")
    for kind, cname, mname in (("and", "And", "transform_and"), ("or", "Or", "transform_or")):
        fn = _method(cls, mname)
        if fn is None:
            raise TranslateError(f"{lang}: no {mname}")
        delegating = (len([s for s in fn.body if not isinstance(s, ast.Expr)]) == 1
                      and isinstance(fn.body[-1], ast.Return)
                      and ast.unparse(fn.body[-1].value) == "self._transform_and_or_or(node)")
        joined: List[ast.JoinedStr] = []
        if delegating:
            if shared is None:
                raise TranslateError(f"{lang}: {mname} delegates to a missing method")
            for n in ast.walk(shared):
                if isinstance(n, ast.If) and _is_instance_test(n.test, cname):
                    joined += _writes(n.body)
            # whatever is written outside the And/Or dispatch must not carry a token
            dispatched = _all_branch_writes(shared)
            for w in _writes(shared.body):
                if any(w is j for j in dispatched):
                    continue
                lit = "".join(x for k, x in template(w) if k == "lit").strip()
                if lit.strip("()") != "":
                    raise TranslateError(f"{lang}: token {lit!r} written outside the And/Or dispatch")
        else:
            joined = _writes(fn.body)
        shapes = []
        for w in joined:
            t = template(w)
            lit = "".join(x for k, x in t if k == "lit").strip()
            if lit.strip("()") == "":
                continue  # first operand / parentheses
            shapes.append(_shape_of(lang, t, prefix="H_prev "))
        if not shapes:
            raise TranslateError(f"{lang}: no connective token found for {kind}")
        res[kind] = _dedup(shapes)
    return res["and"], res["or"]


def _all_branch_writes(fn: ast.FunctionDef) -> List[ast.JoinedStr]:
    out = []
    for n in ast.walk(fn):
        if isinstance(n, ast.If) and (_is_instance_test(n.test, "And") or _is_instance_test(n.test, "Or")):
            out += _writes(n.body)
    return out


# -- any / all over for-each / for-range: the helper each of the four cases is written with --
class _Terminated(Exception):
    pass


def _cap_camel(name: str) -> str:
    return "".join(p.capitalize() for p in name.split("_") if p)


def _q_val(e: ast.expr, env: Dict[str, List[str]]) -> List[str]:
    """Possible texts of an expression; anything not built from literals is the operand `that`."""
    e = _unwrap_stripped(e)
    if isinstance(e, ast.Constant) and isinstance(e.value, str):
        return [e.value]
    if isinstance(e, ast.Name):
        if set(e.id) == {"I"}:
            return [" "]
        return env.get(e.id, [" that "])
    if isinstance(e, ast.Call):
        f = ast.unparse(e.func)
        if f == "indent_but_first_line" and e.args:
            return _q_val(e.args[0], env)
        if f.endswith("naming.function_name") and len(e.args) == 1:
            a = e.args[0]
            if isinstance(a, ast.Call) and ast.unparse(a.func) == "Identifier" and len(a.args) == 1:
                inner = _q_val(a.args[0], env)
                if all(" that " not in x for x in inner):
                    return [_cap_camel(x) for x in inner]
            raise TranslateError(f"naming of a computed identifier: {ast.unparse(e)[:80]}")
        return [" that "]
    if isinstance(e, ast.JoinedStr):
        alts = [""]
        for v in e.values:
            if isinstance(v, ast.Constant):
                parts = [str(v.value)]
            elif isinstance(v, ast.FormattedValue):
                parts = _q_val(v.value, env)
            else:
                raise TranslateError("unexpected f-string part")
            alts = [a + p for a in alts for p in parts]
            if len(alts) > 64:
                raise TranslateError("too many alternatives in a quantifier template")
        return alts
    return [" that "]


def _q_join(env, branches, scen, out) -> None:
    """Run alternative branches (undecided condition) and join the environments."""
    results = []
    for branch in branches:
        e2 = {k: list(v) for k, v in env.items()}
        try:
            _q_exec(branch, e2, scen, out, False)
            results.append(e2)
        except _Terminated:
            pass  # the branch returned: it does not reach the join
    if not results:
        raise _Terminated()
    keys = set().union(*[set(r) for r in results])
    env.clear()
    for k in keys:
        env[k] = _dedup([x for r in results for x in r.get(k, [" that "])])


def _q_exec(stmts, env, scen, out, definite: bool) -> None:
    """Run the statements for one (node kind, generator kind); collects returned templates in
    ``out``; raises _Terminated after a return on a definite path."""
    for st in stmts:
        if isinstance(st, (ast.Assign, ast.AnnAssign)):
            if isinstance(st, ast.AnnAssign):
                if st.value is None or not isinstance(st.target, ast.Name):
                    continue
                targets, value = [st.target], st.value
            else:
                targets, value = st.targets, st.value
            for t in targets:
                if isinstance(t, ast.Name):
                    env[t.id] = _q_val(value, env)
                elif isinstance(t, ast.Tuple):
                    for el in t.elts:
                        if isinstance(el, ast.Name):
                            env[el.id] = [" that "]
        elif isinstance(st, ast.If):
            verdict = None
            t = st.test
            if (isinstance(t, ast.Call) and isinstance(t.func, ast.Name) and t.func.id == "isinstance" and len(t.args) == 2):
                subj, klass = ast.unparse(t.args[0]), ast.unparse(t.args[1])
                if subj == "node" and klass in ("parse_tree.Any", "parse_tree.All"):
                    verdict = (klass == "parse_tree.Any") == scen[0]
                elif subj == "node.generator" and klass in ("parse_tree.ForEach", "parse_tree.ForRange"):
                    verdict = (klass == "parse_tree.ForRange") == scen[1]
            if verdict is True:
                _q_exec(st.body, env, scen, out, definite)
            elif verdict is False:
                _q_exec(st.orelse, env, scen, out, definite)
            else:
                _q_join(env, [st.body, st.orelse], scen, out)
        elif isinstance(st, ast.Try):
            _q_exec(st.body, env, scen, out, definite)
            _q_exec(st.finalbody, env, scen, out, definite)
        elif isinstance(st, (ast.For, ast.While, ast.With)):
            _q_join(env, [st.body, []], scen, out)
        elif isinstance(st, ast.Return):
            v = st.value
            if isinstance(v, ast.Tuple) and len(v.elts) == 2:
                a, b = v.elts
                if isinstance(a, ast.Constant) and a.value is None:
                    if definite:
                        raise _Terminated()
                    continue  # an error path
                out.extend(_q_val(a, env))
                raise _Terminated()
            raise TranslateError(f"unexpected return in the quantifier transformer: {ast.unparse(st)[:100]}")
        # Expr, Assert, Pass, Raise: nothing to track


def quantifier_table(lang: str, cls: ast.ClassDef) -> List[Tuple[bool, bool, bool, bool]]:
    """(node is Any, generator is ForRange, emitted helper reads as any, ... as a range) for
    every template `_transform_any_or_all` can return in each of the four cases."""
    fn = _method(cls, "_transform_any_or_all")
    if fn is None:
        raise TranslateError(f"{lang}: no _transform_any_or_all")
    for name, want in (("transform_any", "Any"), ("transform_all", "All")):
        m = _method(cls, name)
        if m is None or "self._transform_any_or_all(node)" not in ast.unparse(m):
            raise TranslateError(f"{lang}: {name} does not delegate to _transform_any_or_all")
    rows = []
    for any_ in (True, False):
        for range_ in (False, True):
            out: List[str] = []
            try:
                _q_exec(fn.body, {}, (any_, range_), out, True)
            except _Terminated:
                pass
            if not out:
                raise TranslateError(f"{lang}: no template for any={any_} range={range_}")
            for text in _dedup(out):
                try:
                    t = xt.normalize(lang, xt.parse_expr(lang, text))
                except xt.TextError as e:
                    raise TranslateError(f"{lang}: quantifier template {text!r} is not understood: {e}")
                if not (isinstance(t, tuple) and t[0] in ("any", "all") and t[2][0] in ("each", "range")):
                    raise TranslateError(f"{lang}: quantifier template {text!r} reads as {t[0]!r}")
                rows.append((any_, range_, t[0] == "any", t[2][0] == "range"))
    return _dedup(rows)


# ----------------------------------------------------------------------------------------
def extract_lang(lang: str) -> Dict[str, Any]:
    tree = parse(f"aas_core_codegen/{lang}/transpilation.py")
    cls = _class(tree, "Transpiler")
    cmap = comparison_map(lang, cls)
    names = [k for k, _ in cmap]
    if len(set(names)) != len(names):
        raise TranslateError(f"{lang}: duplicate key in the comparison map (the later one wins in Python)")
    fn_cmp = _method(cls, "transform_comparison")
    fn_not = _method(cls, "transform_not")
    fn_imp = _method(cls, "transform_implication")
    if fn_cmp is None or fn_not is None or fn_imp is None:
        raise TranslateError(f"{lang}: missing transform_comparison / _not / _implication")
    a, o = and_or_shapes(lang, cls)
    cmp_templates = comparison_templates(lang, fn_cmp)
    return {"comparison_map": cmap,
            "cmp_templates": cmp_templates,
            "value_eq_templates": list(VALUE_EQ.get(lang, [])),
            "quantifier_table": quantifier_table(lang, cls),
            "not_shapes": not_shapes(lang, fn_not),
            "impl_shapes": impl_shapes(lang, fn_imp),
            "and_shapes": a, "or_shapes": o}


def extract() -> Dict[str, Dict[str, Any]]:
    return {lang: extract_lang(lang) for lang in LANGS}


# -- Coq printing ------------------------------------------------------------------------
def _t(s: str) -> str:
    return "[" + ";".join(str(ord(c)) for c in s) + "]%N"


def _shape(s) -> str:
    if s[0] == "hole":
        return f"(SHole {_t(s[1])})"
    if s[0] == "un":
        return f"(SUn {_t(s[1])} {_shape(s[2])})"
    return f"(SBin {_t(s[1])} {_shape(s[2])} {_shape(s[3])})"


def gen_operator_tables() -> str:
    data = extract()
    out = ["From Coq Require Import List NArith ZArith Bool.",
           "From Acg Require Import Base.Str Model.OpSem.",
           "Import ListNotations."]
    for lang in LANGS:
        d = data[lang]
        out.append(f"(* ---- {lang}/transpilation.py ---- *)")
        out.append(f"(* {MAP_NAME[lang]}: " + ", ".join(f"{k} -> {v!r}" for k, v in d["comparison_map"]) + " *)")
        out.append(f"Definition {lang}_comparison_map : cmp_table := ["
                   + ";\n  ".join(f"({_t(k)}, {_t(v)})" for k, v in d["comparison_map"]) + "].")
        out.append(f"Definition {lang}_cmp_templates : list (list text) := ["
                   + "; ".join("[" + "; ".join(_t(h) for h in hs) + "]" for hs in d["cmp_templates"]) + "].")
        out.append(f"(* templates `Objects.equals(l, r)` / `!Objects.equals(l, r)` used for EQ / NE when both "
                   f"operands are references: (negated, holes) *)")
        out.append(f"Definition {lang}_value_eq_templates : list (bool * list text) := ["
                   + "; ".join(f"({'true' if neg else 'false'}, [" + "; ".join(_t(h) for h in hs) + "])"
                               for neg, hs in d["value_eq_templates"]) + "].")
        out.append("(* (node is Any, generator is ForRange, emitted helper is an `any`, emitted iteration is a range) *)")
        out.append(f"Definition {lang}_quantifier_table : list (bool * bool * bool * bool) := ["
                   + "; ".join("(" + ", ".join("true" if x else "false" for x in row) + ")"
                               for row in d["quantifier_table"]) + "].")
        for key in ("not_shapes", "impl_shapes", "and_shapes", "or_shapes"):
            out.append(f"Definition {lang}_{key} : list shape := [\n  "
                       + ";\n  ".join(_shape(s) for s in d[key]) + "].")
    return "\n".join(out) + "\n"


GEN_FILES = {"GenOperatorTables": gen_operator_tables}
