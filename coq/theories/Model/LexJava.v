(** C19 — Java string literal lexer: JLS §3.3 (Unicode escapes are translated first,
    everywhere; a backslash is eligible to start one only when preceded by an even
    number of contiguous backslashes), then §3.10.5/§3.10.7 (string literal, escape
    sequences incl. octal escapes and [\s]). The value is a sequence of UTF-16 code
    units. Executable definitions only. *)
From Coq Require Import List NArith Bool.
From Acg Require Import Base.Str Model.LexCore.
Import ListNotations.
Open Scope N_scope.

(** Layer 2: the literal proper, over UTF-16 code units. *)
Inductive jl_state : Type :=
| JLStart | JLBody | JLEsc
| JLOct (max_more : nat) (acc : N)    (* octal escape: up to [max_more] further digits *)
| JLDone.

Definition jl_body_unit (u : N) : option (jl_state * text) :=
  if u =? 34 then Some (JLDone, [])
  else if u =? 92 then Some (JLEsc, [])
  else if (u =? 10) || (u =? 13) then None
  else Some (JLBody, [u]).

Definition jl_step (st : jl_state) (u : N) : option (jl_state * text) :=
  match st with
  | JLStart => if u =? 34 then Some (JLBody, []) else None
  | JLBody => jl_body_unit u
  | JLEsc =>
      if u =? 98 then Some (JLBody, [8]) else if u =? 115 then Some (JLBody, [32])
      else if u =? 116 then Some (JLBody, [9]) else if u =? 110 then Some (JLBody, [10])
      else if u =? 102 then Some (JLBody, [12]) else if u =? 114 then Some (JLBody, [13])
      else if u =? 34 then Some (JLBody, [34]) else if u =? 39 then Some (JLBody, [39])
      else if u =? 92 then Some (JLBody, [92])
      else match oct_val u with
           | Some d => Some (JLOct (if d <=? 3 then 2 else 1) d, [])
           | None => None
           end
  | JLOct max_more acc =>
      match oct_val u, max_more with
      | Some d, S k => match k with
                       | O => Some (JLBody, [acc * 8 + d])
                       | _ => Some (JLOct k (acc * 8 + d), [])
                       end
      | _, _ => match jl_body_unit u with
                | Some (st', out) => Some (st', acc :: out)
                | None => None
                end
      end
  | JLDone => None
  end.

Fixpoint jl_feed (st : jl_state) (us : text) : option (jl_state * text) :=
  match us with
  | [] => Some (st, [])
  | u :: r => match jl_step st u with
              | None => None
              | Some (st', o) => match jl_feed st' r with
                                 | None => None
                                 | Some (st'', o') => Some (st'', o ++ o')
                                 end
              end
  end.

(** Layer 1: Unicode escape translation of the raw source characters. *)
Inductive ju_state : Type :=
| UNorm            (* a backslash seen now is eligible *)
| UOdd             (* an odd run of backslashes has been passed on: next one is not eligible *)
| USlash           (* an eligible backslash is pending *)
| UHex (remaining : nat) (acc : N).   (* after \u+ : hex digits *)

Definition java_state : Type := (ju_state * jl_state)%type.

Definition java_step (st : java_state) (c : N) : option (java_state * text) :=
  let '(us, ls) := st in
  if negb (source_char c) then None else
  let pass (us' : ju_state) (units : text) :=
    match jl_feed ls units with
    | Some (ls', o) => Some ((us', ls'), o)
    | None => None
    end in
  match us with
  | UNorm => if c =? 92 then Some ((USlash, ls), []) else pass UNorm (utf16_cp c)
  | UOdd => pass UNorm (utf16_cp c)
  | USlash =>
      if c =? 117 then Some ((UHex 4 0, ls), [])
      else if c =? 92 then pass UNorm [92; 92]
      else pass UNorm (92 :: utf16_cp c)
  | UHex remaining acc =>
      if (c =? 117) && (Nat.eqb remaining 4) then Some ((UHex 4 0, ls), [])
      else match hex_val c, remaining with
           | Some d, S O => pass UNorm [acc * 16 + d]
           | Some d, S k => Some ((UHex k (acc * 16 + d), ls), [])
           | _, _ => None
           end
  end.

Definition lex_java (l : text) : option text :=
  match run java_step (UNorm, JLStart) l with
  | Some ((UNorm, JLDone), v) => Some v
  | _ => None
  end.
