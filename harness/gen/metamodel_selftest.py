#!/usr/bin/env python3
"""Self-test of the meta-model generator against the real code generator.

    python3 harness/gen/metamodel_selftest.py [N] [profile] [--seed S] [--no-gen]

Prints: the acceptance rate of N random models by the real front end, the success rate
of every generator (8 targets + smoke) with the synthesized snippets, the histogram of
generated features and, per mutation operator, how the front end reacted.
Every batch runs in a fresh subprocess with a fresh empty TMPDIR (``lib.impl_call``).
Exit status 0 iff acceptance >= 90 %, every generator >= 90 % and every mutant that was
produced was rejected or crashed the front end (none accepted).
"""
from __future__ import annotations

import argparse
import collections
import concurrent.futures
import pathlib
import random
import sys
import time

ROOT = pathlib.Path(__file__).resolve().parents[2]
sys.path.insert(0, str(ROOT))

from harness import lib  # noqa: E402
from harness.gen import metamodel as mmg  # noqa: E402


def _shards(items, k):
    k = max(1, min(k, len(items)))
    return [items[i::k] for i in range(k)]


def call_sharded(script, key, items, extra, workers=8):
    """Run ``items`` through ``harness/impl/<script>`` in parallel shards; keeps order."""
    indexed = list(enumerate(items))
    shards = _shards(indexed, workers)
    results = [None] * len(items)

    def run(shard):
        payload = dict(extra)
        payload[key] = [x for _, x in shard]
        out = lib.impl_call(script, payload, timeout=3600)
        return [(i, r) for (i, _), r in zip(shard, out)]

    with concurrent.futures.ThreadPoolExecutor(max_workers=len(shards)) as pool:
        for part in pool.map(run, shards):
            for i, r in part:
                results[i] = r
    return results


def main() -> int:
    ap = argparse.ArgumentParser()
    ap.add_argument("n", nargs="?", type=int, default=30)
    ap.add_argument("profile", nargs="?", default="small")
    ap.add_argument("--seed", type=int, default=0)
    ap.add_argument("--no-gen", action="store_true", help="skip the generators")
    ap.add_argument("--workers", type=int, default=min(8, lib.NCPU))
    args = ap.parse_args()

    t0 = time.time()
    models = []
    features = collections.Counter()
    for i in range(args.n):
        mm = mmg.random_metamodel(random.Random(args.seed * 1_000_003 + i), args.profile)
        text = mmg.render_source(mm)
        assert mmg.render_source(mmg.loads(mmg.dumps(mm))) == text, "JSON round trip"
        models.append((mm, text))
        features.update(mm.features)
    print(f"profile={args.profile} n={args.n} seed={args.seed} repo={lib.REPO}")

    # -- front end ------------------------------------------------------------------
    res = call_sharded("frontend.py", "models", [t for _, t in models], {"view": True}, args.workers)
    status = collections.Counter(r["status"] for r in res)
    accepted = status.get("ok", 0)
    print(f"front end: accepted {accepted}/{args.n} ({100.0 * accepted / args.n:.1f} %) {dict(status)}")
    for i, r in enumerate(res):
        if r["status"] != "ok":
            print(f"  model {i}: {r['status']} at {r.get('stage')}: "
                  f"{(r.get('error') or r.get('message') or '').strip()[:300]}")
            break
    ok = accepted >= 0.9 * args.n

    # -- generators -----------------------------------------------------------------
    if not args.no_gen:
        targets = list(mmg.TARGETS) + ["smoke"]
        jobs, index = [], []
        for i, (mm, text) in enumerate(models):
            for t in targets:
                jobs.append({"model_text": text, "target": t, "snippets": mmg.synth_snippets(mm, t)})
                index.append((i, t))
        out = call_sharded("cli.py", "jobs", jobs, {"files": "hash"}, args.workers)
        good = collections.Counter()
        first_bad = {}
        for (i, t), r in zip(index, out):
            if r["rc"] == 0 and r["exception"] is None:
                good[t] += 1
            elif t not in first_bad:
                what = (r["exception"] or {}).get("class") or f"rc={r['rc']}"
                detail = (r["stderr"] or (r["exception"] or {}).get("message") or "").strip()
                first_bad[t] = f"model {i}: {what}: {detail[:300]}"
        print("generators (rc == 0 and no escaped exception):")
        for t in targets:
            print(f"  {t:11s} {good[t]}/{args.n} ({100.0 * good[t] / args.n:.1f} %)")
            if t in first_bad:
                print(f"      first failure: {first_bad[t]}")
            ok = ok and good[t] >= 0.9 * args.n

    # -- features -------------------------------------------------------------------
    print("features (total over all models):")
    for k in sorted(features):
        print(f"  {k:40s} {features[k]}")

    # -- mutations ------------------------------------------------------------------
    texts, index2 = [], []
    na = collections.Counter()
    n_mut = min(args.n, 20)
    for i in range(n_mut):
        mm = models[i][0]
        for rule in mmg.MUTATIONS:
            mutant = mmg.mutate(mm, random.Random(args.seed * 7919 + i), rule)
            if mutant is None:
                na[rule] += 1
                continue
            texts.append(mutant.text)
            index2.append(rule)
    res2 = call_sharded("frontend.py", "models", texts, {"view": False}, args.workers)
    per_rule = collections.defaultdict(collections.Counter)
    for rule, r in zip(index2, res2):
        per_rule[rule][r["status"]] += 1
    print(f"mutation operators on the first {n_mut} models (front end verdicts):")
    for rule in mmg.MUTATIONS:
        c = per_rule[rule]
        total = sum(c.values())
        rate = 100.0 * (c["rejected"] + c["crash"]) / total if total else 0.0
        print(f"  {rule:34s} rejected {c['rejected']:3d}  crash {c['crash']:3d}  accepted {c['ok']:3d}"
              f"  no-site {na[rule]:3d}  -> not accepted {rate:.0f} %")
        ok = ok and c["ok"] == 0
    print(f"wall time {time.time() - t0:.0f} s; {'PASS' if ok else 'FAIL'}")
    return 0 if ok else 1


if __name__ == "__main__":
    sys.exit(main())
