#!/bin/bash
# usage: verify_seeded.sh <dir with patch.diff demo.py> <worktree> "<pytest args>"
# Confirms: demo passes on clean tree, patch applies, given tests pass with patch, demo fails with patch.
d=$1; wt=$2; tests=$3
cd $wt && git checkout -q -- . && git status --short | grep -v '^??' 
PYTHONPATH=$wt /venv/bin/python $d/demo.py >/dev/null 2>&1; echo "demo clean rc=$?"
git apply $d/patch.diff || { echo "PATCH FAILS"; exit 1; }
PYTHONPATH=$wt /venv/bin/python -m pytest -q -p no:cacheprovider $tests 2>&1 | tail -1
PYTHONPATH=$wt /venv/bin/python $d/demo.py >/dev/null 2>&1; echo "demo patched rc=$?"
git checkout -q -- .
