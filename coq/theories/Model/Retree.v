(** AST of regular expressions, as [aas_core_codegen/parse/retree/_types.py].

    Python                                   here
    ---------------------------------------  ------------------------------------------
    Regex(union)                             [regex]  = [union_expr]
    UnionExpr(uniates)                       [union_expr] = [list concatenation]
    Concatenation(concatenants)              [concatenation] = [list term]
    Term(value, quantifier)                  [term] = [tvalue * option quantifier]
    Group(union)                             [VGroup u]
    Char(character, explicitly_encoded)      [VChar {| ch_code; ch_enc |}]
    CharSet(complementing, ranges)           [VCharSet compl rs]
    FormattedValue (opaque, parse.tree)      [VFormatted id]
    Symbol(kind)                             [VSymbol k]
    Range(start, end)                        [{| rg_start; rg_end |}]
    Quantifier(non_greedy, minimum, maximum) [{| q_non_greedy; q_min; q_max |}]

    The three wrapper classes around a list are kept as plain lists so that [tvalue]
    is the only recursive type. Executable definitions only, no proofs. *)
From Coq Require Import List NArith Bool.
From Acg Require Import Base.Str.
Import ListNotations.
Open Scope N_scope.

Inductive symbol_kind : Type := SymStart | SymEnd | SymDot.

(** [Char]: the decoded code point and the "render me encoded" flag. *)
Record rchar : Type := mkChar { ch_code : N; ch_enc : bool }.

Record range : Type := mkRange { rg_start : rchar; rg_end : option rchar }.

(** Bounds are non-negative in every tree the parser builds (digits only). *)
Record quantifier : Type :=
  mkQuant { q_non_greedy : bool; q_min : N; q_max : option N }.

(** A formatted value of an f-string pattern is opaque; we keep an identifier. *)
Definition fv : Type := N.

Inductive tvalue : Type :=
| VGroup (u : list (list (tvalue * option quantifier)))
| VChar (c : rchar)
| VCharSet (complementing : bool) (ranges : list range)
| VFormatted (f : fv)
| VSymbol (k : symbol_kind).

Definition term : Type := (tvalue * option quantifier)%type.
Definition concatenation : Type := list term.
Definition union_expr : Type := list concatenation.
Definition regex : Type := union_expr.

(** Input of the parser: the values of a (possibly formatted) string, and its flat
    form, one token per character or formatted value. *)
Inductive tok : Type := C (c : N) | F (f : fv).
Definition pvalue : Type := (text + fv)%type.

Definition tokens_of_value (v : pvalue) : list tok :=
  match v with inl s => map C s | inr f => [F f] end.
Definition tokens_of_values (vs : list pvalue) : list tok :=
  flat_map tokens_of_value vs.

(** Decidable equalities (used by the correspondence check to compare trees). *)
Definition symbol_kind_eqb (a b : symbol_kind) : bool :=
  match a, b with
  | SymStart, SymStart | SymEnd, SymEnd | SymDot, SymDot => true
  | _, _ => false
  end.
Definition rchar_eqb (a b : rchar) : bool :=
  N.eqb (ch_code a) (ch_code b) && Bool.eqb (ch_enc a) (ch_enc b).
Definition range_eqb (a b : range) : bool :=
  rchar_eqb (rg_start a) (rg_start b) && option_eqb rchar_eqb (rg_end a) (rg_end b).
Definition quantifier_eqb (a b : quantifier) : bool :=
  Bool.eqb (q_non_greedy a) (q_non_greedy b) && N.eqb (q_min a) (q_min b)
  && option_eqb N.eqb (q_max a) (q_max b).

Fixpoint tvalue_eqb (a b : tvalue) {struct a} : bool :=
  match a, b with
  | VGroup u1, VGroup u2 =>
      (fix un (x y : list (list (tvalue * option quantifier))) {struct x} : bool :=
         match x, y with
         | [], [] => true
         | c1 :: x', c2 :: y' =>
             (fix cc (p q : list (tvalue * option quantifier)) {struct p} : bool :=
                match p, q with
                | [], [] => true
                | (v1, q1) :: p', (v2, q2) :: q' =>
                    tvalue_eqb v1 v2 && option_eqb quantifier_eqb q1 q2 && cc p' q'
                | _, _ => false
                end) c1 c2 && un x' y'
         | _, _ => false
         end) u1 u2
  | VChar c1, VChar c2 => rchar_eqb c1 c2
  | VCharSet k1 r1, VCharSet k2 r2 => Bool.eqb k1 k2 && list_eqb range_eqb r1 r2
  | VFormatted f1, VFormatted f2 => N.eqb f1 f2
  | VSymbol k1, VSymbol k2 => symbol_kind_eqb k1 k2
  | _, _ => false
  end.

Definition term_eqb (a b : term) : bool :=
  tvalue_eqb (fst a) (fst b) && option_eqb quantifier_eqb (snd a) (snd b).
Definition concatenation_eqb : concatenation -> concatenation -> bool := list_eqb term_eqb.
Definition union_eqb : union_expr -> union_expr -> bool := list_eqb concatenation_eqb.

Definition tok_eqb (a b : tok) : bool :=
  match a, b with
  | C x, C y => N.eqb x y
  | F x, F y => N.eqb x y
  | _, _ => false
  end.
Definition pvalue_eqb (a b : pvalue) : bool :=
  match a, b with
  | inl x, inl y => text_eqb x y
  | inr x, inr y => N.eqb x y
  | _, _ => false
  end.
