(** C17 — executable model of [parse/retree/_fix.py] ([_FixForUTF16Regex],
    [fix_for_utf16_regex_in_place]) and of the UTF-16 encoding of a string.

    In-place mutation becomes a function returning the new tree. Exceptions are explicit:
    a violated icontract [@require]/[@ensure] is [Crash Violation], a failing [assert] is
    [Crash AssertionError]. No proofs here. *)
From Coq Require Import List NArith Bool Arith.
From Acg Require Import Base.Outcome Model.Utf16Tree.
Import ListNotations.
Open Scope N_scope.

Definition res (A : Type) : Type := outcome A unit.

Definition PLANE_START : N := 0x10000.  (* _SUPPLEMENTARY_PLANE_START *)
Definition PLANE_END : N := 0x10FFFF.   (* _SUPPLEMENTARY_PLANE_END *)

(** [_convert_to_surrogates] with its pre- and post-condition *)
Definition hi_of (code : N) : N := (code - 0x10000) / 0x400 + 0xD800.
Definition lo_of (code : N) : N := (code - 0x10000) mod 0x400 + 0xDC00.

Definition to_surrogates (code : N) : res (N * N) :=
  if (PLANE_START <=? code) && (code <=? PLANE_END) then
    let h := hi_of code in
    let l := lo_of code in
    if (0xD800 <=? h) && (h <=? 0xDBFF) && (0xDC00 <=? l) && (l <=? 0xDFFF)
    then Ok (h, l)
    else Crash Violation
  else Crash Violation.

(** Char(character=chr(n), explicitly_encoded=True) *)
Definition ech (n : N) : chr := mkchr n true.
Definition tch (n : N) : term := TChar (ech n) None.

(** [_character_literal_to_surrogates_if_necessary] *)
Definition fix_char (c : chr) (q : option quant) : res concat :=
  if ccode c <? PLANE_START then Ok (CCons (TChar c q) CNil)
  else
    do hl <- to_surrogates (ccode c);
    let (h, l) := hl in
    match q with
    | Some _ =>
        Ok (CCons (TGroup (UCons (CCons (tch h) (CCons (tch l) CNil)) UNil) q) CNil)
    | None => Ok (CCons (tch h) (CCons (tch l) CNil))
    end.

(** The three shapes produced for one astral range:
    [_produce_char_char], [_produce_char_char_set], [_produce_char_set_char_set]. *)
Inductive pairpat : Type :=
| PCC (h l : N)
| PCS (h ls le : N)
| PSS (hs he ls le : N).

Definition eset (a b : N) : term :=
  TSet false [mkrng (ech a) (Some (ech b))] None.

Definition pp_concat (p : pairpat) : concat :=
  match p with
  | PCC h l => CCons (tch h) (CCons (tch l) CNil)
  | PCS h ls le => CCons (tch h) (CCons (eset ls le) CNil)
  | PSS hs he ls le => CCons (eset hs he) (CCons (eset ls le) CNil)
  end.

(** which pairs (high unit, low unit) a shape matches *)
Definition pp_match (p : pairpat) (h l : N) : bool :=
  match p with
  | PCC h0 l0 => (h =? h0) && (l =? l0)
  | PCS h0 ls le => (h =? h0) && (ls <=? l) && (l <=? le)
  | PSS hs he ls le => (hs <=? h) && (h <=? he) && (ls <=? l) && (l <=? le)
  end.

Definition matches_pairs (ps : list pairpat) (h l : N) : bool :=
  existsb (fun p => pp_match p h l) ps.

Definition range_end_code (r : rng) : N :=
  match rend r with None => ccode (rstart r) | Some e => ccode e end.

(** first loop of [_expand_char_set_to_surrogates_if_necessary]: ranges below the
    supplementary planes / ranges involving them. A range that starts in the BMP and
    ends in a supplementary plane is cut at the plane boundary (repaired behaviour, see
    docs/C17.md; the unrepaired code passed the BMP start to [_convert_to_surrogates]
    and died with a ViolationError). *)
Fixpoint partition_ranges (rs : list rng) : list rng * list rng :=
  match rs with
  | [] => ([], [])
  | r :: rs' =>
      let (wo, w) := partition_ranges rs' in
      let a := ccode (rstart r) in
      let b := range_end_code r in
      if (a <? PLANE_START) && (b <? PLANE_START) then (r :: wo, w)
      else if a <? PLANE_START then
        (mkrng (rstart r) (Some (ech 0xFFFF)) :: wo,
         mkrng (ech PLANE_START) (rend r) :: w)
      else (wo, r :: w)
  end.

(** body of the second loop: the case analysis on the surrogates of both ends *)
Definition split_hl (hs ls he le : N) : list pairpat :=
  if hs =? he then [PCS hs ls le]
  else
    [PCS hs ls 0xDFFF]
    ++ (if 1 <? he - hs
        then if hs + 1 =? he - 1
             then [PCS (hs + 1) 0xDC00 0xDFFF]
             else [PSS (hs + 1) (he - 1) 0xDC00 0xDFFF]
        else [])
    ++ [PCS he 0xDC00 le].

Definition split_range (r : rng) : res (list pairpat) :=
  do hl <- to_surrogates (ccode (rstart r));
  let (hs, ls) := hl in
  match rend r with
  | None => Ok [PCC hs ls]
  | Some e =>
      if ccode (rstart r) =? ccode e then Ok [PCC hs ls]
      else if negb (ccode (rstart r) <? ccode e) then Crash AssertionError
      else
        do hl2 <- to_surrogates (ccode e);
        let (he, le) := hl2 in
        Ok (split_hl hs ls he le)
  end.

Fixpoint split_ranges (w : list rng) : res (list pairpat) :=
  match w with
  | [] => Ok []
  | r :: w' =>
      do ps <- split_range r;
      do ps' <- split_ranges w';
      Ok (ps ++ ps')
  end.

(** [_expand_char_set_to_surrogates_if_necessary] *)
Definition fix_set (compl : bool) (rs : list rng) (q : option quant) : res concat :=
  let (wo, w) := partition_ranges rs in
  match w with
  | [] => Ok (CCons (TSet compl rs q) CNil)
  | _ :: _ =>
      if compl then Crash AssertionError
      else
        do ps <- split_ranges w;
        let first :=
          match wo with
          | [] => []
          | _ :: _ => [CCons (TSet false wo None) CNil]
          end in
        Ok (CCons (TGroup (union_of_list (first ++ map pp_concat ps)) q) CNil)
  end.

(** [visit_concatenation] + [PassThroughVisitor]: every Char / CharSet term of a
    concatenation is replaced by its expansion, groups are visited recursively. (The
    code visits the freshly produced groups again; they contain no supplementary
    character, so this is a no-op and is not modelled. The code runs all expansions of
    one concatenation before descending; the model goes depth-first, which differs only
    in which of several crashes is reported first.) *)
Fixpoint fix_term (t : term) : res concat :=
  match t with
  | TChar c q => fix_char c q
  | TSet k rs q => fix_set k rs q
  | TSym y q => Ok (CCons (TSym y q) CNil)
  | TGroup u q => do u' <- fix_union u; Ok (CCons (TGroup u' q) CNil)
  end
with fix_concat (c : concat) : res concat :=
  match c with
  | CNil => Ok CNil
  | CCons t c' =>
      do ts <- fix_term t;
      do r <- fix_concat c';
      Ok (capp ts r)
  end
with fix_union (u : union) : res union :=
  match u with
  | UNil => Ok UNil
  | UCons c u' =>
      do c' <- fix_concat c;
      do r <- fix_union u';
      Ok (UCons c' r)
  end.

(** [fix_for_utf16_regex_in_place] on [Regex.union] *)
Definition fix_utf16 (u : union) : res union := fix_union u.

(* ------------------------------------------------------------- UTF-16 encoding *)
Definition units (x : N) : list N :=
  if x <? PLANE_START then [x] else [hi_of x; lo_of x].

(** code points -> UTF-16 code units *)
Definition enc16 (s : list N) : list N := flat_map units s.

(** inverse of [_convert_to_surrogates] *)
Definition decode (h l : N) : N := 0x10000 + (h - 0xD800) * 0x400 + (l - 0xDC00).

Definition is_hi (h : N) : bool := (0xD800 <=? h) && (h <=? 0xDBFF).
Definition is_lo (l : N) : bool := (0xDC00 <=? l) && (l <=? 0xDFFF).
Definition astral (x : N) : bool := (PLANE_START <=? x) && (x <=? PLANE_END).

(** Unicode scalar value: a code point that is not a surrogate *)
Definition scalar (x : N) : bool := (x <? 0xD800) || ((0xDFFF <? x) && (x <=? PLANE_END)).
Definition bmp_scalar (x : N) : bool := scalar x && (x <? PLANE_START).

(* ------------------------------------------- what the front end can hand over *)
(** Shape of the trees [parse_retree.parse] returns (only what matters here): code
    points are code points, a range is ordered, a complemented set has no end point in
    the supplementary planes (repaired parser check [>=], see docs/C17.md). *)
Definition chr_ok (c : chr) : bool := ccode c <=? PLANE_END.

Definition rng_ok (r : rng) : bool :=
  chr_ok (rstart r)
  && match rend r with
     | None => true
     | Some e => chr_ok e && (ccode (rstart r) <=? ccode e)
     end.

Definition rng_bmp (r : rng) : bool :=
  (ccode (rstart r) <? PLANE_START) && (range_end_code r <? PLANE_START).

Fixpoint accepted_term (t : term) : bool :=
  match t with
  | TChar c _ => chr_ok c
  | TSet k rs _ => forallb rng_ok rs && (negb k || forallb rng_bmp rs)
  | TSym _ _ => true
  | TGroup u _ => accepted_union u
  end
with accepted_concat (c : concat) : bool :=
  match c with
  | CNil => true
  | CCons t c' => accepted_term t && accepted_concat c'
  end
with accepted_union (u : union) : bool :=
  match u with
  | UNil => true
  | UCons c u' => accepted_concat c && accepted_union u'
  end.

(** Patterns for which the rewriting can be language-preserving on strings with
    supplementary characters: no [.], no complemented set, and no literal / range of
    the pattern contains a high-surrogate code point (a UTF-16 engine would take the
    first half of a pair for it). *)
Definition touches_hi (a b : N) : bool := (a <=? 0xDBFF) && (0xD800 <=? b).

Definition rng_clean (r : rng) : bool :=
  negb (touches_hi (ccode (rstart r)) (range_end_code r)).

Fixpoint clean_term (t : term) : bool :=
  match t with
  | TChar c _ => negb (is_hi (ccode c))
  | TSet k rs _ => negb k && forallb rng_clean rs
  | TSym y _ => match y with SDot => false | _ => true end
  | TGroup u _ => clean_union u
  end
with clean_concat (c : concat) : bool :=
  match c with
  | CNil => true
  | CCons t c' => clean_term t && clean_concat c'
  end
with clean_union (u : union) : bool :=
  match u with
  | UNil => true
  | UCons c u' => clean_concat c && clean_union u'
  end.
